"""C14 — the validator says secure only with a valid chain (narrow, structural).

C14.sig    Group::check_sig: the cryptographic verification (and the value
           returned) is dominated by the RFC 4035 5.3.1 guard table.
C14.cache  check_sig_cached: the cache key covers the signed data, the full
           RRSIG RDATA (signature included) and the key; the cached value is
           exactly check_sig's result.
C14.nsec   nsec_for_not_exists: the delegation / DNAME exclusion tests the
           NSEC owner as a suffix of the *target* (not the reverse).
C14.range  nsec3_in_range is a strictly open interval: owner hash, target
           hash and next hash are compared with `<` / `>` only -- an NSEC3
           record that *matches* a name never "covers" it.
C14.chain  do_cname_dname folds the validation state of every link it
           follows (CNAME and DNAME alike) into the state of the chain before
           it goes on to the next name.
C14.panic  no unwrap/expect on values derived from upstream response content
           whose error type is a parse/decode error, in any validator body
           (each remaining site is audited with the invariant it relies on).
C14.time   signature times use RFC 1982 ordering (shared with C17.use).
"""
import re

from mirlib import closures_created_in, BranchFacts, strip, deep_strip, show, walk, const_value
from rulelib import (
    bool_facts, cyclic_blocks, dominating_edges, facts_at, fmt_path, must_pass, names_in_term, outcome_facts, relations, return_assignments,
    succeeded_calls,
)

V = "dnssec::validator::"

SIG_GUARDS = [
    # (name, predicate over (shown term, value))
    ("owner names equal", lambda s, v: "name_eq(" in s and "owner" in s and v is True),
    ("classes equal", lambda s, v: "class" in s and (("::ne(" in s or "Ne(" in s or "PartialEq" in s and "ne(" in s) and v is False or
                                                  ("eq(" in s or "Eq(" in s) and v is True)),
    ("owner ends with signer name", lambda s, v: "ends_with(" in s and v is True),
    ("type covered equals RRset type", lambda s, v: "type_covered" in s and ((("ne(" in s or "Ne(" in s) and v is False) or (("eq(" in s or "Eq(" in s) and v is True))),
    ("label count >= Labels field", lambda s, v: "labels(" in s and (("Lt(" in s and v is False) or ("Ge(" in s and v is True))),
    ("not expired (now <= expiration)", lambda s, v: "expiration" in s and "gt(" in s and v is False),
    ("not before inception (now >= inception)", lambda s, v: "inception" in s and "lt(" in s and v is False),
    ("signer name equals key name", lambda s, v: ("arg3" in s and "arg5" in s) and ((("ne(" in s) and v is False) or (("eq(" in s) and v is True))),
    ("algorithms equal", lambda s, v: "algorithm" in s and (((("ne(" in s) or "Ne(" in s) and v is False) or ((("eq(" in s) or "Eq(" in s) and v is True))),
    ("key tags equal", lambda s, v: "key_tag" in s and ((("Ne(" in s or "ne(" in s) and v is False) or (("Eq(" in s or "eq(" in s) and v is True))),
    ("key has the zone flag", lambda s, v: "is_zone_key" in s and v is True),
]


def run(ctx):
    F = ctx.facts
    ctx.extra["explanation"] = (
        "C14: RFC 4035 5.3.1 guard table dominating cryptographic verification in check_sig, composition of "
        "the signature-cache key, operand direction of the delegation/DNAME exclusion in the NSEC proof, typed "
        "unwrap/expect audit over upstream-derived values in all validator bodies, RFC 1982 ordering of signature "
        "times. Completeness of the chain walk, denial proofs in general and insecure-vs-bogus classification are "
        "not decided."
    )
    rule_sig(ctx, F)
    rule_cache(ctx, F)
    rule_nsec(ctx, F)
    rule_panic(ctx, F)
    rule_time(ctx, F)
    rule_anchor(ctx, F)
    rule_nsec3(ctx, F)
    rule_range(ctx, F)
    rule_chain(ctx, F)


def rule_sig(ctx, F):
    R = "C14.sig"
    ctx.floor(R, 12)
    b = F.one_body(r"^dnssec::validator::group::Group::check_sig$")
    if not ctx.anchor(R, "Group::check_sig", b):
        return
    ver = b.calls_matching(r"verify_signed_data$")
    if not ctx.anchor(R, "verify_signed_data call in check_sig", len(ver) == 1, b.where()):
        return
    vbb = ver[0][0]
    facts = [(show(t), v) for t, v in bool_facts(b, vbb, F)]
    for name, pred in SIG_GUARDS:
        ok = any(pred(s, v) for s, v in facts)
        ctx.ob(R, b, name, ok,
               "Group::check_sig reaches the cryptographic verification without the RFC 4035 5.3.1 check '%s' having "
               "passed on every path: a signature that must be rejected on that ground would be accepted" % name, b.where(vbb))
    # the function's positive result is the verification's result
    rets = return_assignments(b)
    pos = [r for r in rets if r[2] != "false"]
    okp = len(pos) == 1 and (pos[0][2].startswith("call:") and "is_ok" in pos[0][2] or (pos[0][3] is not None and "verify_signed_data" in show(pos[0][3])))
    ctx.ob(R, b, "true only as the verification result", okp,
           "check_sig has a non-false return that is not the outcome of verify_signed_data: %s" % [(r[2]) for r in pos])
    # signed data is built from this group's RRset with the RRSIG under test
    sd = b.calls_matching(r"RrsigExt::signed_data$|signed_data$")
    oks = False
    for bb, t in sd:
        a0 = deep_strip(b.term_of_operand(t["args"][0]))
        oks = oks or ("arg2" in show(a0))
    ctx.ob(R, b, "signed data built from the RRSIG under test", oks and any(b.dominates(bb, vbb) for bb, _ in sd),
           "the data verified is not rebuilt from the signature record passed in")


def rule_cache(ctx, F):
    R = "C14.cache"
    ctx.floor(R, 4)
    bs = [b for p, b in F.bodies.items() if re.match(r"^dnssec::validator::group::Group::check_sig_cached::\{closure#0\}$", p)]
    if not ctx.anchor(R, "Group::check_sig_cached", len(bs) == 1):
        return
    b = bs[0]
    keys = []
    for bi in b.reachable_blocks():
        for st in b.blocks[bi]["s"]:
            if st[0] == "=" and st[2][0] == "agg" and st[2][1][0] == "adt" and st[2][1][1].endswith("group::SigKey"):
                keys.append((bi, st[2][2]))
    if not ctx.anchor(R, "SigKey construction", len(keys) == 1, b.where()):
        return
    kb, ops = keys[0]
    terms = [b.term_of_operand(o) for o in ops]
    n_digest = sum(1 for t in terms if any(s[0] == "call" and (s[1] or "").endswith("DigestBuilder::finish") for s in walk(t)))
    has_sd = any(any(s[0] in ("local", "phi") and b.var_name(s[1]) == "signed_data" for s in walk(t)) or "signed_data" in names_in_term(b, t) for t in terms)
    # which record data are hashed (closures calling compose_canonical_rdata)
    hashed = set()
    for p, cb in F.bodies.items():
        if cb.root and p.startswith(b.path.rsplit("::{closure", 1)[0]) and "check_sig_cached" in p:
            for _, t in cb.calls():
                if (t["fn"] or "").endswith("ComposeRecordData::compose_canonical_rdata") and t["targs"]:
                    hashed.add(t["targs"][0].split("<")[0].split("::")[-1])
    # provenance: which buffer does each digest read, and what was composed into that buffer
    def buf_id(term):
        for s in walk(term):
            if s[0] == "local":
                return ("local", s[1])
            if s[0] == "call" and s[1] and re.search(r"Vec::<.*>::new$|::with_capacity$|Default::default$", s[1]):
                return ("new", s[5])
        return None
    composed = {}   # buffer id -> record types composed into it
    for bi, cb, cops in closures_created_in(F, b):
        types = {t["targs"][0].split("<")[0].split("::")[-1] for _, t in cb.calls()
                 if (t["fn"] or "").endswith("ComposeRecordData::compose_canonical_rdata") and t["targs"]}
        if not types:
            continue
        for o in cops:
            bid = buf_id(b.term_of_operand(o))
            if bid:
                composed.setdefault(bid, set()).update(types)
    digested = set()
    n_upd = 0
    for bb, t in b.calls():
        if (t["fn"] or "").endswith("DigestBuilder::update") and len(t["args"]) >= 2:
            n_upd += 1
            bid = buf_id(b.term_of_operand(t["args"][1]))
            digested |= composed.get(bid, set())
    ctx.ob(R, b, "the digests in the cache key read the buffers the RRSIG and the DNSKEY were composed into",
           {"Rrsig", "Dnskey"} <= digested,
           "the signature-cache key digests %d buffer(s) holding %s; it must digest both the canonical RRSIG RDATA "
           "(signature included) and the DNSKEY RDATA — otherwise a forged signature for a once-validated RRset is "
           "answered from the cache as valid" % (n_upd, sorted(digested)))
    # the signed data: the buffer RrsigExt::signed_data filled is one of the key's fields (by role, not by name)
    sd_bufs = {buf_id(b.term_of_operand(a)) for bb, t in b.calls() if (t["fn"] or "").endswith("::signed_data") for a in t["args"][1:2]}
    key_bufs = {buf_id(tt) for tt in terms}
    has_sd = bool(sd_bufs - {None}) and bool((sd_bufs - {None}) & key_bufs)
    ctx.ob(R, b, "cache key covers the signed data", has_sd,
           "the signature cache key does not contain the signed data")
    ctx.ob(R, b, "cache key covers the RRSIG RDATA including the signature", "Rrsig" in hashed and n_digest >= 2,
           "the signature cache key does not depend on the signature octets (hashed record data: %s, digests in key: %d): "
           "after one genuine validation, the same RRset with a forged signature would be answered from the cache as valid"
           % (sorted(hashed), n_digest))
    ctx.ob(R, b, "cache key covers the DNSKEY", "Dnskey" in hashed, "the signature cache key does not depend on the key")
    # value inserted = result of check_sig
    ins = b.calls_matching(r"Cache::<.*>::insert$")
    chk = b.calls_matching(r"group::Group::check_sig$")
    ok = False
    if len(ins) == 1 and len(chk) == 1:
        v = deep_strip(b.term_of_operand(ins[0][1]["args"][2]))
        ok = v[0] == "call" and v[5] == chk[0][0]
    ctx.ob(R, b, "cached value is check_sig's verdict", ok, "the value stored in the signature cache is not the result of check_sig")


def rule_nsec(ctx, F):
    R = "C14.nsec"
    ctx.floor(R, 1)
    b = F.one_body(r"^dnssec::validator::nsec::nsec_for_not_exists$")
    if not ctx.anchor(R, "nsec_for_not_exists", b):
        return
    # the ends_with test that guards the NS/SOA/DNAME type checks
    ew = [(bb, t) for bb, t in b.calls() if re.search(r"::ends_with$", t["fn"] or "")]
    conts = [bb for bb, t in b.calls() if re.search(r"RtypeBitmap::<.*>::contains$", t["fn"] or "")]
    guarded = []
    for bb, t in ew:
        if any(any(tt[0] == "call" and tt[5] == bb and vv is True for tt, vv in bool_facts(b, c, F)) for c in conts):
            guarded.append((bb, t))
    if not ctx.anchor(R, "ends_with guarding the delegation/DNAME type checks", len(guarded) >= 1, b.where()):
        return
    for bb, t in guarded:
        # roles, not names: the receiver is the queried name (the function's first parameter), the
        # argument is the owner of the NSEC record taken from the validated groups (second parameter)
        rt, at = b.term_of_operand(t["args"][0]), b.term_of_operand(t["args"][1])
        recv_roots = {s[1] for s in walk(rt) if s[0] == "arg"}
        arg_roots = {s[1] for s in walk(at) if s[0] == "arg"}
        arg_owner = any(s[0] == "call" and re.search(r"::owner$", s[1] or "") for s in walk(at))
        ok = 1 in recv_roots and 1 not in arg_roots and (arg_owner or 2 in arg_roots)
        recv = {"param#%d" % r for r in recv_roots}
        arg = {"param#%d" % r for r in arg_roots} | ({"owner()"} if arg_owner else set())
        ctx.ob(R, b, "target.ends_with(owner) guards the delegation/DNAME exclusion", ok,
               "the NSEC owner must be tested as an ancestor of the target (target.ends_with(owner)); found receiver %s, "
               "argument %s: with the operands swapped the exclusion of delegation and DNAME owners never triggers and a "
               "parent-side NSEC proves non-existence inside an insecure child zone" % (sorted(x for x in recv if x), sorted(x for x in arg if x)),
               b.where(bb))


UPSTREAM_ERR = re.compile(r"(base::wire::ParseError|octseq::(parse::)?ShortInput|utils::base\d+::DecodeError|base64::DecodeError|"
                          r"dnssec::common::Nsec3HashError|core::str::Utf8Error|base::name::.*Error|ShortMessage)")
PANIC_AUDIT = {
    # (fn regex, callee last segment): reason
    (r"cached_nsec3_hash", "nsec3_hash"): "every caller checks supported_nsec3_hash(algorithm) first; the only other error is an "
                                          "append error on a Vec (infallible)",
    (r"validator::(rebuild_msg|remove_dnssec|add_opt|serve_fail)|utilities::rebuild_msg", "from_octets"):
        "re-parses the octets a MessageBuilder just produced",
    (r"validate_msg|request_dnskey|request_ds|request_as_groups|context::ValidationContext", "from_octets"): "re-parses the octets a MessageBuilder just produced",
    (r"cached_nsec3_hash|context::", "from_slice"): "label built from a fixed-length Base32hex rendering of a hash (<= 63 octets)",
}


def rule_panic(ctx, F):
    R = "C14.panic"
    ctx.floor(R, 3)
    n = 0
    seen = {}
    for p, b in F.bodies.items():
        if not (p.startswith((V, "<" + V, "net::client::validator", "<net::client::validator"))):
            continue
        if "::test" in p:
            continue
        for bb, t in b.calls():
            fn = t["fn"] or ""
            if not re.search(r"core::result::Result::<.*>::(unwrap|expect)$", fn):
                continue
            targs = t["targs"]
            if len(targs) < 2 or not UPSTREAM_ERR.search(targs[1]):
                continue
            n += 1
            recv = deep_strip(b.term_of_operand(t["args"][0]))
            src = next((s for s in walk(recv) if s[0] == "call"), None)
            sname = (re.sub(r"::<.*$", "", src[1]).split("::")[-1] if src else "?")
            if src and src[1]:
                segs = [x for x in re.sub(r"<[^<>]*>", "", src[1]).split("::") if x]
                sname = segs[-1] if segs else sname
            k = (p, sname)
            seen[k] = seen.get(k, 0) + 1
            reason = None
            for (rx, cal), why in PANIC_AUDIT.items():
                if re.search(rx, p) and cal == sname:
                    reason = why
            ctx.ob(R, b, "%s of %s#%d" % (fn.split("::")[-1], sname, seen[k]), reason is not None,
                   "the validator %ss a %s whose error (%s) is reachable from upstream response content: a hostile "
                   "response panics the validator" % (fn.split("::")[-1], sname, targs[1].split("::")[-1]), b.where(bb),
                   nontrivial=False, detail=reason)
    ctx.call_sites += n
    # the two repaired sites stay repaired: nsec3_label_to_hash returns the decode error
    b = F.one_body(r"^dnssec::validator::nsec::nsec3_label_to_hash$")
    if ctx.anchor(R, "nsec3_label_to_hash", b):
        ex = [t for _, t in b.calls() if re.search(r"::(unwrap|expect)$", t["fn"] or "")]
        ctx.ob(R, b, "decode failure of an NSEC3 owner label is returned", not ex,
               "nsec3_label_to_hash unwraps the Base32hex decoding of an upstream-supplied label")
    for fn in ("remove_dnssec", "add_opt", "serve_fail"):
        cl = [cb for p, cb in F.bodies.items() if p.startswith("net::client::validator::%s::{closure" % fn)]
        if not ctx.anchor(R, "net::client::validator::%s option loop" % fn, cl):
            continue
        bad = []
        for cb in cl:
            for _, t in cb.calls():
                if re.search(r"Result::<.*>::(unwrap|expect)$", t["fn"] or "") and len(t["targs"]) > 1 and "ParseError" in t["targs"][1]:
                    bad.append(cb.path)
        ctx.ob(R, "net::client::validator::%s" % fn, "unparseable upstream EDNS options do not panic", not bad,
               "%s expects every EDNS option of the upstream response to parse" % fn)


def rule_time(ctx, F):
    R = "C14.time"
    ctx.floor(R, 2)
    b = F.one_body(r"^dnssec::validator::group::Group::check_sig$")
    if b is None:
        return
    ok = 0
    for bb, t in b.calls():
        fn = t["fn"] or ""
        if re.search(r"cmp::PartialOrd::(gt|lt|ge|le)$", fn) and t["targs"][:1] == ["rdata::dnssec::Timestamp"]:
            res = t["res"] or ""
            ctx.ob(R, b, "%s on Timestamp is the RFC 1982 order" % fn.split("::")[-1],
                   "core::cmp::PartialOrd" in res or res == "" or "Timestamp" in res, "signature time comparison resolves to %s" % res, b.where(bb))
            ok += 1
    ctx.ob(R, b, "expiration and inception are both compared", ok >= 2, "found %d Timestamp comparisons" % ok)


# ---------------------------------------------------------------------------
# trust anchors: a DNSKEY is accepted as the anchor only on full equality
# (DNSKEY anchors) or a digest match (DS anchors)
# ---------------------------------------------------------------------------

def rule_anchor(ctx, F):
    R = "C14.anchor"
    ctx.floor(R, 6)
    hk = F.one_body(r"^dnssec::validator::context::has_key$")
    if ctx.anchor(R, "validator::context::has_key", hk):
        somes = [r for r in return_assignments(hk) if r[2] == "Some"]
        ctx.anchor(R, "Some(key) return of has_key", bool(somes), hk.where())
        for rb, si, kind, term in somes:
            fs = bool_facts(hk, rb, F)

            def eq_on(pred):
                for tt, vv in fs:
                    if tt[0] == "call" and re.search(r"PartialEq(<.*>)?::eq$|::eq$", tt[1] or "") and vv is True and pred(tt):
                        return True
                return False
            whole = eq_on(lambda tt: any("rdata::dnssec::Dnskey" in a for a in (tt[4] or ())[:2]))
            ctx.ob(R, hk, "anchor DNSKEY equals the candidate DNSKEY (whole record data)", whole,
                   "has_key accepts a DNSKEY as the configured trust anchor without comparing the complete DNSKEY "
                   "record data (flags, protocol, algorithm, public key): a different key with the same algorithm and "
                   "a colliding 16-bit key tag becomes a trust anchor", hk.where(rb))
            ctx.ob(R, hk, "owner names equal", eq_on(lambda tt: "owner" in show(tt)),
                   "has_key does not compare the owner names", hk.where(rb))
            ctx.ob(R, hk, "class equal", eq_on(lambda tt: "class" in show(tt)),
                   "has_key does not compare the class", hk.where(rb))
    fk = F.one_body(r"^dnssec::validator::context::find_key_for_ds$")
    if ctx.anchor(R, "validator::context::find_key_for_ds", fk):
        somes = [r for r in return_assignments(fk) if r[2] == "Some"]
        ctx.anchor(R, "Some(key) return of find_key_for_ds", bool(somes), fk.where())
        for rb, si, kind, term in somes:
            fs = bool_facts(fk, rb, F)
            dig = any(tt[0] == "call" and re.search(r"::eq$", tt[1] or "") and vv is True and
                      any(s[0] == "call" and (s[1] or "").endswith("::digest") and len(s[3]) >= 2 for s in walk(tt)) and
                      any(s[0] == "call" and (s[1] or "").endswith("::digest") and len(s[3]) == 1 for s in walk(tt))
                      for tt, vv in fs)
            ctx.ob(R, fk, "DS digest equals the digest of the candidate DNSKEY", dig,
                   "find_key_for_ds returns a key without the DS digest comparison", fk.where(rb))
            ok_dig = any(o == "success" and any(s[0] == "call" and (s[1] or "").endswith("::digest") and len(s[3]) >= 2 for s in walk(deep_strip(subj)))
                         for subj, o in outcome_facts(fk, rb, F))
            ctx.ob(R, fk, "digest computation succeeded", ok_dig or dig,
                   "find_key_for_ds returns a key on a path where computing the digest failed", fk.where(rb))
            alg = any(tt[0] == "call" and re.search(r"::eq$", tt[1] or "") and vv is True and "algorithm" in show(tt) for tt, vv in fs)
            ctx.ob(R, fk, "algorithm equal", alg, "find_key_for_ds does not compare the algorithm", fk.where(rb))


# ---------------------------------------------------------------------------
# NSEC3 closest-encloser walk: the "parent exists" flag is re-decided for
# every name
# ---------------------------------------------------------------------------

def rule_nsec3(ctx, F):
    """nsec3_for_not_exists walks from the signer name towards the target.
    `DoesNotExist(ce)` may be returned only if the *immediately preceding*
    name was proven to exist, so the flag that records this must be assigned
    on every iteration over the names (true on a match, false otherwise):
    no path around the per-name loop may leave it untouched."""
    R = "C14.nsec3"
    ctx.floor(R, 2)
    bs = [b for p, b in F.bodies.items() if re.match(r"^dnssec::validator::nsec::nsec3_for_not_exists::\{closure#0\}$", p)]
    if not ctx.anchor(R, "nsec3_for_not_exists", len(bs) == 1):
        return
    b = bs[0]
    # the flag: the bool local whose truth dominates the DoesNotExist result
    flag = None
    site = None
    for bi in sorted(b.reachable_blocks()):
        for st in b.blocks[bi]["s"]:
            if st[0] == "=" and st[2][0] == "agg" and st[2][1][0] == "adt" and st[2][1][1].endswith("Nsec3NXState") \
                    and st[2][1][2] == "DoesNotExist":
                site = bi
                for (sw, lab) in dominating_edges(b, bi):
                    tsw = b.blocks[sw]["t"]
                    if tsw["ty"] == "bool" and tsw["d"][0] in ("c", "m") and len(tsw["d"][1]) == 1:
                        loc = tsw["d"][1][0]
                        for _ in range(3):
                            ds = b.defs().get(loc, [])
                            if len(ds) == 1 and ds[0][0] == "stmt" and ds[0][3][0] == "use" and ds[0][3][1][0] in ("c", "m") \
                                    and len(ds[0][3][1][1]) == 1:
                                loc = ds[0][3][1][1][0]
                            else:
                                break
                        consts = [d for d in b.defs().get(loc, []) if d[0] == "stmt" and d[3][0] == "use" and d[3][1][0] == "k"]
                        if len(consts) >= 2 and lab != ("v", 0):
                            flag = loc
    if not ctx.anchor(R, "closest-encloser-exists flag guarding DoesNotExist", flag is not None and site is not None, b.where()):
        return
    ctx.ob(R, b, "DoesNotExist only with an existing closest encloser", True, nontrivial=True,
           detail="flag local _%d is true on the edge dominating the result" % flag, where=b.where(site))
    assigns = set()
    for bi in b.reachable_blocks():
        for st in b.blocks[bi]["s"]:
            if st[0] == "=" and st[1] == [flag]:
                assigns.add(bi)
    # the per-name loop: the outermost iterator `next` on a cycle
    nexts = [bb for bb, t in b.calls() if re.search(r"Iterator::next$", t["fn"] or "") and bb in cyclic_blocks(b)]
    # ... restricted to loops that contain an assignment of the flag
    def same_loop(n):
        r = b.reach_from(n)
        return any(a in r and n in b.reach_from(a) for a in assigns)
    nexts = [n for n in nexts if same_loop(n)]
    outer = [n for n in nexts if all(n == m or b.dominates(n, m) for m in nexts)]
    if not ctx.anchor(R, "per-name loop of nsec3_for_not_exists", len(outer) == 1, b.where()):
        return
    head = outer[0]
    reach = set()
    for s, lab in b.succs(head):
        if s not in assigns:
            reach |= b.reach_from(s, removed_blocks=assigns)
    ctx.ob(R, b, "every iteration over the names re-decides the flag", head not in reach,
           "nsec3_for_not_exists can go on to the next name without assigning the closest-encloser-exists flag: "
           "a name for which no NSEC3 matched or covered is treated as existing, and a denial with the "
           "intermediate NSEC3 left out is accepted as secure", b.where(head))


def rule_range(ctx, F):
    R = "C14.range"
    ctx.floor(R, 4)
    bs = F.find_bodies(r"^dnssec::validator::nsec::nsec3_in_range(::<.*>)?$")
    if not ctx.anchor(R, "nsec3_in_range", len(bs) == 1):
        return
    b = bs[0]
    n = 0
    for bb, t in b.calls():
        m = re.search(r"PartialOrd(<.*>)?(>| for &A>)?::(lt|le|gt|ge)$", t["fn"] or "")
        if not m or len(t["args"]) < 2:
            continue
        n += 1
        op = m.group(3)
        args = sorted(show(deep_strip(b.term_of_operand(a))) for a in t["args"][:2])
        ctx.ob(R, b, "comparison #%d of %s is strict" % (n, "/".join(args)), op in ("lt", "gt"),
               "nsec3_in_range compares %s with `%s`: a hash equal to the record's own owner hash (or next hash) counts as inside "
               "the range, so an NSEC3 record that matches an existing name is accepted as proof that the name does not exist"
               % (" and ".join(args), {"le": "<=", "ge": ">="}.get(op, op)), b.where(bb))


def rule_chain(ctx, F):
    from rulelib import must_pass, fmt_path
    R = "C14.chain"
    ctx.floor(R, 2)
    bs = [b for p, b in F.bodies.items() if re.match(r"^dnssec::validator::utilities::do_cname_dname::\{closure#0\}$", p)]
    if not ctx.anchor(R, "do_cname_dname", len(bs) == 1):
        return
    b = bs[0]
    follows = [(bb, (t["fn"] or "").split("::")[-1]) for bb, t in b.calls()
               if re.search(r"Cname::<.*>::cname$|utilities::map_dname$", t["fn"] or "")]
    if not ctx.anchor(R, "the two link-following sites (cname(), map_dname)", len(follows) >= 2, b.where()):
        return
    vias = []
    for bb, t in b.calls():
        if (t["fn"] or "").endswith("utilities::map_maybe_secure") and t["args"]:
            if "state(" in show(deep_strip(b.term_of_operand(t["args"][0]))):
                vias.append(bb)
    heads = {h for (u, h, lab) in b.back_edges()}
    for bb, what in follows:
        hs = [h for h in heads if b.dominates(h, bb)]
        if not hs:
            continue
        outer = [h for h in hs if all(b.dominates(h, o) for o in hs)][0]
        ok, path = must_pass(b, bb, [outer], vias) if vias else (False, None)
        ctx.ob(R, b, "the state of the %s link is folded into the chain" % ("CNAME" if what == "cname" else "DNAME"), ok,
               "do_cname_dname follows a %s to the next name without map_maybe_secure(g.state(), ..): an unsigned / insecure link "
               "leaves the chain's state Secure (path %s)" % ("CNAME" if what == "cname" else "DNAME", fmt_path(path) if path else ""),
               b.where(bb))
