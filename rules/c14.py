"""C14 — the validator says secure only with a valid chain (narrow, structural).

C14.sig    Group::check_sig: the cryptographic verification (and the value
           returned) is dominated by the RFC 4035 5.3.1 guard table.
C14.cache  check_sig_cached: the cache key covers the signed data, the full
           RRSIG RDATA (signature included) and the key; the cached value is
           exactly check_sig's result, and that result does not depend on
           the clock (the validity period is tested in front of the cache).
C14.nsec   nsec_for_not_exists: the delegation / DNAME exclusion tests the
           NSEC owner as a suffix of the *target* (not the reverse).
C14.range  nsec3_in_range is a strictly open interval: owner hash, target
           hash and next hash are compared with `<` / `>` only -- an NSEC3
           record that *matches* a name never "covers" it.
C14.chain  do_cname_dname folds the validation state of every link it
           follows (CNAME and DNAME alike) into the state of the chain before
           it goes on to the next name.
C14.signer the node whose keys create_child_node uses as the signer of a DS
           answer is never an intermediate node (which has no keys): every
           value that reaches that argument comes from Node::trust_anchor, or
           from the cache / a fresh child under an `!intermediate()` guard.
C14.target Group::validate_with_vc decides secure / insecure from the node of
           the RRSIG's signer name only when the owner name ends with that
           signer name; otherwise from the owner itself.
C14.wild   siblings agree: every caller of check_not_exists_for_wildcard first
           rules out that the name asked for *is* the wildcard (`*.<ce>`), in
           which case there is nothing to disprove.
C14.every  validate_msg folds the state of *every* validated RRset of the
           answer section into the verdict (a loop over the groups whose
           state() feeds map_maybe_secure), not only the ones on the CNAME
           chain and the final answer.
C14.nosoa  validate_msg does not call a negative answer bogus merely because no
           SOA came with it: that verdict is preceded by a chain-of-trust
           lookup (get_node) for the name, whose non-secure state wins.
C14.panic  no unwrap/expect on values derived from upstream response content
           whose error type is a parse/decode error, in any validator body
           (each remaining site is audited with the invariant it relies on).
C14.time   signature times use RFC 1982 ordering (shared with C17.use).
"""
import re

from mirlib import closures_created_in, BranchFacts, strip, deep_strip, show, walk, const_value
from rulelib import (
    bool_facts, cyclic_blocks, dominating_edges, facts_at, fmt_path, must_pass, names_in_term, outcome_facts, relations, return_assignments,
    succeeded_calls, canon_nobb, call_bb_of,
)

V = "dnssec::validator::"

SIG_GUARDS = [
    # (name, predicate over (shown term, value))
    ("owner names equal", lambda s, v: "name_eq(" in s and "owner" in s and v is True),
    ("classes equal", lambda s, v: "class" in s and (("::ne(" in s or "Ne(" in s or "PartialEq" in s and "ne(" in s) and v is False or
                                                  ("eq(" in s or "Eq(" in s) and v is True)),
    ("owner ends with signer name", lambda s, v: "ends_with(" in s and v is True),
    ("type covered equals RRset type", lambda s, v: "type_covered" in s and ((("ne(" in s or "Ne(" in s) and v is False) or (("eq(" in s or "Eq(" in s) and v is True))),
    ("label count >= Labels field", lambda s, v: "labels(" in s and (("Lt(" in s and v is False) or ("Ge(" in s and v is True))),
    ("not expired (now <= expiration)", lambda s, v: "expiration" in s and "gt(" in s and v is False),
    ("not before inception (now >= inception)", lambda s, v: "inception" in s and "lt(" in s and v is False),
    ("signer name equals key name", lambda s, v: ("arg3" in s and "arg5" in s) and ((("ne(" in s) and v is False) or (("eq(" in s) and v is True))),
    ("algorithms equal", lambda s, v: "algorithm" in s and (((("ne(" in s) or "Ne(" in s) and v is False) or ((("eq(" in s) or "Eq(" in s) and v is True))),
    ("key tags equal", lambda s, v: "key_tag" in s and ((("Ne(" in s or "ne(" in s) and v is False) or (("Eq(" in s or "eq(" in s) and v is True))),
    ("key has the zone flag", lambda s, v: "is_zone_key" in s and v is True),
]


def run(ctx):
    F = ctx.facts
    ctx.extra["explanation"] = (
        "C14: RFC 4035 5.3.1 guard table dominating cryptographic verification in check_sig, composition of "
        "the signature-cache key, operand direction of the delegation/DNAME exclusion in the NSEC proof, typed "
        "unwrap/expect audit over upstream-derived values in all validator bodies, RFC 1982 ordering of signature "
        "times. Completeness of the chain walk, denial proofs in general and insecure-vs-bogus classification are "
        "not decided."
    )
    rule_sig(ctx, F)
    rule_cache(ctx, F)
    rule_nsec(ctx, F)
    rule_panic(ctx, F)
    rule_time(ctx, F)
    rule_anchor(ctx, F)
    rule_nsec3(ctx, F)
    rule_range(ctx, F)
    rule_chain(ctx, F)
    rule_signer(ctx, F)
    rule_target(ctx, F)
    rule_wild(ctx, F)
    rule_every(ctx, F)
    rule_nosoa(ctx, F)
    rule_nsigner(ctx, F)
    rule_wildce(ctx, F)
    rule_sigttl(ctx, F)
    rule_split(ctx, F)
    rule_dsusable(ctx, F)
    rule_optout(ctx, F)
    rule_algs(ctx, F)
    rule_qany(ctx, F)
    rule_badsigs(ctx, F)
    rule_loopcount(ctx, F)
    rule_wildsig(ctx, F)
    rule_sigcanon(ctx, F)


def rule_sig(ctx, F):
    R = "C14.sig"
    ctx.floor(R, 12)
    b = F.one_body(r"^dnssec::validator::group::Group::check_sig$")
    if not ctx.anchor(R, "Group::check_sig", b):
        return
    ver = b.calls_matching(r"verify_signed_data$")
    if not ctx.anchor(R, "verify_signed_data call in check_sig", len(ver) == 1, b.where()):
        return
    vbb = ver[0][0]
    facts = [(show(t), v) for t, v in bool_facts(b, vbb, F)]
    # The two validity-period guards depend on the clock; they may sit in front of the signature cache instead
    # (check_sig_cached), where they must dominate the cache lookup and the call of check_sig alike.
    callers = list({cb.path: cb for cb, _, _ in F.callers_of(r"^dnssec::validator::group::Group::check_sig$")}.values())
    def at_callers(pred):
        if not callers:
            return False
        for cb in callers:
            sites = cb.calls_matching(r"group::Group::check_sig$") + cb.calls_matching(r"Cache::<.*>::get(::<.*>)?$")
            for bb, _ in sites:
                if not any(pred(show(t), v) for t, v in bool_facts(cb, bb, F)):
                    return False
        return True
    for name, pred in SIG_GUARDS:
        ok = any(pred(s, v) for s, v in facts)
        if not ok and ("expir" in name or "inception" in name):
            ok = at_callers(pred)
        ctx.ob(R, b, name, ok,
               "Group::check_sig reaches the cryptographic verification without the RFC 4035 5.3.1 check '%s' having "
               "passed on every path: a signature that must be rejected on that ground would be accepted" % name, b.where(vbb))
    # the function's positive result is the verification's result
    rets = return_assignments(b)
    pos = [r for r in rets if r[2] != "false"]
    okp = len(pos) == 1 and (pos[0][2].startswith("call:") and "is_ok" in pos[0][2] or (pos[0][3] is not None and "verify_signed_data" in show(pos[0][3])))
    ctx.ob(R, b, "true only as the verification result", okp,
           "check_sig has a non-false return that is not the outcome of verify_signed_data: %s" % [(r[2]) for r in pos])
    # signed data is built from this group's RRset with the RRSIG under test
    sd = b.calls_matching(r"RrsigExt::signed_data$|signed_data$")
    oks = False
    for bb, t in sd:
        a0 = deep_strip(b.term_of_operand(t["args"][0]))
        oks = oks or ("arg2" in show(a0))
    ctx.ob(R, b, "signed data built from the RRSIG under test", oks and any(b.dominates(bb, vbb) for bb, _ in sd),
           "the data verified is not rebuilt from the signature record passed in")


def rule_cache(ctx, F):
    R = "C14.cache"
    ctx.floor(R, 4)
    bs = [b for p, b in F.bodies.items() if re.match(r"^dnssec::validator::group::Group::check_sig_cached::\{closure#0\}$", p)]
    if not ctx.anchor(R, "Group::check_sig_cached", len(bs) == 1):
        return
    b = bs[0]
    keys = []
    for bi in b.reachable_blocks():
        for st in b.blocks[bi]["s"]:
            if st[0] == "=" and st[2][0] == "agg" and st[2][1][0] == "adt" and st[2][1][1].endswith("group::SigKey"):
                keys.append((bi, st[2][2]))
    if not ctx.anchor(R, "SigKey construction", len(keys) == 1, b.where()):
        return
    kb, ops = keys[0]
    terms = [b.term_of_operand(o) for o in ops]
    n_digest = sum(1 for t in terms if any(s[0] == "call" and (s[1] or "").endswith("DigestBuilder::finish") for s in walk(t)))
    has_sd = any(any(s[0] in ("local", "phi") and b.var_name(s[1]) == "signed_data" for s in walk(t)) or "signed_data" in names_in_term(b, t) for t in terms)
    def composed_types(cb, cops):
        """record-data types a closure composes canonically; a generic parameter of an (inlined) helper is resolved
        through the captured value's type in the creator"""
        out = set()
        for _, t in cb.calls():
            if not ((t["fn"] or "").endswith("ComposeRecordData::compose_canonical_rdata") and t["targs"]):
                continue
            ty = t["targs"][0]
            if "::" not in ty:
                k = None
                for s in walk(cb.term_of_operand(t["args"][0])):
                    if s[0] == "field" and strip(s[1]) == ("arg", 1) and isinstance(s[2], int):
                        k = s[2]
                if k is not None and k < len(cops) and cops[k][0] in ("c", "m") and len(cops[k][1]) == 1:
                    pt = b.locals[cops[k][1][0]]
                    while isinstance(pt, str) and pt.startswith("&"):
                        pt = re.sub(r"^&(mut )?", "", pt)
                    if isinstance(pt, str):
                        ty = pt
            out.add(ty.split("<")[0].split("::")[-1])
        return out
    # which record data are hashed (closures calling compose_canonical_rdata)
    hashed = set()
    for _bi, cb, cops in closures_created_in(F, b):
        hashed |= composed_types(cb, cops)
    # provenance: which buffer does each digest read, and what was composed into that buffer
    def buf_id(term):
        for s in walk(term):
            if s[0] == "local":
                return ("local", s[1])
            if s[0] == "call" and s[1] and re.search(r"Vec::<.*>::new$|::with_capacity$|Default::default$", s[1]):
                return ("new", s[5])
        return None
    composed = {}   # buffer id -> record types composed into it
    for bi, cb, cops in closures_created_in(F, b):
        types = composed_types(cb, cops)
        if not types:
            continue
        for o in cops:
            bid = buf_id(b.term_of_operand(o))
            if bid:
                composed.setdefault(bid, set()).update(types)
    digested = set()
    n_upd = 0
    for bb, t in b.calls():
        if (t["fn"] or "").endswith("DigestBuilder::update") and len(t["args"]) >= 2:
            n_upd += 1
            bid = buf_id(b.term_of_operand(t["args"][1]))
            digested |= composed.get(bid, set())
    ctx.ob(R, b, "the digests in the cache key read the buffers the RRSIG and the DNSKEY were composed into",
           {"Rrsig", "Dnskey"} <= digested,
           "the signature-cache key digests %d buffer(s) holding %s; it must digest both the canonical RRSIG RDATA "
           "(signature included) and the DNSKEY RDATA — otherwise a forged signature for a once-validated RRset is "
           "answered from the cache as valid" % (n_upd, sorted(digested)))
    # the signed data: the buffer RrsigExt::signed_data filled is one of the key's fields (by role, not by name)
    sd_bufs = {buf_id(b.term_of_operand(a)) for bb, t in b.calls() if (t["fn"] or "").endswith("::signed_data") for a in t["args"][1:2]}
    key_bufs = {buf_id(tt) for tt in terms}
    has_sd = bool(sd_bufs - {None}) and bool((sd_bufs - {None}) & key_bufs)
    ctx.ob(R, b, "cache key covers the signed data", has_sd,
           "the signature cache key does not contain the signed data")
    ctx.ob(R, b, "cache key covers the RRSIG RDATA including the signature", "Rrsig" in hashed and n_digest >= 2,
           "the signature cache key does not depend on the signature octets (hashed record data: %s, digests in key: %d): "
           "after one genuine validation, the same RRset with a forged signature would be answered from the cache as valid"
           % (sorted(hashed), n_digest))
    ctx.ob(R, b, "cache key covers the DNSKEY", "Dnskey" in hashed, "the signature cache key does not depend on the key")
    # value inserted = result of check_sig
    ins = b.calls_matching(r"Cache::<.*>::insert$")
    chk = b.calls_matching(r"group::Group::check_sig$")
    ok = False
    if len(ins) == 1 and len(chk) == 1:
        v = deep_strip(b.term_of_operand(ins[0][1]["args"][2]))
        ok = v[0] == "call" and v[5] == chk[0][0]
    ctx.ob(R, b, "cached value is check_sig's verdict", ok, "the value stored in the signature cache is not the result of check_sig")
    # what is memoised must be a function of the key: the key holds no time, so the memoised verdict must not read the clock
    cs = F.one_body(r"^dnssec::validator::group::Group::check_sig$")
    if ctx.anchor(R, "Group::check_sig", cs):
        import sigs
        clock = sorted({(tt["fn"] or "") for sb, bb, tt in sigs.callees_deep(F, cs, depth=3)
                        if re.search(r"(Timestamp|SystemTime|Instant)(::<.*>)?::now$|::elapsed$", tt["fn"] or "")})
        ctx.ob(R, cs, "the memoised verdict does not depend on the clock", not clock,
               "check_sig, whose result check_sig_cached stores under a key made of signed data, signature and key only, "
               "reads the clock (%s): the verdict 'inside its validity period' is remembered, so a signature that has "
               "expired since is still reported valid from the cache (and one seen before its inception stays invalid)"
               % ", ".join(clock))


def rule_nsec(ctx, F):
    R = "C14.nsec"
    ctx.floor(R, 1)
    b = F.one_body(r"^dnssec::validator::nsec::nsec_for_not_exists$")
    if not ctx.anchor(R, "nsec_for_not_exists", b):
        return
    # the ends_with test that guards the NS/SOA/DNAME type checks
    ew = [(bb, t) for bb, t in b.calls() if re.search(r"::ends_with$", t["fn"] or "")]
    conts = [bb for bb, t in b.calls() if re.search(r"RtypeBitmap::<.*>::contains$", t["fn"] or "")]
    guarded = []
    for bb, t in ew:
        if any(any(tt[0] == "call" and tt[5] == bb and vv is True for tt, vv in bool_facts(b, c, F)) for c in conts):
            guarded.append((bb, t))
    if not ctx.anchor(R, "ends_with guarding the delegation/DNAME type checks", len(guarded) >= 1, b.where()):
        return
    for bb, t in guarded:
        # roles, not names: the receiver is the queried name (the function's first parameter), the
        # argument is the owner of the NSEC record taken from the validated groups (second parameter)
        rt, at = b.term_of_operand(t["args"][0]), b.term_of_operand(t["args"][1])
        recv_roots = {s[1] for s in walk(rt) if s[0] == "arg"}
        arg_roots = {s[1] for s in walk(at) if s[0] == "arg"}
        arg_owner = any(s[0] == "call" and re.search(r"::owner$", s[1] or "") for s in walk(at))
        ok = 1 in recv_roots and 1 not in arg_roots and (arg_owner or 2 in arg_roots)
        recv = {"param#%d" % r for r in recv_roots}
        arg = {"param#%d" % r for r in arg_roots} | ({"owner()"} if arg_owner else set())
        ctx.ob(R, b, "target.ends_with(owner) guards the delegation/DNAME exclusion", ok,
               "the NSEC owner must be tested as an ancestor of the target (target.ends_with(owner)); found receiver %s, "
               "argument %s: with the operands swapped the exclusion of delegation and DNAME owners never triggers and a "
               "parent-side NSEC proves non-existence inside an insecure child zone" % (sorted(x for x in recv if x), sorted(x for x in arg if x)),
               b.where(bb))


UPSTREAM_ERR = re.compile(r"(base::wire::ParseError|octseq::(parse::)?ShortInput|utils::base\d+::DecodeError|base64::DecodeError|"
                          r"dnssec::common::Nsec3HashError|core::str::Utf8Error|base::name::.*Error|ShortMessage|LongRecordData|base::message_builder::PushError)")
PANIC_AUDIT = {
    # (fn regex, callee last segment): reason
    (r"cached_nsec3_hash", "nsec3_hash"): "every caller checks supported_nsec3_hash(algorithm) first; the only other error is an "
                                          "append error on a Vec (infallible)",
    (r"validator::(rebuild_msg|remove_dnssec|add_opt|serve_fail)|utilities::rebuild_msg", "from_octets"):
        "re-parses the octets a MessageBuilder just produced",
    (r"validate_msg|request_dnskey|request_ds|request_as_groups|context::ValidationContext", "from_octets"): "re-parses the octets a MessageBuilder just produced",
    (r"cached_nsec3_hash|context::", "from_slice"): "label built from a fixed-length Base32hex rendering of a hash (<= 63 octets)",
    (r"net::client::validator::remove_dnssec$", "opt"): "copies (a subset of) the options of the OPT record the response was parsed with and "
                                                        "adds none: the new OPT record data is not longer than the old",
}


def rule_panic(ctx, F):
    R = "C14.panic"
    ctx.floor(R, 3)
    n = 0
    seen = {}
    for p, b in F.bodies.items():
        if not (p.startswith((V, "<" + V, "net::client::validator", "<net::client::validator"))):
            continue
        if "::test" in p:
            continue
        for bb, t in b.calls():
            fn = t["fn"] or ""
            if not re.search(r"core::result::Result::<.*>::(unwrap|expect)$", fn):
                continue
            targs = t["targs"]
            if len(targs) < 2 or not UPSTREAM_ERR.search(targs[1]):
                continue
            n += 1
            recv = deep_strip(b.term_of_operand(t["args"][0]))
            src = next((s for s in walk(recv) if s[0] == "call"), None)
            sname = (re.sub(r"::<.*$", "", src[1]).split("::")[-1] if src else "?")
            if src and src[1]:
                segs = [x for x in re.sub(r"<[^<>]*>", "", src[1]).split("::") if x]
                sname = segs[-1] if segs else sname
            if "PushError" in targs[1] and sname != "opt":
                # pushing records into an unlimited Vec target: not decided here (a record whose names grow past 65535 octets
                # of record data when uncompressed is turned away when the groups are built, C14.panic LongRecordData)
                n -= 1
                continue
            k = (p, sname)
            seen[k] = seen.get(k, 0) + 1
            reason = None
            for (rx, cal), why in PANIC_AUDIT.items():
                if re.search(rx, p) and cal == sname:
                    reason = why
            ctx.ob(R, b, "%s of %s#%d" % (fn.split("::")[-1], sname, seen[k]), reason is not None,
                   "the validator %ss a %s whose error (%s) is reachable from upstream response content: a hostile "
                   "response panics the validator" % (fn.split("::")[-1], sname, targs[1].split("::")[-1]), b.where(bb),
                   nontrivial=False, detail=reason)
    ctx.call_sites += n
    # time arithmetic: `Duration - Duration`, `Instant - Duration`, `Instant + Duration` panic on overflow; TTLs and
    # signature lifetimes come from upstream and the other operand from the clock, so neither is bounded
    nt = 0
    for p, b in F.bodies.items():
        if not (p.startswith((V, "<" + V, "net::client::validator", "<net::client::validator"))) or "::test" in p:
            continue
        for bb, t in b.calls():
            fn = t["fn"] or ""
            if re.search(r"core::ops::(Sub|Add|Mul|SubAssign|AddAssign)::\w+$", fn) and \
                    re.search(r"time::(Duration|Instant|SystemTime)$", (t["targs"] or [""])[0]):
                nt += 1
                ctx.ob(R, b, "no panicking time arithmetic (%s on %s)" % (fn.split("::")[-1], t["targs"][0].split("::")[-1]), False,
                       "%s computes `%s` with the panicking operator: with a TTL of 0 (or once the lifetime taken from an "
                       "upstream TTL / signature expiration has run out) the subtraction overflows and the validator panics"
                       % (p, (" %s " % {"sub": "-", "add": "+", "mul": "*"}.get(fn.split("::")[-1], fn.split("::")[-1]))
                          .join(x.split("::")[-1] for x in t["targs"][:2])), b.where(bb))
    nb = F.one_body(r"^dnssec::validator::context::Node::ttl$")
    if ctx.anchor(R, "Node::ttl", nb):
        ctx.ob(R, nb, "remaining lifetime of a cached node is computed without overflow",
               any(re.search(r"Duration::(saturating_sub|checked_sub)$", tt["fn"] or "") for _, tt in nb.calls()) ,
               "Node::ttl does not use a saturating/checked subtraction for valid_for - elapsed()")
    # the two repaired sites stay repaired: nsec3_label_to_hash returns the decode error
    b = F.one_body(r"^dnssec::validator::nsec::nsec3_label_to_hash$")
    if ctx.anchor(R, "nsec3_label_to_hash", b):
        ex = [t for _, t in b.calls() if re.search(r"::(unwrap|expect)$", t["fn"] or "")]
        ctx.ob(R, b, "decode failure of an NSEC3 owner label is returned", not ex,
               "nsec3_label_to_hash unwraps the Base32hex decoding of an upstream-supplied label")
    # the loops that copy the upstream's EDNS options (closures handed to AdditionalBuilder::opt in the rebuilding functions)
    loops = [cb for p, cb in sorted(F.bodies.items()) if re.match(r"^net::client::validator::\w+::\{closure", p)
             and cb.calls_matching(r"OptBuilder::<.*>::push$")]
    ctx.anchor(R, "option-copying closures of net::client::validator (remove_dnssec and the OPT + EDE builder)", len(loops) >= 2)
    for cb in loops:
        bad = []
        for _, t in cb.calls():
            if re.search(r"Result::<.*>::(unwrap|expect)$", t["fn"] or "") and len(t["targs"]) > 1 and "ParseError" in t["targs"][1]:
                bad.append(cb.path)
        fn = cb.path.split("::")[3] if len(cb.path.split("::")) > 3 else cb.path
        ctx.ob(R, "net::client::validator::%s" % fn, "unparseable upstream EDNS options do not panic", not bad,
               "%s expects every EDNS option of the upstream response to parse" % fn)


def rule_time(ctx, F):
    R = "C14.time"
    ctx.floor(R, 2)
    b0 = F.one_body(r"^dnssec::validator::group::Group::check_sig$")
    if b0 is None:
        return
    ok = 0
    # check_sig and the function in front of the signature cache that calls it
    scope = {b0.path: b0}
    scope.update({cb.path: cb for cb, _, _ in F.callers_of(r"^dnssec::validator::group::Group::check_sig$")})
    for b in scope.values():
      for bb, t in b.calls():
        fn = t["fn"] or ""
        if re.search(r"cmp::PartialOrd::(gt|lt|ge|le)$", fn) and t["targs"][:1] == ["rdata::dnssec::Timestamp"]:
            res = t["res"] or ""
            ctx.ob(R, b, "%s on Timestamp is the RFC 1982 order" % fn.split("::")[-1],
                   "core::cmp::PartialOrd" in res or res == "" or "Timestamp" in res, "signature time comparison resolves to %s" % res, b.where(bb))
            ok += 1
    b = b0
    ctx.ob(R, b, "expiration and inception are both compared", ok >= 2, "found %d Timestamp comparisons" % ok)


# ---------------------------------------------------------------------------
# trust anchors: a DNSKEY is accepted as the anchor only on full equality
# (DNSKEY anchors) or a digest match (DS anchors)
# ---------------------------------------------------------------------------

def rule_anchor(ctx, F):
    R = "C14.anchor"
    ctx.floor(R, 6)
    hk = F.one_body(r"^dnssec::validator::context::has_key$")
    if ctx.anchor(R, "validator::context::has_key", hk):
        somes = [r for r in return_assignments(hk) if r[2] == "Some"]
        ctx.anchor(R, "Some(key) return of has_key", bool(somes), hk.where())
        for rb, si, kind, term in somes:
            fs = bool_facts(hk, rb, F)

            def eq_on(pred):
                for tt, vv in fs:
                    if tt[0] == "call" and re.search(r"PartialEq(<.*>)?::eq$|::eq$", tt[1] or "") and vv is True and pred(tt):
                        return True
                return False
            whole = eq_on(lambda tt: any("rdata::dnssec::Dnskey" in a for a in (tt[4] or ())[:2]))
            ctx.ob(R, hk, "anchor DNSKEY equals the candidate DNSKEY (whole record data)", whole,
                   "has_key accepts a DNSKEY as the configured trust anchor without comparing the complete DNSKEY "
                   "record data (flags, protocol, algorithm, public key): a different key with the same algorithm and "
                   "a colliding 16-bit key tag becomes a trust anchor", hk.where(rb))
            ctx.ob(R, hk, "owner names equal", eq_on(lambda tt: "owner" in show(tt)),
                   "has_key does not compare the owner names", hk.where(rb))
            ctx.ob(R, hk, "class equal", eq_on(lambda tt: "class" in show(tt)),
                   "has_key does not compare the class", hk.where(rb))
    fk = F.one_body(r"^dnssec::validator::context::find_key_for_ds$")
    if ctx.anchor(R, "validator::context::find_key_for_ds", fk):
        somes = [r for r in return_assignments(fk) if r[2] == "Some"]
        ctx.anchor(R, "Some(key) return of find_key_for_ds", bool(somes), fk.where())
        for rb, si, kind, term in somes:
            fs = bool_facts(fk, rb, F)
            dig = any(tt[0] == "call" and re.search(r"::eq$", tt[1] or "") and vv is True and
                      any(s[0] == "call" and (s[1] or "").endswith("::digest") and len(s[3]) >= 2 for s in walk(tt)) and
                      any(s[0] == "call" and (s[1] or "").endswith("::digest") and len(s[3]) == 1 for s in walk(tt))
                      for tt, vv in fs)
            ctx.ob(R, fk, "DS digest equals the digest of the candidate DNSKEY", dig,
                   "find_key_for_ds returns a key without the DS digest comparison", fk.where(rb))
            ok_dig = any(o == "success" and any(s[0] == "call" and (s[1] or "").endswith("::digest") and len(s[3]) >= 2 for s in walk(deep_strip(subj)))
                         for subj, o in outcome_facts(fk, rb, F))
            ctx.ob(R, fk, "digest computation succeeded", ok_dig or dig,
                   "find_key_for_ds returns a key on a path where computing the digest failed", fk.where(rb))
            alg = any(tt[0] == "call" and re.search(r"::eq$", tt[1] or "") and vv is True and "algorithm" in show(tt) for tt, vv in fs)
            ctx.ob(R, fk, "algorithm equal", alg, "find_key_for_ds does not compare the algorithm", fk.where(rb))


# ---------------------------------------------------------------------------
# NSEC3 closest-encloser walk: the "parent exists" flag is re-decided for
# every name
# ---------------------------------------------------------------------------

def rule_nsec3(ctx, F):
    """nsec3_for_not_exists walks from the signer name towards the target.
    `DoesNotExist(ce)` may be returned only if the *immediately preceding*
    name was proven to exist, so the flag that records this must be assigned
    on every iteration over the names (true on a match, false otherwise):
    no path around the per-name loop may leave it untouched."""
    R = "C14.nsec3"
    ctx.floor(R, 2)
    bs = [b for p, b in F.bodies.items() if re.match(r"^dnssec::validator::nsec::nsec3_for_not_exists::\{closure#0\}$", p)]
    if not ctx.anchor(R, "nsec3_for_not_exists", len(bs) == 1):
        return
    b = bs[0]
    # the flag: the bool local whose truth dominates the DoesNotExist result
    flag = None
    site = None
    for bi in sorted(b.reachable_blocks()):
        for st in b.blocks[bi]["s"]:
            if st[0] == "=" and st[2][0] == "agg" and st[2][1][0] == "adt" and st[2][1][1].endswith("Nsec3NXState") \
                    and st[2][1][2] == "DoesNotExist":
                site = bi
                for (sw, lab) in dominating_edges(b, bi):
                    tsw = b.blocks[sw]["t"]
                    if tsw["ty"] == "bool" and tsw["d"][0] in ("c", "m") and len(tsw["d"][1]) == 1:
                        loc = tsw["d"][1][0]
                        for _ in range(3):
                            ds = b.defs().get(loc, [])
                            if len(ds) == 1 and ds[0][0] == "stmt" and ds[0][3][0] == "use" and ds[0][3][1][0] in ("c", "m") \
                                    and len(ds[0][3][1][1]) == 1:
                                loc = ds[0][3][1][1][0]
                            else:
                                break
                        consts = [d for d in b.defs().get(loc, []) if d[0] == "stmt" and d[3][0] == "use" and d[3][1][0] == "k"]
                        if len(consts) >= 2 and lab != ("v", 0):
                            flag = loc
    if not ctx.anchor(R, "closest-encloser-exists flag guarding DoesNotExist", flag is not None and site is not None, b.where()):
        return
    ctx.ob(R, b, "DoesNotExist only with an existing closest encloser", True, nontrivial=True,
           detail="flag local _%d is true on the edge dominating the result" % flag, where=b.where(site))
    assigns = set()
    for bi in b.reachable_blocks():
        for st in b.blocks[bi]["s"]:
            if st[0] == "=" and st[1] == [flag]:
                assigns.add(bi)
    # the per-name loop: the outermost iterator `next` on a cycle
    nexts = [bb for bb, t in b.calls() if re.search(r"Iterator::next$", t["fn"] or "") and bb in cyclic_blocks(b)]
    # ... restricted to loops that contain an assignment of the flag
    def same_loop(n):
        r = b.reach_from(n)
        return any(a in r and n in b.reach_from(a) for a in assigns)
    nexts = [n for n in nexts if same_loop(n)]
    outer = [n for n in nexts if all(n == m or b.dominates(n, m) for m in nexts)]
    if not ctx.anchor(R, "per-name loop of nsec3_for_not_exists", len(outer) == 1, b.where()):
        return
    head = outer[0]
    reach = set()
    for s, lab in b.succs(head):
        if s not in assigns:
            reach |= b.reach_from(s, removed_blocks=assigns)
    ctx.ob(R, b, "every iteration over the names re-decides the flag", head not in reach,
           "nsec3_for_not_exists can go on to the next name without assigning the closest-encloser-exists flag: "
           "a name for which no NSEC3 matched or covered is treated as existing, and a denial with the "
           "intermediate NSEC3 left out is accepted as secure", b.where(head))


def rule_range(ctx, F):
    R = "C14.range"
    ctx.floor(R, 4)
    bs = F.find_bodies(r"^dnssec::validator::nsec::nsec3_in_range(::<.*>)?$")
    if not ctx.anchor(R, "nsec3_in_range", len(bs) == 1):
        return
    b = bs[0]
    n = 0
    for bb, t in b.calls():
        m = re.search(r"PartialOrd(<.*>)?(>| for &A>)?::(lt|le|gt|ge)$", t["fn"] or "")
        if not m or len(t["args"]) < 2:
            continue
        n += 1
        op = m.group(3)
        args = sorted(show(deep_strip(b.term_of_operand(a))) for a in t["args"][:2])
        ctx.ob(R, b, "comparison #%d of %s is strict" % (n, "/".join(args)), op in ("lt", "gt"),
               "nsec3_in_range compares %s with `%s`: a hash equal to the record's own owner hash (or next hash) counts as inside "
               "the range, so an NSEC3 record that matches an existing name is accepted as proof that the name does not exist"
               % (" and ".join(args), {"le": "<=", "ge": ">="}.get(op, op)), b.where(bb))


def rule_chain(ctx, F):
    from rulelib import must_pass, fmt_path
    R = "C14.chain"
    ctx.floor(R, 2)
    bs = [b for p, b in F.bodies.items() if re.match(r"^dnssec::validator::utilities::do_cname_dname::\{closure#0\}$", p)]
    if not ctx.anchor(R, "do_cname_dname", len(bs) == 1):
        return
    b = bs[0]
    follows = [(bb, (t["fn"] or "").split("::")[-1]) for bb, t in b.calls()
               if re.search(r"Cname::<.*>::cname$|utilities::map_dname$", t["fn"] or "")]
    if not ctx.anchor(R, "the two link-following sites (cname(), map_dname)", len(follows) >= 2, b.where()):
        return
    vias = []
    for bb, t in b.calls():
        if (t["fn"] or "").endswith("utilities::map_maybe_secure") and t["args"]:
            if "state(" in show(deep_strip(b.term_of_operand(t["args"][0]))):
                vias.append(bb)
    heads = {h for (u, h, lab) in b.back_edges()}
    for bb, what in follows:
        hs = [h for h in heads if b.dominates(h, bb)]
        if not hs:
            continue
        outer = [h for h in hs if all(b.dominates(h, o) for o in hs)][0]
        ok, path = must_pass(b, bb, [outer], vias) if vias else (False, None)
        ctx.ob(R, b, "the state of the %s link is folded into the chain" % ("CNAME" if what == "cname" else "DNAME"), ok,
               "do_cname_dname follows a %s to the next name without map_maybe_secure(g.state(), ..): an unsigned / insecure link "
               "leaves the chain's state Secure (path %s)" % ("CNAME" if what == "cname" else "DNAME", fmt_path(path) if path else ""),
               b.where(bb))


def rule_signer(ctx, F):
    R = "C14.signer"
    ctx.floor(R, 3)
    fc = [b for p, b in F.bodies.items() if re.search(r"ValidationContext::<\w+>::find_closest_node::\{closure#0\}$", p)]
    gn = [b for p, b in F.bodies.items() if re.search(r"ValidationContext::<\w+>::get_node::\{closure#0\}$", p)]
    if not ctx.anchor(R, "find_closest_node / get_node", len(fc) == 1 and len(gn) == 1):
        return
    fc, gn = fc[0], gn[0]

    def not_intermediate(b, bb):
        return any("intermediate(" in show(tm) and v is False for tm, v in bool_facts(b, bb, F))

    # 1. what find_closest_node hands back as the closest node
    ta = [bb for bb, _ in fc.calls_matching(r"Node::trust_anchor(::<.*>)?$")]
    cl = [bb for bb, _ in fc.calls_matching(r"::cache_lookup$")]
    rets = [r for r in return_assignments(fc) if "Ok" in str(r[2])]
    if not ctx.anchor(R, "find_closest_node: trust_anchor, cache_lookup and Ok returns", ta and cl and len(rets) >= 2, fc.where()):
        return
    for r in rets:
        bb = r[0]
        from_cache = any(fc.dominates(c, bb) for c in cl) and not any(fc.dominates(a, bb) and any(fc.dominates(c, a) for c in cl) for a in ta)
        from_ta = any(fc.dominates(a, bb) for a in ta)
        if from_cache and not from_ta:
            ctx.ob(R, fc, "a cached node is taken as the closest node only if it is not intermediate", not_intermediate(fc, bb),
                   "find_closest_node returns whatever node the cache holds for an ancestor, also an intermediate one (an empty "
                   "non-terminal, no keys); get_node then uses it as the signer for the next DS lookup, no key matches and a "
                   "correctly signed delegation below an already visited empty non-terminal is reported bogus", fc.where(bb))
        else:
            ctx.ob(R, fc, "closest node built from the trust anchor", from_ta,
                   "find_closest_node returns a node that comes neither from Node::trust_anchor nor from the cache", fc.where(bb))
    # 2. what get_node passes to create_child_node as the signer
    cc = gn.calls_matching(r"::create_child_node(::<.*>)?$")
    if not ctx.anchor(R, "create_child_node call in get_node", len(cc) == 1, gn.where()):
        return
    cbb, ct = cc[0]
    # the signer argument is a (re)borrow of one multiply-assigned local: follow single-definition copies / borrows
    def root_local(op, depth=0):
        if depth > 8 or op[0] not in ("c", "m"):
            return None
        n = op[1][0]
        ds = gn.defs().get(n, [])
        if len(ds) == 1 and ds[0][0] == "stmt":
            rv = ds[0][3]
            if rv[0] == "ref":
                return root_local(("c", [rv[2][0]]), depth + 1)
            if rv[0] == "use":
                return root_local(rv[1], depth + 1)
        if len(ds) == 1 and ds[0][0] == "call" and re.search(r"Deref::deref$", ds[0][2]["fn"] or ""):
            return root_local(ds[0][2]["args"][0], depth + 1)
        return n
    n = root_local(ct["args"][2])
    defs = gn.defs().get(n, []) if n is not None else []
    if not ctx.anchor(R, "the signer node variable has an initial and a loop assignment", len(defs) >= 2, gn.where(cbb)):
        return
    fcall = [bb for bb, _ in gn.calls_matching(r"::find_closest_node(::<.*>)?$")]
    for d in defs:
        bb = d[1]
        if gn.blocks[bb].get("c"):
            continue            # the unwind twin of a drop-and-assign
        in_loop = gn.dominates(cbb, bb)
        if in_loop:
            ctx.ob(R, gn, "inside the walk the signer only moves to a non-intermediate child", not_intermediate(gn, bb),
                   "get_node makes a freshly created child the signer for the next step without testing that it is not an "
                   "intermediate node", gn.where(bb))
        else:
            ctx.ob(R, gn, "the walk starts from find_closest_node's node", any(gn.dominates(f, bb) for f in fcall),
                   "the initial signer node in get_node does not come from find_closest_node", gn.where(bb))


def rule_target(ctx, F):
    R = "C14.target"
    ctx.floor(R, 2)
    bs = [b for p, b in F.bodies.items() if re.search(r"group::Group::validate_with_vc(::<.*>)?::\{closure#0\}$", p)]
    if not ctx.anchor(R, "Group::validate_with_vc", len(bs) == 1):
        return
    b = bs[0]
    gn = b.calls_matching(r"::get_node(::<.*>)?$")
    if not ctx.anchor(R, "get_node call in validate_with_vc", len(gn) == 1, b.where()):
        return
    op = gn[0][1]["args"][1]
    n = op[1][0]
    for _ in range(6):
        ds = b.defs().get(n, [])
        if len(ds) == 1 and ds[0][0] == "stmt" and ds[0][3][0] in ("use", "ref"):
            rv = ds[0][3]
            n = rv[1][1][0] if rv[0] == "use" and rv[1][0] in ("c", "m") else (rv[2][0] if rv[0] == "ref" else n)
            continue
        break
    defs = [d for d in b.defs().get(n, []) if not b.blocks[d[1]].get("c")]
    from_sig = [d for d in defs if d[0] == "call" and re.search(r"Rrsig::<.*>::signer_name$", d[2]["fn"] or "")]
    def via_owner(d):
        if d[0] == "call":
            return bool(re.search(r"Record::<.*>::owner$", d[2]["fn"] or ""))
        if d[0] == "stmt":
            tm = deep_strip(b.term_of_rvalue(d[3]))
            return tm[0] == "call" and bool(re.search(r"Record::<.*>::owner$", tm[1] or ""))
        return False
    from_owner = [d for d in defs if via_owner(d)]
    if not ctx.anchor(R, "the name whose node decides the state comes from the signer name or the owner",
                      from_sig and from_owner and len(from_sig) + len(from_owner) == len(defs), b.where(gn[0][0])):
        return
    for d in from_sig:
        ok = any("ends_with(" in show(tm) and v is True for tm, v in bool_facts(b, d[1], F))
        ctx.ob(R, b, "a signer name is trusted to name the zone only if the owner ends with it", ok,
               "validate_with_vc looks up the security status of whatever signer name the first RRSIG carries: an RRset of a "
               "signed zone whose RRSIG is replaced by one naming an insecure (or unanchored) zone as signer is reported "
               "insecure instead of bogus", b.where(d[1]))
    for d in from_owner:
        ctx.ob(R, b, "without a usable signer name the owner decides", True, "", b.where(d[1]))


def rule_wild(ctx, F):
    R = "C14.wild"
    ctx.floor(R, 2)
    sites = F.callers_of(r"^dnssec::validator::utilities::check_not_exists_for_wildcard$")
    sites = [(b, bb, tt) for b, bb, tt in sites if "::test" not in b.path]
    if not ctx.anchor(R, "callers of check_not_exists_for_wildcard", len(sites) >= 2):
        return
    callee = [b for p, b in F.bodies.items() if re.search(r"^dnssec::validator::utilities::check_not_exists_for_wildcard::\{closure#0\}$", p)]
    def guarded(b, bb):
        for tm, v in bool_facts(b, bb, F):
            s = show(tm)
            if "star_closest_encloser" in s and v is False and ("eq(" in s or "Eq(" in s or "name_eq(" in s):
                return True
            if "star_closest_encloser" in s and v is True and ("ne(" in s or "Ne(" in s):
                return True
        return False
    inside = False
    if len(callee) == 1:
        cb = callee[0]
        first = cb.calls_matching(r"nsec_for_not_exists$")
        inside = bool(first) and all(guarded(cb, bb) for bb, _ in first)
    for b, bb, tt in sites:
        ctx.ob(R, b, "the queried name is known not to be the wildcard itself before its non-existence is demanded",
               inside or guarded(b, bb),
               "%s asks for a proof that the name does not exist although it may be the wildcard owner itself (`*.<closest "
               "encloser>`): a correctly signed answer to a query for the wildcard name is reported bogus (the sibling call "
               "site compares with star_closest_encloser first)" % b.path.split("::{closure")[0].split("::")[-1], b.where(bb))


def rule_every(ctx, F):
    R = "C14.every"
    ctx.floor(R, 1)
    bs = [b for p, b in F.bodies.items() if re.search(r"ValidationContext::<\w+>::validate_msg(::<.*>)?::\{closure#0\}$", p)]
    if not ctx.anchor(R, "ValidationContext::validate_msg", len(bs) == 1):
        return
    b = bs[0]
    cyc = cyclic_blocks(b)
    folds = []
    for bb, tt in b.calls_matching(r"utilities::map_maybe_secure$"):
        a0 = deep_strip(b.term_of_operand(tt["args"][0]))
        if bb in cyc and any(s[0] == "call" and re.search(r"ValidatedGroup::state$", s[1] or "") for s in walk(a0)):
            folds.append(bb)
    if not folds:
        # the same fold written with an iterator adaptor: fold / for_each / try_fold over the groups with a closure that
        # combines group.state() through map_maybe_secure
        for _bi, cb, _cops in closures_created_in(F, b):
            calls = [(tt["fn"] or "") for _, tt in cb.calls()]
            if any(re.search(r"ValidatedGroup::state$", c) for c in calls) and any(re.search(r"utilities::map_maybe_secure$", c) for c in calls):
                if any(re.search(r"Iterator::(fold|for_each|try_fold|try_for_each)$", tt["fn"] or "") for _, tt in b.calls()):
                    folds.append(_bi)
    ctx.ob(R, b, "the state of every RRset in the answer section enters the verdict", bool(folds),
           "validate_msg looks only at the RRsets on the CNAME/DNAME chain and at the final answer: an additional RRset in the "
           "answer section that is unsigned (insecure or indeterminate) leaves the verdict Secure, and the validating client "
           "sets AD on a message that carries it")


def rule_nosoa(ctx, F):
    R = "C14.nosoa"
    ctx.floor(R, 1)
    bs = [b for p, b in F.bodies.items() if re.search(r"ValidationContext::<\w+>::validate_msg(::<.*>)?::\{closure#0\}$", p)]
    if not ctx.anchor(R, "ValidationContext::validate_msg", len(bs) == 1):
        return
    b = bs[0]
    soa = [bb for bb, _ in b.calls_matching(r"utilities::get_soa_state$")]
    proofs = [bb for bb, _ in b.calls_matching(r"validator::nsec::nsec3?_for_\w+$")]
    nodes = [bb for bb, _ in b.calls_matching(r"::get_node(::<.*>)?$")]
    if not ctx.anchor(R, "get_soa_state and the denial proofs in validate_msg", len(soa) == 1 and len(proofs) >= 2, b.where()):
        return
    sites = []
    for bi in b.reachable_blocks():
        if b.blocks[bi].get("c"):
            continue
        for st in b.blocks[bi]["s"]:
            if st[0] == "=" and st[2][0] == "agg" and st[2][1][0] == "adt" and st[2][1][1].endswith("ValidationState") \
                    and "Bogus" in str(st[2][1][2:]) + str(st[2][1]):
                if b.dominates(soa[0], bi) and not any(b.dominates(p, bi) for p in proofs):
                    sites.append(bi)
    if not ctx.anchor(R, "the 'no SOA' verdict", len(sites) >= 1, b.where(soa[0])):
        return
    for bi in sites:
        ctx.ob(R, b, "bogus for a missing SOA only after the chain of trust for the name was consulted",
               any(b.dominates(n, bi) for n in nodes),
               "validate_msg answers Bogus when a NODATA/NXDOMAIN reply carries no SOA without ever looking up the chain of "
               "trust for the name: an empty negative reply for a name below an insecure delegation is reported bogus "
               "instead of insecure", b.where(bi))


def _eq_facts(b, bb, F):
    """[(lhs, rhs)] of every dominating fact `lhs == rhs` (any spelling: ==, !=, eq, ne, name_eq)."""
    out = []
    for tm, v in bool_facts(b, bb, F):
        if tm[0] == "call" and tm[1] and re.search(r"::(eq|name_eq)$", tm[1]) and v is True and len(tm[3]) >= 2:
            out.append((tm[3][0], tm[3][1]))
        if tm[0] == "bin" and tm[1] == "Eq" and v is True:
            out.append((tm[2], tm[3]))
    return out


def _has_call(t, rx):
    return any(s[0] == "call" and s[1] and re.search(rx, s[1]) for s in walk(t))


def _arg_roots(t):
    return {s[1] for s in walk(t) if s[0] == "arg"}


def rule_nsigner(ctx, F):
    """A denial record is used only if it was signed by exactly the zone the proof is about: both
    get_checked_nsec and get_checked_nsec3 hand out a record only under `group.signer_name() ==
    signer_name` (equality -- an ancestor's or descendant's NSEC/NSEC3 says nothing about this zone)."""
    R = "C14.nsigner"
    ctx.floor(R, 2)
    for fn in ("get_checked_nsec", "get_checked_nsec3"):
        b = F.one_body(r"^dnssec::validator::nsec::%s$" % fn)
        if not ctx.anchor(R, fn, b):
            continue
        sites = []
        for bi in b.reachable_blocks():
            if b.blocks[bi].get("c"):
                continue
            for st in b.blocks[bi]["s"]:
                if st[0] == "=" and st[2][0] == "agg" and st[2][1][0] == "adt" and st[2][1][1] == "core::option::Option" \
                        and "Some" in str(st[2][1][2:]):
                    sites.append(bi)
        if not ctx.anchor(R, "%s hands out a record (Some)" % fn, len(sites) >= 1, b.where()):
            continue
        for bi in sites:
            ok = False
            for l, r in _eq_facts(b, bi, F):
                for x, y in ((l, r), (r, l)):
                    if _has_call(x, r"::signer_name$") and 1 in _arg_roots(x) and _arg_roots(y) == {2} and not _has_call(y, r"."):
                        ok = True
            ctx.ob(R, b, "a denial record is handed out only if its signer equals the expected signer", ok,
                   "%s returns a record without the test `group.signer_name() == signer_name` (equality) in front of it: an NSEC/"
                   "NSEC3 record signed by another zone (the parent above a cut, a child below it) is accepted as a proof about "
                   "this zone" % fn, b.where(bi))


def rule_wildce(ctx, F):
    """check_not_exists_for_wildcard: every positive verdict depends on the closest encloser the
    wildcard signature gave -- by equality with the closest encloser the NSEC proof derived, or through
    the child-of-closest-encloser name handed to the NSEC3 proof."""
    R = "C14.wildce"
    ctx.floor(R, 2)
    bs = [b for p, b in F.bodies.items() if re.search(r"^dnssec::validator::utilities::check_not_exists_for_wildcard::\{closure#0\}$", p)]
    if not ctx.anchor(R, "check_not_exists_for_wildcard", len(bs) == 1):
        return
    b = bs[0]
    CE = ("field", ("arg", 1), 3)     # fourth parameter (captured in declaration order): the wildcard's closest encloser
    sites = []
    for bi in b.reachable_blocks():
        if b.blocks[bi].get("c"):
            continue
        for st in b.blocks[bi]["s"]:
            if st[0] == "=" and st[2][0] == "agg" and st[2][1][0] == "tuple" and len(st[2][2]) == 3:
                first = const_value(b.term_of_operand(st[2][2][0]))
                if first in (1, True):
                    sites.append(bi)
    if not ctx.anchor(R, "positive verdicts (true, state, ..) of check_not_exists_for_wildcard", len(sites) >= 2, b.where()):
        return
    def is_ce(t):
        t = deep_strip(t)
        return t == CE or (t[0] == "field" and t[1:] == CE[1:])
    for bi in sites:
        how = None
        for l, r in _eq_facts(b, bi, F):
            for x, y in ((l, r), (r, l)):
                if is_ce(x) and _has_call(y, r"nsec::nsec_for_not_exists$"):
                    how = "equal to the NSEC-derived closest encloser"
        if how is None:
            for s, o in outcome_facts(b, bi, F):
                s = deep_strip(s)
                for c in walk(s):
                    if c[0] == "call" and c[1] and re.search(r"nsec::nsec3_for_not_exists_no_ce$", c[1]):
                        a0 = c[3][0] if c[3] else None
                        if a0 is not None and any(cc[0] == "call" and cc[1] and re.search(r"utilities::get_child_of_ce$", cc[1])
                                                  and any(is_ce(x) for x in cc[3]) for cc in walk(a0)):
                            how = "NSEC3 proof for the child of the closest encloser"
        ctx.ob(R, b, "a positive verdict rests on the wildcard's closest encloser", how is not None,
               "check_not_exists_for_wildcard answers `true` although the closest encloser that the wildcard RRSIG implies was "
               "neither found *equal* to the closest encloser the NSEC proof derived nor used to form the name the NSEC3 proof "
               "is about: a signed `*.<ce>` answer is accepted for a name whose real closest encloser lies deeper (the wildcard "
               "does not apply there)", b.where(bi), detail=how)


def rule_sigttl(ctx, F):
    """A verdict (or a cached chain node) that rests on a verified signature is valid for no longer than
    that signature: at every call site of check_sig_cached the lifetime of the same RRSIG record
    (ttl_for_sig: record TTL, original TTL, time until expiration) is folded with `min` into the
    validity that is returned / stored; ttl_for_sig itself looks at the expiration time and the clock."""
    R = "C14.sigttl"
    ctx.floor(R, 4)
    tb = F.one_body(r"^dnssec::validator::utilities::ttl_for_sig$")
    if ctx.anchor(R, "ttl_for_sig", tb):
        has_exp = bool(tb.calls_matching(r"Rrsig::<.*>::expiration$"))
        has_now = bool(tb.calls_matching(r"Timestamp::now$"))
        mins = tb.calls_matching(r"core::cmp::(Ord::)?min(::<.*>)?$")
        fed = False
        for bb, t in mins:
            for a in t["args"]:
                tm = deep_strip(tb.term_of_operand(a))
                if _has_call(tm, r"::expiration$") and _has_call(tm, r"Timestamp::now$"):
                    fed = True
        ctx.ob(R, tb, "the remaining lifetime (expiration - now) is folded into the signature TTL", has_exp and has_now and fed,
               "ttl_for_sig does not take the minimum with the time left until the signature's expiration: data validated "
               "with an RRSIG about to expire stays cached as secure for its whole TTL", tb.where())
    sites = [(b, bb, t) for b, bb, t in F.callers_of(r"^dnssec::validator::group::Group::check_sig_cached$")
             if "::test" not in b.path and "check_sig_cached" not in b.path]
    if not ctx.anchor(R, "call sites of check_sig_cached", len(sites) >= 3):
        return
    for b, bb, t in sites:
        sig_t = deep_strip(b.term_of_operand(t["args"][1]))
        tcalls = b.calls_matching(r"utilities::ttl_for_sig$")
        mins = b.calls_matching(r"core::cmp::(Ord::)?min(::<.*>)?$")
        ok, why = False, "no ttl_for_sig call"
        for tbb, tt in tcalls:
            if not b.dominates(bb, tbb):
                continue
            arg_t = deep_strip(b.term_of_operand(tt["args"][0]))
            if canon_nobb(arg_t) != canon_nobb(sig_t):
                why = "ttl_for_sig is applied to another record than the one just verified"
                continue
            why = "the result of ttl_for_sig does not reach a min()"
            for mbb, mt in mins:
                if not b.dominates(tbb, mbb):
                    continue
                for a in mt["args"]:
                    tm = b.term_of_operand(a)
                    if any(s[0] == "call" and s[1] and re.search(r"utilities::ttl_for_sig$", s[1]) and call_bb_of(s) in (tbb, None)
                           for s in walk(tm)):
                        # the minimum has to lie on every way from here to a return
                        rets = [i for i in b.reachable_blocks() if b.blocks[i]["t"]["k"] == "return"]
                        holds, p = must_pass(b, tbb, rets, [mbb])
                        if holds:
                            ok = True
                        else:
                            why = "a path from ttl_for_sig to the return goes round the min(): " + fmt_path(p)
        ctx.ob(R, b, "the verified signature's lifetime limits the validity that is returned", ok,
               "%s: after check_sig_cached succeeded, %s -- the validity returned with the secure verdict (or stored in the chain "
               "node) is not capped by the remaining lifetime of the RRSIG that was verified: the verdict outlives the signature "
               "it rests on" % (b.path.split("::{closure")[0].split("::")[-1], why), b.where(bb))


def rule_split(ctx, F):
    """Key, signature and bitmap octets come from upstream.  `split_at(n)` panics when n exceeds the slice: every
    such call in the DNSSEC code (crypto::common, the validator, rdata::dnssec) lies behind `n <= len` established
    for the *same* slice -- a bound on some other slice (the whole key instead of what is left of it) does not do."""
    from rulelib import relations
    R = "C14.split"
    ctx.floor(R, 2)
    n = 0
    for p, b in sorted(F.bodies.items()):
        if not re.match(r"^<?(crypto::common::|dnssec::validator::|dnssec::common::|rdata::dnssec|net::client::validator)", p) or "::test" in p:
            continue
        for bb, t in b.calls():
            if not re.search(r"<impl \[T\]>::split_at(_mut)?$", t["fn"] or ""):
                continue
            recv = deep_strip(b.term_of_operand(t["args"][0]))
            k = deep_strip(b.term_of_operand(t["args"][1]))
            n += 1
            if const_value(k) == 0:
                ctx.ob(R, b, "split_at#%d" % n, True, where=b.where(bb), nontrivial=False, detail="constant 0")
                continue
            ok = False
            for x, rel, y in relations(b, bb, F):
                x, y = deep_strip(x), deep_strip(y)
                if rel in ("<=", "<") and canon_nobb(x) == canon_nobb(k) and y[0] in ("call", "len") and \
                        ((y[0] == "call" and (y[1] or "").endswith("::len") and y[3] and canon_nobb(deep_strip(y[3][0])) == canon_nobb(recv))
                         or (y[0] == "len" and canon_nobb(deep_strip(y[1])) == canon_nobb(recv))):
                    ok = True
            ctx.ob(R, b, "split_at(n) behind n <= len of the same slice #%d" % sum(1 for o in ctx.obs if o.rule == R and o.fn == b.path), ok,
                   "%s splits %s at %s without having compared that length with the length of this very slice on the way: "
                   "upstream data (a DNSKEY with an over-long exponent length, a crafted bitmap) makes it panic"
                   % (p.split("::")[-1], show(recv)[:70], show(k)[:50]), b.where(bb))
    ctx.call_sites += n


def rule_dsusable(ctx, F):
    """RFC 4035 5.2: a DS record is usable only if *its* key algorithm and *its* digest type are both supported; the
    delegation is insecure if no single DS record is usable.  So wherever create_child_node asks one of the two
    questions it asks the other one about the same record (same closure / loop body, same element) -- never
    `any(alg ok) && any(digest ok)` over the set."""
    R = "C14.dsusable"
    ctx.floor(R, 2)
    sites = []
    for p, b in sorted(F.bodies.items()):
        if not re.search(r"ValidationContext::<\w+>::create_child_node", p):
            continue
        a = b.calls_matching(r"validator::base::supported_algorithm$|::supported_algorithm$")
        d = b.calls_matching(r"validator::base::supported_digest$|::supported_digest$")
        if a or d:
            sites.append((b, a, d))
    if not ctx.anchor(R, "uses of supported_algorithm / supported_digest in create_child_node", len(sites) >= 2):
        return
    for b, a, d in sites:
        same = False
        if a and d:
            ra = {x[1] for bb, t in a for x in walk(deep_strip(b.term_of_operand(t["args"][0]))) if x[0] == "arg"}
            rd = {x[1] for bb, t in d for x in walk(deep_strip(b.term_of_operand(t["args"][0]))) if x[0] == "arg"}
            same = bool(ra & rd) or (not ra and not rd)
        ctx.ob(R, b, "algorithm and digest type are judged on the same DS record", bool(a) and bool(d) and same,
               "%s asks %s without asking %s about the same DS record: a DS RRset in which no single record is usable "
               "(supported algorithm with unsupported digest type next to unsupported algorithm with supported digest type) "
               "counts as usable, and the delegation is reported bogus instead of insecure"
               % (b.path.split("create_child_node")[-1].lstrip(":") or "create_child_node",
                  "supported_algorithm" if a else "supported_digest", "supported_digest" if a else "supported_algorithm"), b.where())


def rule_optout(ctx, F):
    """An NSEC3 proof that passes through an opt-out span is insecure (RFC 5155 9.2).  The two-step proofs
    (nsec3_for_nxdomain, nsec3_for_nodata_wildcard) first find the closest encloser with nsec3_for_not_exists and
    then prove something about the wildcard: the *secure* verdict (DoesNotExist / NoData built from scratch) is
    never produced on a path on which the first step answered DoesNotExistInsecure -- decided path-sensitively, the
    flag that carries the first answer to the end is followed through the tuple it travels in."""
    from rulelib import flow_states
    R = "C14.optout"
    ctx.floor(R, 2)
    SECURE = {"dnssec::validator::nsec::Nsec3NXState": "DoesNotExist", "dnssec::validator::nsec::Nsec3State": "NoData"}
    for fn in ("nsec3_for_nxdomain", "nsec3_for_nodata_wildcard"):
        bs = [b for p, b in F.bodies.items() if re.search(r"^dnssec::validator::nsec::%s::\{closure#0\}$" % fn, p)]
        if not ctx.anchor(R, fn, len(bs) == 1):
            continue
        b = bs[0]

        def on_call(bb, t, st):
            return st

        def on_edge(bb, lab, fact, st):
            if fact is None:
                return st
            tm, v = fact
            if isinstance(v, tuple) and v[0] == "variant" and v[1] in ("DoesNotExist", "DoesNotExistInsecure"):
                head = deep_strip(tm)
                while head[0] in ("field", "downcast", "deref", "ref", "cast"):
                    head = deep_strip(head[2] if head[0] == "cast" else head[1])
                if head[0] == "call" and any(re.search(r"nsec::nsec3_for_not_exists(::\{closure#0\})?$", nm or "") for nm in head[1:3]):
                    return "sec" if v[1] == "DoesNotExist" else "insec"
            return st
        at = flow_states(b, F, "none", on_call, on_edge)
        if not ctx.anchor(R, "path exploration of %s within budget" % fn, at is not None, b.where()):
            continue
        sites = []
        for bi in sorted(b.reachable_blocks()):
            if b.blocks[bi].get("c"):
                continue
            for st in b.blocks[bi]["s"]:
                if st[0] == "=" and st[2][0] == "agg" and st[2][1][0] == "adt" and SECURE.get(st[2][1][1]) == st[2][1][2]:
                    sites.append(bi)
        if not ctx.anchor(R, "the secure verdict built in %s" % fn, len(sites) >= 1, b.where()):
            continue
        for n, bi in enumerate(sites):
            sts = at.get(bi, set())
            ctx.ob(R, b, "secure verdict #%d only after a secure closest-encloser proof" % (n + 1), "insec" not in sts and "sec" in sts,
                   "%s builds its secure verdict on a path on which nsec3_for_not_exists had answered DoesNotExistInsecure (an "
                   "opt-out NSEC3 covers the next-closer name): names below an opt-out span are reported as securely "
                   "non-existent, so an unsigned delegation can be made to vanish with the zone's own NSEC3 records (states "
                   "reaching the site: %s)" % (fn, sorted(sts)), b.where(bi))


def rule_algs(ctx, F):
    """`supported_algorithm` decides whether a delegation is treated as signed at all: an algorithm it refuses makes the
    zone *insecure*, one it accepts but the crypto backend cannot verify makes it *bogus*.  So the set it accepts -- read
    off its comparisons over all 256 algorithm numbers -- lies inside what every compiled backend's
    PublicKey::from_dnskey can build, and contains what all of them can (the source says "needs to match")."""
    import c03
    R = "C14.algs"
    ctx.floor(R, 2)

    def subj(t):
        t = deep_strip(t)
        while t[0] in ("field", "deref", "ref"):
            t = deep_strip(t[1])
        return (t[0] == "call" and (t[1] or "").endswith("::algorithm")) or t == ("arg", 1)
    sb = F.one_body(r"^dnssec::validator::base::supported_algorithm$")
    if not ctx.anchor(R, "validator::base::supported_algorithm", sb):
        return
    acc = set()
    for octs, leaf, path in c03.byte_partition(sb, F, subj):
        blocks = list(path) + [leaf]
        val = None
        for rb, si, kind, term in return_assignments(sb):
            if rb in blocks:
                if term is not None and const_value(deep_strip(term)) is not None:
                    val = bool(const_value(deep_strip(term)))
                elif kind.startswith("call:") and re.search(r"::eq$", kind):
                    t = sb.blocks[rb]["t"]
                    ks = [const_value(deep_strip(sb.term_of_operand(a))) for a in t["args"]]
                    ks = [k for k in ks if isinstance(k, int) and not isinstance(k, bool)]
                    if ks:
                        acc |= ({ks[0]} & octs)
                        val = False
        if val is True:
            acc |= octs
    backs = {}
    for name in ("ring", "openssl"):
        b = F.one_body(r"^crypto::%s::PublicKey::from_dnskey$" % name)
        if b is None:
            continue
        ok = set()
        for kind, octs in c03.octet_outcomes(b, F, subj).items():
            if kind.startswith("Ok"):
                ok |= octs
        backs[name] = ok
    if not ctx.anchor(R, "PublicKey::from_dnskey of the compiled crypto backends", bool(backs) and all(backs.values()) and bool(acc), sb.where()):
        return
    every = set.intersection(*backs.values())
    ctx.ob(R, sb, "every algorithm the validator calls supported can be verified by every backend", acc <= every,
           "supported_algorithm accepts %s, which %s cannot turn into a public key: a correctly signed zone with that algorithm "
           "is reported bogus instead of insecure" % (sorted(acc - every), [n for n, s_ in backs.items() if acc - s_]))
    ctx.ob(R, sb, "every algorithm all backends verify is supported", every <= acc,
           "supported_algorithm accepts %s but every compiled backend (%s) also verifies %s: a correctly signed zone that uses "
           "one of these (ECDSAP384SHA384 = 14, ED25519 = 15) is treated as unsigned -- its answers come back insecure instead of "
           "secure, and forged answers are accepted as insecure" % (sorted(acc), ", ".join(sorted(backs)), sorted(every - acc)), sb.where())


def rule_qany(ctx, F):
    """A correctly signed answer to QTYPE ANY is an answer: get_answer_state, which picks the RRset that answers the
    question, does not demand `rtype == qtype` on every way to its result -- there is a way in for the meta type ANY
    (255), and the type is still compared for every other query type."""
    R = "C14.qany"
    ctx.floor(R, 1)
    b = F.one_body(r"^dnssec::validator::utilities::get_answer_state$")
    if not ctx.anchor(R, "utilities::get_answer_state", b):
        return
    sites = []
    for bi in sorted(b.reachable_blocks()):
        for st in b.blocks[bi]["s"]:
            if st[0] == "=" and st[2][0] == "agg" and st[2][1][0] == "adt" and st[2][1][1] == "core::option::Option" and "Some" in str(st[2][1][2:]):
                sites.append(bi)
    cmps = [bb for bb, t in b.calls() if re.search(r"PartialEq(<.*>)?::(eq|ne)$", t["fn"] or "")
            and any(_has_call(deep_strip(b.term_of_operand(a)), r"ValidatedGroup::rtype$") for a in t["args"])]
    if not ctx.anchor(R, "the answer found (Some) and the type comparison in get_answer_state", len(sites) >= 1 and len(cmps) >= 1, b.where()):
        return
    for bi in sites:
        forced = False
        for l, r in _eq_facts(b, bi, F):
            for x, y in ((l, r), (r, l)):
                if _has_call(x, r"ValidatedGroup::rtype$") and _arg_roots(y) == {3}:
                    forced = True
        mentions_any = False
        for bb, t in b.calls():
            for a in t["args"]:
                if const_value(deep_strip(b.term_of_operand(a))) == 255:
                    mentions_any = True
        for bi2 in b.reachable_blocks():
            t2 = b.blocks[bi2]["t"]
            if t2["k"] == "switch" and any(v == 255 for v, _ in t2["v"]):
                mentions_any = True
        ctx.ob(R, b, "QTYPE ANY has a way to its answer", (not forced) and mentions_any,
               "get_answer_state finds an answer only under `group.rtype() == qtype`%s: for QTYPE ANY no RRset ever matches, the "
               "reply is then judged as a negative answer without SOA, and a correctly signed ANY answer is reported bogus"
               % ("" if forced else " (and never looks at Rtype::ANY)"), b.where(bi))


def rule_badsigs(ctx, F):
    """The validator tolerates `max_bad_signatures` failed verifications per RRset (key-tag collisions) and gives up on
    the next: all three places that count them compare with `>` -- a `>=` at one of them makes a correctly signed
    zone with one colliding key bogus there and only there."""
    R = "C14.badsigs"
    ctx.floor(R, 3)
    n = 0
    for p, b in sorted(F.bodies.items()):
        if not p.startswith(V) or "::test" in p:
            continue
        for bi in sorted(b.reachable_blocks()):
            t = b.blocks[bi]["t"]
            if t["k"] != "switch" or t["ty"] != "bool":
                continue
            d = deep_strip(b.term_of_operand(t["d"]))
            if d[0] != "bin" or d[1] not in ("Gt", "Ge", "Lt", "Le") or "max_bad_signatures" not in show(d):
                continue
            n += 1
            lim_right = "max_bad_signatures" in show(d[3])
            op = d[1] if lim_right else {"Gt": "Lt", "Lt": "Gt", "Ge": "Le", "Le": "Ge"}[d[1]]
            ctx.ob(R, b, "failed verifications are tolerated up to the configured number #%d" % n, op == "Gt",
                   "%s gives up when the count of failed signatures is %s max_bad_signatures (its siblings and the documentation: "
                   "more than): with the default of one tolerated failure a DNSKEY RRset with two keys of the same tag is bogus "
                   "when the wrong key is tried first" % (p.split("::{closure")[0].split("::")[-1], {"Ge": ">=", "Lt": "<", "Le": "<="}.get(op, op)), b.where(bi))
    ctx.call_sites += n


def rule_loopcount(ctx, F):
    """do_cname_dname follows CNAME and DNAME links in a loop whose only bound is the step counter: every way round the
    loop passes an increment of the counter that max_cname_dname is compared with (CNAME and DNAME arm alike), or a
    cycle of DNAMEs from upstream keeps the validator busy for ever."""
    from rulelib import cyclic_blocks
    R = "C14.loopcount"
    ctx.floor(R, 1)
    bs = [b for p, b in F.bodies.items() if re.search(r"^dnssec::validator::utilities::do_cname_dname(::\{closure#0\})?$", p)]
    bs = [b for b in bs if b.calls_matching(r"max_cname_dname$")]
    if not ctx.anchor(R, "utilities::do_cname_dname", len(bs) == 1):
        return
    b = bs[0]
    lim = [bb for bb, _ in b.calls_matching(r"max_cname_dname$")]
    # the counter: the local compared with max_cname_dname()
    counters = set()
    for bi in b.reachable_blocks():
        for st in b.blocks[bi]["s"]:
            if st[0] == "=" and st[2][0] == "bin" and st[2][1] in ("Gt", "Ge", "Lt", "Le"):
                for a, o in ((st[2][2], st[2][3]), (st[2][3], st[2][2])):
                    if "max_cname_dname" in show(deep_strip(b.term_of_operand(o))) and a[0] in ("c", "m") and len(a[1]) == 1:
                        counters.add(a[1][0])
                        for d in b.defs().get(a[1][0], []):
                            if d[0] == "stmt" and d[3][0] == "use" and d[3][1][0] in ("c", "m") and len(d[3][1][1]) == 1:
                                counters.add(d[3][1][1][0])
    incs = set()
    for bi in b.reachable_blocks():
        for st in b.blocks[bi]["s"]:
            if st[0] == "=" and len(st[1]) == 1 and st[1][0] in counters and st[2][0] == "use" and st[2][1][0] in ("c", "m") \
                    and len(st[2][1][1]) == 2:
                src = st[2][1][1][0]
                for d in b.defs().get(src, []):
                    if d[0] == "stmt" and d[3][0] == "bin" and d[3][1].startswith("Add"):
                        incs.add(bi)
    if not ctx.anchor(R, "the step counter of do_cname_dname and its increments", bool(counters) and bool(incs), b.where()):
        return
    # the unbounded loop is the outer one, which starts a fresh pass over the groups for every link followed (its header is
    # the into_iter() call of that pass); the passes themselves are bounded by the number of groups
    heads = [bb for bb, t in b.calls() if re.search(r"IntoIterator::into_iter$", t["fn"] or "") and bb in cyclic_blocks(b)]
    if not ctx.anchor(R, "the pass over the answer groups that is restarted for every link", len(heads) >= 1, b.where()):
        return
    bad = []
    for h in heads:
        for s_, lab in b.succs(h):
            if h in b.reach_from(s_, removed_blocks=incs):
                bad.append(h)
    ctx.ob(R, b, "every way round the link-following loop counts a step", not bad,
           "do_cname_dname can start another pass over the answer groups without having incremented the counter that is compared "
           "with max_cname_dname: a response with a cycle of such links (DNAMEs pointing at each other) never lets validate_msg "
           "return", b.where(bad[0]) if bad else b.where())


def rule_wildsig(ctx, F):
    """Whether an RRset was expanded from a wildcard -- and from which closest encloser -- is read off the Labels field of
    the RRSIG *that verified* (RFC 4035 5.3.4): in Group::validate_with_node, wildcard_closest_encloser is applied to the
    record that was handed to check_sig_cached, behind that check.  Taken from some other RRSIG of the set (the first
    one, unverified), a stray RRSIG with a full label count hides that the answer is a wildcard expansion."""
    R = "C14.wildsig"
    ctx.floor(R, 1)
    bs = [b for p, b in F.bodies.items() if re.search(r"group::Group::validate_with_node(::<.*>)?::\{closure#0\}$", p)]
    if not ctx.anchor(R, "Group::validate_with_node", len(bs) == 1):
        return
    b = bs[0]
    checks = [(bb, deep_strip(b.term_of_operand(t["args"][1]))) for bb, t in b.calls() if re.search(r"Group::check_sig_cached$", t["fn"] or "")]
    wc = [(bb, t) for bb, t in b.calls() if re.search(r"::wildcard_closest_encloser(::<.*>)?$", t["fn"] or "")]
    in_closures = [(bi, cb) for bi, cb, ops in closures_created_in(F, b) if cb.calls_matching(r"::wildcard_closest_encloser(::<.*>)?$")]
    if not ctx.anchor(R, "check_sig_cached and wildcard_closest_encloser in validate_with_node", bool(checks) and bool(wc or in_closures), b.where()):
        return
    for bi, cb in in_closures:
        ctx.ob(R, b, "the wildcard is read from the RRSIG that verified", False,
               "validate_with_node evaluates wildcard_closest_encloser inside a closure (%s) over some RRSIG of the set, not on the "
               "record that check_sig_cached has just verified: an unverifiable RRSIG with a full label count in front hides a "
               "wildcard expansion" % cb.path.split("::")[-1], b.where(bi))
    for bb, t in wc:
        recv = deep_strip(b.term_of_operand(t["args"][0]))
        ok = False
        for cb, sig_t in checks:
            if b.dominates(cb, bb) and any(canon_nobb(s_) == canon_nobb(sig_t) for s_ in walk(recv) if isinstance(s_, tuple)):
                ok = True
        ctx.ob(R, b, "the wildcard is read from the RRSIG that verified", ok,
               "validate_with_node takes the closest encloser of an expanded wildcard from %s, which is not the record just verified "
               "by check_sig_cached (or is evaluated before that check): with an unverifiable RRSIG carrying a full label count in "
               "front, a replayed `*.zone` answer for an existing name is secure without any proof" % show(recv)[:90], b.where(bb))


def rule_sigcanon(ctx, F):
    """RFC 4034 3.1.8.1: every name in the signed data is in canonical form (lower case).  `RrsigExt::signed_data`
    writes names -- the signer name, the owner, and the `*.` + kept suffix of a wildcard-expanded owner -- through
    `compose_canonical` only; a plain `ToName::compose` there makes the validity of a signature depend on the case the
    answer happened to arrive in (0x20 randomisation)."""
    R = "C14.sigcanon"
    ctx.floor(R, 1)
    b = F.one_body(r"^<rdata::dnssec::Rrsig<Octets, TN> as dnssec::validator::base::RrsigExt>::signed_data$")
    if not ctx.anchor(R, "RrsigExt::signed_data", b):
        return
    canon = b.calls_matching(r"ToName::compose_canonical$")
    plain = b.calls_matching(r"(ToName|ToRelativeName)::compose$")
    if not ctx.anchor(R, "compose_canonical calls in signed_data", len(canon) >= 2, b.where()):
        return
    ctx.ob(R, b, "names enter the signed data in canonical form only", not plain,
           "RrsigExt::signed_data writes a name with compose() instead of compose_canonical() (%s): an RRset whose owner arrives "
           "in mixed case fails signature verification and is reported bogus" % ", ".join(b.where(bb) for bb, _ in plain[:3]),
           b.where(plain[0][0]) if plain else b.where())
