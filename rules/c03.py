"""C03 — every name value is valid; limits enforced at construction.

C03.bld     NameBuilder: on every success path of every appending method the
            guards taken imply  len + appended <= 254 (relative) / 255
            (absolute) and label payload <= 63 (small linear-inequality step
            over the symbols len, head, slice length, compose_len; no solver).
C03.restore append_label / append_name restore `head` on their error exits.
C03.cap     wire/slice validators cap names at 255 and labels at 63:
            parse_ref (both phases agree), skip, check_slice, split_from.
C03.forge   unchecked-constructor audit: every call of an `unsafe fn` that
            returns a validated name type is validator-dominated, a re-wrap of
            an already validated value, inside another unsafe fn, or audited.
C03.raw     the validated name types are *built* (struct literal, transmute)
            only inside an `unsafe fn`, from a value that is already of a
            validated type, from a constant, or behind a validator call --
            derive-generated constructors (Clone, Arbitrary, Deserialize...)
            included: no safe function makes one from unchecked octets.
C03.endl    NameBuilder methods that end the label under construction call
            end_label while `head` still names it (never after taking/clearing
            `self.head`): otherwise the label's length octet stays 0.
C03.flag    ParsedName's `compressed` flag is false only for names stored
            contiguously: every path from a followed compression pointer to the
            next seek sets it; it is cleared only while no label was counted.
C03.bounds  Name::slice / range hand out a RelativeName only for ranges that
            end before the root label (open-ended ranges are refused).
C03.cut     a name's octets are truncated in place only at a label boundary:
            behind check_index() for that very index, behind a label-wise
            ends_with(base) with the index len - base.compose_len(), or by
            the root label of an absolute name (len - 1).
C03.esc     Label's Display prints raw only octets the presentation-format
            reader accepts unescaped (finite decision tree over one octet).
"""
import re

from mirlib import BranchFacts, strip, deep_strip, show, walk, const_value
from rulelib import dominating_edges
from rulelib import (
    bool_facts, canon_nobb, cyclic_blocks, facts_at, fmt_path, must_pass, relations, return_assignments,
    succeeded_calls, _norm_fact, accumulator_of,
)
import sigs

NB = "base::name::builder::NameBuilder::<Builder>::"
REL_MAX = 254
ABS_MAX = 255
LABEL_MAX = 63


def run(ctx):
    F = ctx.facts
    ctx.extra["explanation"] = (
        "C03: interval step over NameBuilder's guards (len+appended<=254/255, label<=63) on every success "
        "path, head restore on error, 255/63 caps in all validators with sibling agreement, "
        "unchecked-constructor audit of all unsafe name constructors, Display-vs-reader escape agreement "
        "over all 256 octets. Text and wire round-trip equality are not decided."
    )
    rule_bld(ctx, F)
    rule_bld_charstr(ctx, F)
    rule_bld_sub(ctx, F)
    rule_bld_atomic(ctx, F)
    rule_bld_onestep(ctx, F)
    rule_endl_consumers(ctx, F)
    rule_relroot(ctx, F)
    rule_cut(ctx, F)
    rule_restore(ctx, F)
    rule_cap(ctx, F)
    rule_forge(ctx, F)
    rule_esc(ctx, F)
    rule_endl(ctx, F)
    rule_raw(ctx, F)
    rule_flag(ctx, F)
    rule_bounds(ctx, F)
    import c06
    c06.rule_label(ctx, F)   # strings given to the zone-file scanner: labels of 1..=63 octets
    c06.rule_empty(ctx, F)   # ... and no empty label inside a scanned name
    c06.rule_escread(ctx, F)  # what Display writes as `\\X` both escape readers accept (text round trip of names)


# ---------------------------------------------------------------------------
# linear expressions over {L, H, n, C}
# ---------------------------------------------------------------------------

def linexp(t, b):
    """term -> {sym: coef, 1: const} or None"""
    t = deep_strip(t)
    k = t[0]
    cv = const_value(t)
    if cv is not None:
        return {1: cv}
    if k == "cast":
        return linexp(t[2], b)
    if k == "bin" and t[1] in ("Add", "Sub"):
        a, c = linexp(t[2], b), linexp(t[3], b)
        if a is None or c is None:
            return None
        out = dict(a)
        for s, v in c.items():
            out[s] = out.get(s, 0) + (v if t[1] == "Add" else -v)
        return out
    if k == "call" and t[1]:
        fn = t[1]
        if fn.endswith("NameBuilder::<Builder>::len") and deep_strip(t[3][0]) == ("arg", 1):
            return {"L": 1}
        if fn.endswith("<impl [u8]>::len") or fn.endswith("<impl [T]>::len"):
            a = deep_strip(t[3][0])
            if a in (("field", ("arg", 1), "builder"), ("field", ("arg", 1), "0")):
                return {"L": 1}
            if a[0] == "arg" and a[1] >= 2:
                return {"n": 1}
        if fn.endswith("::compose_len") and deep_strip(t[3][0])[0] == "arg":
            return {"C": 1}
    if k == "field" and t[2] in ("0", 0):
        inner = strip(t[1])
        if inner[0] == "downcast" and inner[2] == "Some":
            base = deep_strip(inner[1])
            if base == ("field", ("arg", 1), "head") or (base[0] == "phi"):
                return {"H": 1}
    if k == "phi" or k == "local":
        return None
    return None


def le_zero(a, rel, c, b):
    """fact a rel c  ->  linear form  e <= 0  (dict) ; strict '<' over integers becomes e + 1 <= 0"""
    la, lc = linexp(a, b), linexp(c, b)
    if la is None or lc is None:
        return None
    e = dict(la)
    for s, v in lc.items():
        e[s] = e.get(s, 0) - v
    if rel == "<":
        e[1] = e.get(1, 0) + 1
    return {s: v for s, v in e.items() if v != 0 or s == 1}


def implies(facts, goal):
    """goal (e <= 0) follows if some fact has the same variable part and a constant at least as large,
    or from the sum of two facts."""
    gv = {s: v for s, v in goal.items() if s != 1 and v != 0}
    gk = goal.get(1, 0)
    cands = list(facts)
    for i in range(len(facts)):
        for j in range(i + 1, len(facts)):
            s = dict(facts[i])
            for k, v in facts[j].items():
                s[k] = s.get(k, 0) + v
            cands.append(s)
    for f in cands:
        fv = {s: v for s, v in f.items() if s != 1 and v != 0}
        if fv == gv and f.get(1, 0) >= gk:
            return True
    if not gv:
        return gk <= 0
    return False


def path_facts(b, F, conds):
    """Linear facts (e <= 0) from the switch edges taken on a path."""
    out = []
    bf = BranchFacts(b, F)
    for sw, lab in conds.items():
        ef = bf.edge_facts(sw)
        if lab not in ef:
            continue
        t, v = ef[lab]
        for subj, o in _norm_fact(t, v):
            if not isinstance(o, bool):
                continue
            s = deep_strip(subj)
            if s[0] == "call" and re.search(r"<impl \[(T|u8)\]>::is_empty$", s[1] or "") and s[3]:
                a0 = deep_strip(s[3][0])
                if a0[0] == "arg" and a0[1] >= 2:
                    # !is_empty(n)  =>  1 - n <= 0 ;  is_empty(n)  =>  n <= 0
                    out.append({"n": -1, 1: 1} if o is False else {"n": 1})
                continue
            if s[0] != "bin" or s[1] not in ("Lt", "Le", "Gt", "Ge"):
                continue
            op, x, y = s[1], s[2], s[3]
            if (op == "Lt" and o) or (op == "Ge" and not o):
                e = le_zero(x, "<", y, b)
            elif (op == "Gt" and o) or (op == "Le" and not o):
                e = le_zero(y, "<", x, b)
            elif (op == "Le" and o) or (op == "Gt" and not o):
                e = le_zero(x, "<=", y, b)
            else:
                e = le_zero(y, "<=", x, b)
            if e is not None:
                out.append(e)
    return out


def append_amount(b, t):
    """Amount appended to self.builder by a call terminator: {sym: coef} or None if not an append."""
    fn = t["fn"] or ""
    args = [b.term_of_operand(a) for a in t["args"]]
    if fn.endswith("NameBuilder::<Builder>::_append_slice") or fn.endswith("OctetsBuilder::append_slice"):
        if fn.endswith("OctetsBuilder::append_slice") and deep_strip(args[0]) not in (
                ("field", ("arg", 1), "builder"), ("field", ("arg", 1), "0")):
            return None
        x = deep_strip(args[1])
        if x[0] == "agg" and x[1][0] == "array":
            return {1: len(x[2])}
        if x[0] == "repeat":
            return {1: x[2]}
        if x[0] == "arg":
            return {"n": 1}
        # `&buf[..k]` of a local scratch array: k octets
        if x[0] == "call" and (x[1] or "").endswith("Index::index") and len(x[3]) == 2:
            rng = deep_strip(x[3][1])
            if rng[0] == "agg" and "RangeTo" in str(rng[1]) and rng[2]:
                e = linexp(rng[2][0], b)
                if e is not None and set(e) <= {"n", 1}:
                    return dict(e)
        return {"?": 1}
    if fn.endswith("Label::compose") and len(args) >= 2 and deep_strip(args[1]) == ("field", ("arg", 1), "builder"):
        return {"C": 1}
    return None


BLD_FNS = [
    ("push", REL_MAX), ("append_slice", REL_MAX), ("append_name", REL_MAX),
    ("into_name", ABS_MAX), ("append_origin", ABS_MAX),
]


def rule_bld(ctx, F):
    R = "C03.bld"
    ctx.floor(R, 9)
    for name, limit in BLD_FNS:
        bs = F.find_bodies("^" + re.escape(NB + name) + r"(::<.*>)?$")
        if not ctx.anchor(R, "NameBuilder::%s" % name, len(bs) == 1):
            continue
        b = bs[0]
        cyc = cyclic_blocks(b)
        paths = sigs.success_paths(b, F)
        seen = set()
        for blocks, conds in paths:
            total = {}
            loop_c = False
            for bb in blocks:
                t = b.blocks[bb]["t"]
                if t["k"] != "call":
                    continue
                amt = append_amount(b, t)
                if amt is None:
                    continue
                if "C" in amt:
                    if loop_c:
                        continue
                    loop_c = True
                for s, v in amt.items():
                    total[s] = total.get(s, 0) + v
            if not total and name == "append_name" and any(
                    b.blocks[x]["t"]["k"] == "call" and append_amount(b, b.blocks[x]["t"]) is not None for x in cyc):
                # the labels of `name` are appended one by one in a loop the success path does not pass through; what
                # the loop appends in total is, by definition, name.compose_len()
                total = {"C": 1}
            if not total:
                continue
            head_some = None
            for sw, lab in conds.items():
                d = deep_strip(b.term_of_operand(b.blocks[sw]["t"]["d"]))
                if d[0] == "discr" and deep_strip(d[1]) == ("field", ("arg", 1), "head"):
                    ef = BranchFacts(b, F).edge_facts(sw)
                    if lab in ef:
                        head_some = ef[lab][1] == ("variant", "Some")
            key = (tuple(sorted((str(s), v) for s, v in total.items())), head_some)
            if key in seen:
                continue
            seen.add(key)
            facts = path_facts(b, F, conds)
            facts.append({"L": 1, 1: -REL_MAX})  # builder invariant on entry: len <= 254
            desc = "+".join(("%s" % v if s == 1 else ("%s%s" % ("" if v == 1 else v, s))) for s, v in sorted(total.items(), key=lambda x: str(x[0])))
            site = "path appending %s (%s)" % (desc, "in label" if head_some else ("new label" if head_some is False else "no label state"))
            if "?" in total:
                ctx.ob(R, b, site, False, "appended amount not recognised")
                continue
            goal = {"L": 1, 1: -limit}
            for s, v in total.items():
                goal[s] = goal.get(s, 0) + v
            ok = implies(facts, goal)
            ctx.ob(R, b, "name length: " + site, ok,
                   "NameBuilder::%s: the guards on this path do not imply len + %s <= %d; a %s name longer than "
                   "allowed can be built" % (name, desc, limit, "relative" if limit == REL_MAX else "absolute"),
                   detail="facts: %s" % [_fmt(f) for f in facts])
            # label payload
            if name in ("push", "append_slice"):
                if head_some:
                    # payload_after = (L - H - 1) + S <= 63   <=>  L - H + S - 64 <= 0
                    g = {"L": 1, "H": -1, 1: -(LABEL_MAX + 1)}
                    for s, v in total.items():
                        g[s] = g.get(s, 0) + v
                else:
                    # new label: payload = S - 1 <= 63
                    g = {1: -(LABEL_MAX + 1)}
                    for s, v in total.items():
                        g[s] = g.get(s, 0) + v
                if name == "append_slice" and head_some is False and "n" in total:
                    # a label that is started gets at least one octet: 1 - n <= 0
                    ctx.ob(R, b, "no empty label: " + site, implies(facts, {"n": -1, 1: 1}),
                           "NameBuilder::append_slice starts a new label (length octet written, head set) on a path on which the "
                           "slice may be empty: append_label(b\"\") between two labels leaves a zero-length label -- a root label in "
                           "the middle of the name", detail="facts: %s" % [_fmt(f) for f in facts])
                okl = implies(facts, g)
                ctx.ob(R, b, "label length: " + site, okl,
                       "NameBuilder::%s: the guards on this path do not imply a label payload <= 63" % name,
                       detail="facts: %s" % [_fmt(f) for f in facts])


def rule_bld_sub(ctx, F):
    """Every subtraction in the appending methods of NameBuilder stays non-negative under the builder's invariants (head + 1 <=
    len, payload of the label under construction <= 63, len <= 254) and the guards taken so far: a subtraction that can wrap
    turns the guard it feeds into `anything goes` in release builds (and is a panic in debug builds)."""
    R = "C03.bld"
    for name in ("push", "append_slice", "end_label", "append_label"):
        bs = F.find_bodies("^" + re.escape(NB + name) + r"(::<.*>)?$")
        if len(bs) != 1:
            continue
        b = bs[0]
        k = 0
        for bi in sorted(b.reachable_blocks()):
            tm = b.blocks[bi]["t"]
            if tm["k"] != "assert" or not tm.get("msg") or tm["msg"][0] != "overflow" or tm["msg"][1] != "Sub":
                continue
            k += 1
            a = linexp(b.term_of_operand(tm["msg"][2]), b)
            c = linexp(b.term_of_operand(tm["msg"][3]), b)
            if a is None or c is None:
                ctx.undecided_item(R, b.path, "subtraction #%d: operands not linear in (len, head, n)" % k)
                continue
            # goal: c - a <= 0
            goal = dict(c)
            for s, v in a.items():
                goal[s] = goal.get(s, 0) - v
            goal = {s: v for s, v in goal.items() if v != 0 or s == 1}
            # facts: dominating guards + invariants
            conds = {}
            bf = BranchFacts(b, F)
            for sw, lab in dominating_edges(b, bi):
                conds[sw] = lab
            facts = path_facts(b, F, conds)
            facts.append({"L": 1, 1: -REL_MAX})            # len <= 254
            in_label = "H" in goal or any("H" in f for f in facts)
            if in_label:
                facts.append({"H": 1, "L": -1, 1: 1})      # head + 1 <= len
                facts.append({"L": 1, "H": -1, 1: -(LABEL_MAX + 1)})   # len - head - 1 <= 63
            ok = implies(facts, goal)
            ctx.ob(R, b, "subtraction #%d cannot wrap" % k, ok,
                   "NameBuilder::%s computes `%s - %s`, which is negative for a state the builder can be in (a label under "
                   "construction that already holds 63 octets makes len - head = 64): a panic in debug builds; in release builds "
                   "the difference wraps, the length guard it feeds lets everything through and a 64-octet label is written -- an "
                   "invalid name from safe code (and a 63-octet label built in two steps is refused)"
                   % (name, _fmt_side(a), _fmt_side(c)), b.where(bi), detail="facts: %s" % [_fmt(f) for f in facts])


def _fmt_side(e):
    return " + ".join(("%s" % v) if s == 1 else ("%s%s" % ("" if v == 1 else v, {"L": "len", "H": "head", "n": "n"}.get(s, s))) for s, v in sorted(e.items(), key=lambda x: str(x[0])) if v != 0) or "0"


def rule_bld_atomic(ctx, F):
    """A failed append to a bounded buffer (ShortBuf) must not leave half a label behind: a label is started (`head` set)
    only after its length octet and first content are in the buffer, written by *one* append; append_name writes each label
    with one append.  Otherwise finish() after the error returns a name with an empty or short label (or panics)."""
    R = "C03.bld"
    for name in ("push", "append_slice"):
        bs = F.find_bodies("^" + re.escape(NB + name) + r"(::<.*>)?$")
        if len(bs) != 1:
            continue
        b = bs[0]
        heads = []
        for bi in sorted(b.reachable_blocks()):
            if b.blocks[bi].get("c"):
                continue
            for st in b.blocks[bi]["s"]:
                if st[0] == "=" and len(st[1]) > 1 and deep_strip(b.term_of_place(st[1])) == ("field", ("arg", 1), "head"):
                    v = deep_strip(b.term_of_rvalue(st[2]))
                    if v[0] == "agg" and "Some" in str(v[1]):
                        heads.append(bi)
        if not ctx.anchor(R, "NameBuilder::%s starts a label (head = Some(..))" % name, len(heads) >= 1, b.where()):
            continue
        apps = [bb for bb, tt in b.calls() if append_amount(b, tt) is not None]
        for hb in heads:
            later = [a for a in apps if a in b.reach_from(hb) and a != hb or (a == hb)]
            # an append in the same block as the assignment comes after it only if it is the block's terminator: it always is
            ctx.ob(R, b, "%s: a label is marked as started only after its first octets are written" % name, not later,
                   "NameBuilder::%s sets `head` and then appends (in %d step(s)): when the buffer is full the append fails, but "
                   "the builder is left with a label under construction that has no content (or no length octet) -- finish() "
                   "then returns a name with an empty label, or panics" % (name, len(later)), b.where(hb))
    bs = F.find_bodies("^" + re.escape(NB + "append_name") + r"(::<.*>)?$")
    if len(bs) == 1:
        b = bs[0]
        two_step = [bb for bb, tt in b.calls() if re.search(r"Label::compose$", tt["fn"] or "")]
        ctx.ob(R, b, "append_name writes each label with one append", not two_step,
               "NameBuilder::append_name writes a label through Label::compose, i.e. the length octet and the content in two "
               "appends: a buffer that takes the first and not the second is left with a label cut short", b.where(two_step[0]) if two_step else b.where())


def rule_bld_onestep(ctx, F):
    """(C03.bld) The helper that writes "length octet + content" of a new label does it with exactly one append to the
    underlying buffer on every path: two appends can be separated by a ShortBuf."""
    R = "C03.bld"
    bs = F.find_bodies("^" + re.escape(NB + "_append_prefixed") + r"(::<.*>)?$")
    if not ctx.anchor(R, "NameBuilder::_append_prefixed", len(bs) == 1):
        return
    b = bs[0]
    apps = [bb for bb, tt in b.calls() if re.search(r"NameBuilder::<Builder>::_append_slice$|OctetsBuilder::append_slice$", tt["fn"] or "")]
    chained = [(x, y) for x in apps for y in apps if x != y and y in b.reach_from(x)]
    ctx.ob(R, b, "_append_prefixed: length octet and content go into the buffer with one append", len(apps) >= 1 and not chained,
           "NameBuilder::_append_prefixed appends %d times on one path: on a bounded buffer the first append can succeed and the "
           "second fail, which leaves a stray length octet (a root label in the middle, or a label cut short) in a builder that "
           "finish() / into_name() then turn into a name" % (len(apps)), b.where(apps[0]) if apps else b.where())


def rule_endl_consumers(ctx, F):
    """(C03.endl) Whoever takes the builder by value to make a name out of it -- finish, into_name, append_origin -- ends
    the label under construction first: the call to end_label dominates every normal return."""
    R = "C03.endl"
    for name in ("finish", "into_name", "append_origin"):
        bs = F.find_bodies("^" + re.escape(NB + name) + r"(::<.*>)?$")
        if not ctx.anchor(R, "NameBuilder::%s" % name, len(bs) == 1):
            continue
        b = bs[0]
        ends = [bb for bb, t in b.calls_matching(r"NameBuilder::<Builder>::end_label$")]
        rets = [i for i in b.reachable_blocks() if b.blocks[i]["t"]["k"] == "ret" and not b.blocks[i].get("c")]
        ok = bool(ends) and all(any(b.dominates(e, r) for e in ends) for r in rets)
        ctx.ob(R, b, "%s ends the label under construction" % name, ok,
               "NameBuilder::%s turns the builder into a name without calling end_label() first: the length octet of a label "
               "still open (built with push / append_slice) stays 0 and the name has a root label in the middle" % name)


def rule_relroot(ctx, F):
    """(C03.bounds) RelativeName::check_slice refuses a root label wherever it stands: once a label was found to be the
    root label the walk does not go on (no way from the `is_root() == true` edge back into the loop)."""
    R = "C03.bounds"
    b = F.one_body(r"^base::name::relative::RelativeName::<\[u8\]>::check_slice$")
    if not ctx.anchor(R, "RelativeName::check_slice", b):
        return
    roots = [bb for bb, t in b.calls_matching(r"Label::is_root$")]
    if not ctx.anchor(R, "is_root test in RelativeName::check_slice", len(roots) >= 1, b.where()):
        return
    bf = BranchFacts(b, F)
    for rb in roots:
        ok = None
        for sw in b.reachable_blocks():
            if b.blocks[sw]["t"]["k"] != "switch":
                continue
            for lab, (tm, v) in bf.edge_facts(sw).items():
                d = deep_strip(tm)
                if d[0] == "call" and len(d) > 5 and d[5] == rb and v is True:
                    tgt = b.edge_target(sw, lab)
                    ok = rb not in b.reach_from(tgt)
        ctx.ob(R, b, "a root label anywhere in a relative name is refused", ok is True,
               "RelativeName::check_slice goes on with the next label after it has seen a root label (only a root label in some "
               "particular position is refused): `www.<empty>.com` is accepted as a RelativeName, and into_name() gives a name "
               "with two root labels", b.where(rb))


def rule_bld_charstr(ctx, F):
    R = "C03.bld"
    b = F.one_body(r"^<base::charstr::CharStrBuilder<Builder> as octseq::OctetsBuilder>::append_slice$")
    if not ctx.anchor(R, "CharStrBuilder::append_slice", b):
        return
    for blocks, conds in sigs.success_paths(b, F):
        total = {}
        for bb in blocks:
            t = b.blocks[bb]["t"]
            if t["k"] == "call":
                amt = append_amount(b, t)
                if amt:
                    for s, v in amt.items():
                        total[s] = total.get(s, 0) + v
        if not total:
            continue
        facts = path_facts(b, F, conds)
        goal = {"L": 1, 1: -255}
        for s, v in total.items():
            goal[s] = goal.get(s, 0) + v
        ctx.ob(R, b, "character string length <= 255", implies(facts, goal),
               "CharStrBuilder::append_slice: guards do not imply len + appended <= 255",
               detail="facts: %s" % [_fmt(f) for f in facts])
        break


def _fmt(f):
    return " + ".join("%s%s" % (v, "" if s == 1 else "*" + s) for s, v in sorted(f.items(), key=lambda x: str(x[0]))) + " <= 0"


# ---------------------------------------------------------------------------

def rule_restore(ctx, F):
    R = "C03.restore"
    ctx.floor(R, 2)
    for name in ("append_label", "append_name"):
        bs = F.find_bodies("^" + re.escape(NB + name) + r"(::<.*>)?$")
        if not ctx.anchor(R, "NameBuilder::%s" % name, len(bs) == 1):
            continue
        b = bs[0]
        # writes self.head = <saved head>
        restores = []
        for bi in b.reachable_blocks():
            for st in b.blocks[bi]["s"]:
                if st[0] == "=" and len(st[1]) > 1 and deep_strip(b.term_of_place(st[1])) == ("field", ("arg", 1), "head"):
                    v = deep_strip(b.term_of_rvalue(st[2]))
                    if "head" in show(v) or v[0] in ("phi", "local", "call"):
                        restores.append(bi)
        # error exits taken *after* the label state was changed (end_label / take) and before any append
        muts = [bb for bb, t in b.calls() if t["fn"] and re.search(r"NameBuilder::<Builder>::end_label$|Option::<.*>::take$", t["fn"])]
        errs = [r for r in return_assignments(b) if r[2] == "Err" and r[3] is not None]
        first_err = None
        for (rb, si, kind, term) in errs:
            # the guard-failure exit: an explicit Err(..) aggregate (not a `?` propagation from the appends)
            first_err = rb if first_err is None else first_err
            ok, p = (True, None)
            if muts:
                ok, p = must_pass(b, muts[0], [rb], restores)
            ctx.ob(R, b, "err exit restores head", ok and bool(restores),
                   "NameBuilder::%s returns an error after ending the current label without restoring `head`: "
                   "the builder is left in a different state than before the failed call; bypass %s" % (name, fmt_path(p)),
                   b.where(rb))


# ---------------------------------------------------------------------------

def _caps(b, F):
    """{switch_bb: (kind, accepted_max)} for comparisons of an accumulating local with a constant:
    accepted_max = largest value of the accumulator on the continuing (non-error) edge."""
    out = {}
    errs = {r[0] for r in return_assignments(b) if r[2] == "Err"}
    for bi in sorted(b.reachable_blocks()):
        t = b.blocks[bi]["t"]
        if t["k"] != "switch" or t["ty"] != "bool":
            continue
        pred = deep_strip(b.term_of_operand(t["d"]))
        if pred[0] != "bin" or pred[1] not in ("Lt", "Le", "Gt", "Ge"):
            continue
        op, x, y = pred[1], pred[2], pred[3]
        kx, ky = const_value(x), const_value(y)
        if ky is not None and accumulator_of(x) is not None:
            acc, k, o = ("phi", accumulator_of(x)), ky, op
        elif kx is not None and accumulator_of(y) is not None:
            acc, k, o = ("phi", accumulator_of(y)), kx, {"Lt": "Gt", "Le": "Ge", "Gt": "Lt", "Ge": "Le"}[op]
        else:
            continue
        # which edge is the error edge?
        for s, lab in b.succs(bi):
            reach = b.reach_from(s, stop_at=errs)
            leads_err_only = all((x_ in errs) or True for x_ in [])  # placeholder
        ef = BranchFacts(b, F).edge_facts(bi)
        for lab, (tt, vv) in ef.items():
            tgt = b.edge_target(bi, lab)
            # continuing edge: does not immediately construct an Err
            r = b.reach_from(tgt)
            only_err = {rr for rr in r if rr in {x_[0] for x_ in return_assignments(b)}} <= errs and bool(
                {rr for rr in r if rr in errs})
            if only_err:
                continue
            # on this edge: acc o k is vv
            if (o == "Ge" and not vv) or (o == "Lt" and vv):
                out[bi] = (acc[1], k - 1)
            elif (o == "Gt" and not vv) or (o == "Le" and vv):
                out[bi] = (acc[1], k)
    return out


def skip_max_total(b, F):
    """Longest uncompressed name ParsedName::skip accepts: the cap on the exit
    (root label) arm bounds the total; the cap on the looping (label) arm
    bounds the length before the root label."""
    caps = _caps(b, F)
    if not caps:
        return None
    cyc = cyclic_blocks(b)
    total = None
    for bi, (loc, mx) in caps.items():
        ef = BranchFacts(b, F).edge_facts(bi)
        loops = False
        errs = {r[0] for r in return_assignments(b) if r[2] == "Err"}
        for s, lab in b.succs(bi):
            r = b.reach_from(s)
            if errs & r and not ({x[0] for x in return_assignments(b) if x[2] != "Err"} & r) and bi not in r:
                continue  # error edge
            if bi in r:
                loops = True
        bound = mx + 1 if loops else mx
        total = bound if total is None else min(total, bound)
    return total


def rule_cap(ctx, F):
    R = "C03.cap"
    ctx.floor(R, 6)
    # parse_ref: accumulated length (without the root label) must stay <= 254 in both phases
    b = F.body("base::name::parsed::ParsedName::<&'a Octs>::parse_ref")
    if ctx.anchor(R, "ParsedName::parse_ref", b):
        caps = _caps(b, F)
        vals = sorted(v for _, v in caps.values())
        ctx.ob(R, b, "two length caps", len(caps) == 2,
               "expected one name-length cap per phase (before / after the first pointer), found %d" % len(caps))
        for bi, (loc, mx) in sorted(caps.items()):
            ctx.ob(R, b, "accumulated length before the root label <= 254 #%d" % (sorted(caps).index(bi) + 1), mx == 254,
                   "parse_ref continues with an accumulated length of up to %d octets; with the root label the "
                   "longest accepted name has %d octets (must be exactly 255)" % (mx, mx + 1), b.where(bi))
        ctx.ob(R, b, "both phases use the same cap", len(set(vals)) <= 1,
               "the two phases of parse_ref cap the name length differently: %s" % vals)
    # skip: total (including root) <= 255
    b = F.one_body(r"^base::name::parsed::ParsedName::<\(\)>::skip$")
    if ctx.anchor(R, "ParsedName::skip", b):
        total = skip_max_total(b, F)
        ctx.ob(R, b, "skip caps at 255", total == 255,
               "ParsedName::skip accepts uncompressed names of up to %s octets; ParsedName::parse accepts exactly 255, "
               "so a message is read differently when a record is skipped and when it is parsed" % total)
    # validators on slices: constants must be the protocol limits
    for rx, nm, want in (
        (r"^base::name::absolute::Name::<\[u8\]>::check_slice$", "Name::check_slice", {255}),
        (r"^base::name::relative::RelativeName::<\[u8\]>::check_slice$", "RelativeName::check_slice", {254}),
    ):
        b = F.one_body(rx)
        if not ctx.anchor(R, nm, b):
            continue
        ks = set()
        for bi in b.reachable_blocks():
            t = b.blocks[bi]["t"]
            if t["k"] == "switch" and t["ty"] == "bool":
                p = deep_strip(b.term_of_operand(t["d"]))
                if p[0] == "bin" and p[1] in ("Gt", "Ge", "Lt", "Le"):
                    for o in (p[2], p[3]):
                        cv = const_value(o)
                        if cv is not None and cv >= 64:
                            ks.add((p[1], cv))
        # accepted maximum: len > K -> Err  => K ; len >= K -> Err => K-1
        acc = set()
        for op, k in ks:
            acc.add(k if op in ("Gt", "Le") else k - 1)
        ctx.ob(R, b, "maximum accepted length", acc == want,
               "%s accepts slices of up to %s octets (limit %s)" % (nm, sorted(acc), sorted(want)))
    # label-type octet classifiers: exactly 0x00..0x3F are normal labels, 0xC0..0xFF pointers
    for rx, nm, subj_pat in (
        (r"^base::name::label::Label::split_from$", "Label::split_from", ("first(", "Some")),
        (r"^base::name::label::Label::split_from_mut$", "Label::split_from_mut", ("first_mut(", "Some")),
        (r"^base::name::parsed::LabelType::parse$", "LabelType::parse", ("parse_u8(", "Continue")),
        (r"^base::name::parsed::LabelType::peek$", "LabelType::peek", ("peek(", "Continue")),
    ):
        b = F.one_body(rx)
        if not ctx.anchor(R, nm, b):
            continue

        def subj(tt, pat=subj_pat):
            tt = deep_strip(tt)
            while tt[0] == "cast":
                tt = deep_strip(tt[2])
            s = show(tt)
            if pat[0] == "peek(":
                return tt[0] == "idx" and const_value(tt[2]) == 0 and "peek(" in s and const_value(
                    deep_strip(tt[1]) if False else ("k", None, "", None)) is None and "(1)" not in s[:0] and _peek_len(tt) == 1
            return pat[0] in s and pat[1] in s and "Index" not in s and "BitAnd" not in s and "idx" != tt[0]
        out = octet_outcomes(b, F, subj)
        normal = set()
        pointer = set()
        for k, s in out.items():
            if k.startswith("Ok") and "Compressed" not in k and "Pointer" not in k:
                normal |= s
            if "Pointer" in k or "Compressed" in k:
                pointer |= s
        # paths not constraining the head (e.g. empty input) carry all 256 values: ignore those
        normal_c = set().union(*[s for k, s in out.items() if k.startswith("Ok") and "Compressed" not in k and len(s) < 256] or [set()])
        pointer_c = set().union(*[s for k, s in out.items() if ("Pointer" in k or "Compressed" in k) and len(s) < 256] or [set()])
        ctx.ob(R, b, "normal label heads == 0x00..0x3F", normal_c == set(range(0x40)),
               "%s treats head octets %s as ordinary labels (a label is at most 63 octets: heads 0x00..0x3F)"
               % (nm, _ranges(normal_c)))
        ctx.ob(R, b, "pointer heads == 0xC0..0xFF", pointer_c == set(range(0xC0, 0x100)),
               "%s treats head octets %s as compression pointers (must be 0xC0..0xFF)" % (nm, _ranges(pointer_c)))


def _peek_len(tt):
    """length argument of the Parser::peek call feeding an indexed octet"""
    for s in walk(tt):
        if s[0] == "call" and s[1] and s[1].endswith("::peek") and len(s[3]) == 2:
            return const_value(s[3][1])
    return None


def _ranges(s):
    out = []
    xs = sorted(s)
    i = 0
    while i < len(xs):
        j = i
        while j + 1 < len(xs) and xs[j + 1] == xs[j] + 1:
            j += 1
        out.append("%#04x..%#04x" % (xs[i], xs[j]) if j > i else "%#04x" % xs[i])
        i = j + 1
    return out


def octet_outcomes(b, F, subject_is):
    """{leaf description: set of octets} for a loop-free (or one-iteration) classifier of one octet.  The leaf
    description is the return kind plus the enum variants constructed for the returned value."""
    parts = byte_partition(b, F, subject_is)
    rets = {rb: (kind, term) for rb, si, kind, term in return_assignments(b)}
    out = {}
    for octs, leaf, path in parts:
        blocks = list(path) + [leaf]
        hit = [x for x in blocks if x in rets]
        if not hit:
            continue
        kind, term = rets[hit[-1]]
        names = []
        if term is not None:
            for s in walk(term):
                if s[0] == "agg" and s[1][0] == "adt" and s[1][1] not in ("core::result::Result", "core::option::Option"):
                    names.append(s[1][2])
        if kind.startswith("call:"):
            # `?` propagation or delegated result
            kind = "Err" if "from_residual" in kind else kind
        # variants built earlier on the path (e.g. `break ptr` values) are found through the term; also
        # record variant aggregates assigned in the path blocks
        for x in blocks:
            for st in b.blocks[x]["s"]:
                if st[0] == "=" and st[2][0] == "agg" and st[2][1][0] == "adt" and st[2][1][1].startswith("base::name::"):
                    if st[2][1][2] not in names:
                        names.append(st[2][1][2])
        key = kind + (":" + "/".join(names) if names else "")
        out.setdefault(key, set())
        out[key] |= octs
    return out


# ---------------------------------------------------------------------------
# unchecked-constructor audit
# ---------------------------------------------------------------------------

VALIDATED = ("base::name::absolute::Name", "base::name::relative::RelativeName", "base::name::label::Label",
             "base::name::label::OwnedLabel", "base::charstr::CharStr", "base::name::uncertain::UncertainName")
VALIDATORS = re.compile(
    r"(::check_slice$|::check_len$|::split_from$|::split_from_mut$|::from_slice$|::from_octets$|::check_append_len$|"
    r"::from_chars$|::check_label$|::is_label_start$|::parse_name_len$|::is_slice_absolute$)")
LEN_LIMIT = {"base::name::label::Label": 63, "base::name::label::OwnedLabel": 63, "base::charstr::CharStr": 255}

# U4: audited call sites relying on an invariant established elsewhere  (fn regex, reason)
FORGE_AUDIT = [
    (r"^base::name::builder::NameBuilder::<Builder>::(finish|into_name|append_origin)", "builder invariant: C03.bld"),
    (r"^base::name::label::Label::(root|wildcard)$", "constant, well-formed labels"),
    (r"^base::name::label::Label::split_from(_mut)?$", "is itself the label validator: head octet classes and length are checked by C03.cap"),
    (r"zonefile::inplace::", "in-place scanner validates label and name lengths while converting (convert_label / scan_name guards; C06/C07 scope)"),
    (r"^base::name::(absolute|relative)::.*::(root|empty|wildcard)(_ref|_vec|_bytes|_slice)?$", "constant names"),
    (r"^base::name::chain::|^<base::name::chain::", "Chain::new / concat check the combined length; flattening composes the labels of valid parts"),
    (r"^base::name::parsed::ParsedNameIter|^base::name::parsed::ParsedName::<Octs>::split_first$", "ParsedName typestate (C01.ts): labels were walked by parse_ref"),
    (r"^<base::name::parsed::ParsedName<Octs> as base::name::traits::FlattenInto", "composes the labels of a validated ParsedName into a fresh builder"),
    (r"^base::name::label::SliceLabelsIter|^<base::name::label::SliceLabelsIter", "split_from result"),
    (r"^base::scan::|^<base::scan::", "scanner: symbols are validated by the NameBuilder they are pushed into"),
    (r"^base::name::(absolute|relative)::.*::(from_symbols|from_chars|scan|from_str)", "via NameBuilder (C03.bld)"),
    (r"^base::name::traits::To(Relative)?Name::(try_to_name|try_to_canonical_name|to_cow|try_to_relative_name|"
     r"try_to_canonical_relative_name|to_name|to_canonical_name|to_vec|to_bytes|to_relative_name|to_canonical_relative_name)",
     "composes every label of a ToName/ToRelativeName value (valid by typestate) into an empty builder"),
    (r"^tsig::Algorithm::to_name$", "fixed algorithm names stored as constant wire slices"),
    (r"^base::charstr::CharStr::<\[u8\]>::empty_slice$", "constant empty string"),
    (r"^base::charstr::CharStrBuilder::<Builder>::finish$", "builder invariant: every append is guarded by len + n <= 255 (C03.bld CharStrBuilder)"),
    (r"^base::charstr::CharStr::<\[u8\]>::parse_slice", "length comes from a single length octet (<= 255) and parse_octets(len) is checked"),
    (r"^base::charstr::CharStr::<Octs>::parse", "length comes from a single length octet (<= 255) and parse_octets(len) is checked"),
]


_VLEN_SEEN = set()


def _validator_len_bound(vb, F, depth=0):
    """largest length a validator lets through: the smallest upper bound on a `.len()` that dominates every Ok return
    (directly, or in a validator it calls with `?`); None if there is none"""
    from rulelib import upper_bounds
    oks = [r[0] for r in return_assignments(vb) if r[2] == "Ok"]
    if not oks:
        return None
    worst = 0
    for ob_ in oks:
        ubs = upper_bounds(vb, ob_, lambda tt: (tt[0] == "call" and (tt[1] or "").endswith("::len")) or tt[0] == "len", F)
        best = min((u[0] - 1 for u in ubs), default=None)
        if best is None and depth < 2:
            for cb_ in succeeded_calls(vb, ob_, F):
                ct = vb.blocks[cb_]["t"]
                if ct["k"] == "call" and VALIDATORS.search(ct["fn"] or ""):
                    inner = F.bodies.get(ct["res"] or "") or F.bodies.get(ct["fn"] or "")
                    if inner is not None and inner.path != vb.path:
                        m2 = _validator_len_bound(inner, F, depth + 1)
                        if m2 is not None:
                            best = m2 if best is None else min(best, m2)
        if best is None:
            return None
        worst = max(worst, best)
    return worst


def rule_forge(ctx, F, R="C03.forge", validated=None, len_limit=None, audit=None, floor=60, min_ctors=10):
    VALIDATED = validated if validated is not None else globals()["VALIDATED"]
    LEN_LIMIT = len_limit if len_limit is not None else globals()["LEN_LIMIT"]
    FORGE_AUDIT = audit if audit is not None else globals()["FORGE_AUDIT"]
    global _CUR_VALIDATED
    _CUR_VALIDATED = VALIDATED
    _VLEN_SEEN.clear()
    try:
        _rule_forge(ctx, F, R, VALIDATED, LEN_LIMIT, FORGE_AUDIT, floor, min_ctors)
    finally:
        _CUR_VALIDATED = None


def _rule_forge(ctx, F, R, VALIDATED, LEN_LIMIT, FORGE_AUDIT, floor, min_ctors):
    ctx.floor(R, floor)
    # unsafe constructors returning a validated type
    ctors = {}
    for p, fn in F.fns.items():
        if not fn["unsafe"]:
            continue
        ret = fn["ret"].replace("&", "").replace("mut ", "").strip()
        if any(ret.startswith(v) or ("<" + v) in ret or ret.startswith("Self") for v in VALIDATED) and any(v in p for v in VALIDATED):
            ctors[p] = fn
    ctx.anchor(R, "unsafe constructors of validated types", len(ctors) >= min_ctors)
    ctx.note("%s: %d unsafe constructors: %s" % (R, len(ctors), sorted(c.split("::")[-1] for c in ctors)[:40]))
    n = 0
    counts = {"U1": 0, "U2": 0, "U3": 0, "U4": 0}
    seen = {}
    for p, b in F.bodies.items():
        if p.startswith(("new::", "<new::")):
            continue
        for bb, t in b.calls():
            callee = t["res"] or t["fn"]
            if t["fn"] not in ctors and callee not in ctors:
                continue
            n += 1
            cname = (t["fn"] or "").split("::")[-1]
            ty = _validated_of(t["fn"])
            k = (p, cname)
            seen[k] = seen.get(k, 0) + 1
            site = "%s::%s#%d" % (ty.split("::")[-1], cname, seen[k])
            # U3: caller is itself unsafe
            root_fn = F.fns.get(b.root or p) or F.fns.get(p)
            if root_fn is not None and root_fn["unsafe"]:
                counts["U3"] += 1
                ctx.ob(R, b, site, True, nontrivial=False, where=b.where(bb), detail="U3: caller is an unsafe fn (obligation propagated)")
                continue
            arg = b.term_of_operand(t["args"][0]) if t["args"] else ("k", None, "", None)
            # U2 through a closure: `validated.octets.try_into().map(|o| unsafe { T::from_octets_unchecked(o) })`
            if b.kind == "Closure" and deep_strip(arg)[0] == "arg":
                pr = _closure_receiver(F, b)
                if pr is not None and _rooted_in_validated(pr[0], pr[1], F):
                    counts["U2"] += 1
                    ctx.ob(R, b, site, True, where=b.where(bb),
                           detail="U2: closure maps the converted octets of an already validated value")
                    continue
            # U1': dominated by a length bound within the type's limit
            lim = LEN_LIMIT.get(ty)
            if lim is not None:
                from rulelib import upper_bounds
                ubs = upper_bounds(b, bb, lambda tt: tt[0] == "call" and (tt[1] or "").endswith("::len"), F)
                if ubs and min(u[0] for u in ubs) - 1 <= lim:
                    counts["U1"] += 1
                    ctx.ob(R, b, site, True, where=b.where(bb), detail="U1: dominated by length bound <= %d" % lim)
                    continue
            # U2: re-wrap of a value of an already validated type
            if _rooted_in_validated(b, arg, F):
                counts["U2"] += 1
                ctx.ob(R, b, site, True, where=b.where(bb), detail="U2: re-wrap of an already validated value (%s)" % show(deep_strip(arg))[:120])
                continue
            # U1: dominated by a checked validator call
            succ = succeeded_calls(b, bb, F)
            val_calls = [vb for vb, vt in b.calls() if vt["fn"] and VALIDATORS.search(vt["fn"]) and vb in succ]
            if val_calls:
                counts["U1"] += 1
                ctx.ob(R, b, site, True, where=b.where(bb),
                       detail="U1: dominated by checked %s" % b.blocks[val_calls[0]]["t"]["fn"].split("::")[-1])
                # the validator relied on has to establish the type's length limit itself
                if lim is not None:
                    for vb_ in val_calls:
                        vt = b.blocks[vb_]["t"]
                        vbody = F.bodies.get(vt["res"] or "") or F.bodies.get(vt["fn"] or "")
                        if vbody is None or (vbody.path, ty) in _VLEN_SEEN:
                            continue
                        _VLEN_SEEN.add((vbody.path, ty))
                        mx = _validator_len_bound(vbody, F)
                        ctx.ob(R, vbody, "validator of %s bounds the length by %d" % (ty.split("::")[-1], lim), mx is not None and mx <= lim,
                               "%s is what %s relies on before it wraps octets as a %s without further checks, but on its success "
                               "exit the length of the octets is %s: a %s longer than %d octets can be built from safe code (composing "
                               "it panics or writes a wrong length octet)"
                               % (vbody.path.split("::")[-1], p.split("::")[-1], ty.split("::")[-1],
                                  "not bounded at all" if mx is None else "bounded by %d only" % mx, ty.split("::")[-1], lim), vbody.where())
                continue
            # value produced by a validator-like call (e.g. result of split_from / from_slice flows in)
            if any(s[0] == "call" and s[1] and VALIDATORS.search(s[1]) for s in walk(deep_strip(arg))):
                counts["U1"] += 1
                ctx.ob(R, b, site, True, where=b.where(bb), detail="U1: argument is the product of a validator call")
                continue
            # U4
            reason = None
            for rx, why in FORGE_AUDIT:
                if re.search(rx, p):
                    reason = why
                    break
            if reason:
                counts["U4"] += 1
                ctx.ob(R, b, site, True, nontrivial=False, where=b.where(bb), detail="U4 audited: " + reason)
                continue
            ctx.ob(R, b, site, False,
                   "safe function forges a %s through %s without a dominating validator call, and the argument "
                   "(%s) is not derived from an already validated value" % (ty.split("::")[-1], cname, show(deep_strip(arg))[:160]),
                   b.where(bb))
    ctx.call_sites += n
    ctx.extra.setdefault("coverage", {})["forge_classes"] = counts


RAW_AUDIT = [
    (r"^base::name::label::OwnedLabel::from_chars$", "appends at most 63 checked octets into a zeroed [u8; 64] (C06.label scope: LongLabel guard before every store)"),
    (r"^base::name::label::OwnedLabel::from_label$", "copies the octets of a &Label (validated) into the array"),
    (r"^base::charstr::CharStr::<Octs>::empty$", "constant empty string"),
    (r"^base::name::uncertain::UncertainName::<Octets>::(empty|root)$", "constant names"),
]


def rule_raw(ctx, F):
    R = "C03.raw"
    ctx.floor(R, 15)
    n = 0
    for p, b in sorted(F.bodies.items()):
        if "::test" in p or p.startswith(("new::", "<new::")):
            continue
        fn = F.fns.get(b.root or p) or F.fns.get(p)
        k = 0
        for bi in sorted(b.reachable_blocks()):
            for st in b.blocks[bi]["s"]:
                if st[0] != "=":
                    continue
                rv = st[2]
                if not (rv[0] == "agg" and rv[1][0] == "adt" and rv[1][1] in VALIDATED):
                    continue
                n += 1
                k += 1
                ty = rv[1][1].split("::")[-1]
                site = "%s literal #%d" % (ty, k)
                if fn is not None and fn["unsafe"]:
                    ctx.ob(R, b, site, True, nontrivial=False, where=b.where(bi), detail="inside an unsafe fn (obligation on the caller: C03.forge)")
                    continue
                ops = [b.term_of_operand(o) for o in rv[2]]
                if ops and all(_rooted_in_validated(b, o, F) or const_value(deep_strip(o)) is not None for o in ops):
                    ctx.ob(R, b, site, True, where=b.where(bi), detail="built from an already validated value")
                    continue
                succ = succeeded_calls(b, bi, F)
                if any(vt["fn"] and VALIDATORS.search(vt["fn"]) and vb in succ for vb, vt in b.calls()):
                    ctx.ob(R, b, site, True, where=b.where(bi), detail="behind a checked validator call")
                    continue
                why = next((w for rx, w in RAW_AUDIT if re.search(rx, p)), None)
                if why:
                    ctx.ob(R, b, site, True, nontrivial=False, where=b.where(bi), detail="audited: " + why)
                    continue
                ctx.ob(R, b, site, False,
                       "safe code builds a %s directly from %s: no validator, not derived from a validated value and not "
                       "inside an unsafe fn -- a value of the type that breaks its invariants is obtainable through the "
                       "safe API" % (ty, "; ".join(show(deep_strip(o))[:80] for o in ops) or "nothing"), b.where(bi))
    ctx.call_sites += n
    # the project's convention: constructors that skip validation say so in their name and are `unsafe fn`
    m = 0
    for p, fn in sorted(F.fns.items()):
        if "unchecked" not in fn["name"] or p.startswith(("new::", "<new::")):
            continue
        if not any(v in p for v in VALIDATED):
            continue
        m += 1
        ctx.ob(R, p, "`%s` is an unsafe fn" % fn["name"], bool(fn["unsafe"]),
               "%s skips validation by its own name but is a safe fn: any caller can build an invalid value without writing "
               "`unsafe`" % p)
    ctx.anchor(R, "unchecked constructors of the validated name types", m >= 8)


_CUR_VALIDATED = None


def _cur():
    return _CUR_VALIDATED if _CUR_VALIDATED is not None else VALIDATED


def _validated_of(fn):
    for v in _cur():
        if fn and v in fn:
            return v
    return "?"


def _is_validated_ty(ty):
    if not ty:
        return False
    s = ty.replace("&", " ").replace("mut ", " ")
    s = re.sub(r"'\w+", " ", s).strip()
    # the type itself, not an item defined inside one of its methods (`Nsec3Salt<Octs>::scan::Converter`)
    return any(re.match(r"^%s(<.*>)?$" % re.escape(v), s) is not None or s.startswith(v + " ") for v in _cur())


def _term_type(b, s, F):
    if s[0] == "arg":
        return b.locals[s[1]]
    if s[0] == "call" and isinstance(s[5], int):
        dest = b.blocks[s[5]]["t"].get("dest")
        if dest and len(dest) == 1:
            return b.locals[dest[0]]
    if s[0] in ("phi", "local") and s[1] >= 0:
        return b.locals[s[1]]
    if s[0] == "field" and F is not None:
        base = _term_type(b, deep_strip(s[1]), F)
        if base:
            adt = re.sub(r"<.*$", "", base.replace("&", "").replace("mut ", "").strip())
            adt = re.sub(r"^'\w+ ", "", adt)
            a = F.adts.get(adt)
            if a and len(a["variants"]) == 1:
                for f in a["variants"][0]["fields"]:
                    if f["name"] == str(s[2]):
                        return f["ty"]
    return None


def _rooted_in_validated(b, term, F=None):
    """The argument is derived (field/as_ref/as_slice/deref/slicing by validated split positions...) from a
    value whose static type is a validated type."""
    for s in walk(deep_strip(term)):
        if _is_validated_ty(_term_type(b, s, F)):
            return True
    return False


def _closure_receiver(F, cb):
    """(parent body, receiver term) of the map/and_then-like call the closure is passed to."""
    for pp, pb in F.bodies.items():
        if not (pp == cb.root or cb.path.startswith(pp + "::{closure")):
            continue
        for bi in pb.reachable_blocks():
            t = pb.blocks[bi]["t"]
            if t["k"] != "call" or len(t["args"]) < 2:
                continue
            a1 = deep_strip(pb.term_of_operand(t["args"][1]))
            if a1[0] == "agg" and a1[1][0] == "closure" and a1[1][1] == cb.path:
                return pb, pb.term_of_operand(t["args"][0])
    return None


# ---------------------------------------------------------------------------
# Display / reader escape agreement (finite decision tree over one octet)
# ---------------------------------------------------------------------------

def byte_partition(b, F, subject_is):
    """Enumerate paths of a loop-free octet classifier.  Returns list of (set_of_octets, leaf_block) where
    the set is what the comparisons along the path allow for the classified octet.  Conditions understood:
    integer compares with constants, Range::contains, is_ascii*, matches on constants."""
    res = []
    ALL = set(range(256))

    def cond_set(t, v):
        """set of octets for which bool term t == v, or None if t does not constrain the subject"""
        t = deep_strip(t)
        if t[0] == "un" and t[1] == "Not":
            return cond_set(t[2], not v)
        s = None
        if t[0] == "bin" and t[1] in ("Eq", "Ne", "Lt", "Le", "Gt", "Ge"):
            x, y = deep_strip(t[2]), deep_strip(t[3])
            kx, ky = const_value(x), const_value(y)
            if ky is not None and subject_is(x):
                s = {o for o in ALL if _cmp(o, t[1], ky)}
            elif kx is not None and subject_is(y):
                s = {o for o in ALL if _cmp(kx, t[1], o)}
        elif t[0] == "call" and t[1]:
            fn = t[1]
            if re.search(r"PartialEq(<.*>)?::(eq|ne)$|::(eq|ne)$", fn) and len(t[3]) == 2:
                # `subject == CONST` through PartialEq (newtype constants such as the int_enum! types)
                x, y = deep_strip(t[3][0]), deep_strip(t[3][1])
                kx, ky = const_value(x), const_value(y)
                k_ = ky if (ky is not None and subject_is(x)) else kx if (kx is not None and subject_is(y)) else None
                if isinstance(k_, int) and not isinstance(k_, bool):
                    s = {k_} & ALL
                    if fn.endswith("ne"):
                        s = ALL - s
            elif fn.endswith("::contains") and len(t[3]) == 2 and subject_is(deep_strip(t[3][1])):
                rng = deep_strip(t[3][0])
                if rng[0] == "agg" and str(rng[1][1]).endswith("::Range"):
                    lo, hi = const_value(rng[2][0]), const_value(rng[2][1])
                    if lo is not None and hi is not None:
                        s = set(range(lo, hi))
                elif rng[0] == "call" and "RangeInclusive" in (rng[1] or ""):
                    lo, hi = const_value(rng[3][0]), const_value(rng[3][1])
                    if lo is not None and hi is not None:
                        s = set(range(lo, hi + 1))
            elif t[3] and subject_is(deep_strip(t[3][0])):
                last = fn.split("::")[-1]
                table = {
                    "is_ascii": set(range(128)),
                    "is_ascii_graphic": set(range(0x21, 0x7F)),
                    "is_ascii_alphanumeric": {o for o in ALL if chr(o).isalnum() and o < 128},
                    "is_ascii_digit": set(range(0x30, 0x3A)),
                    "is_ascii_control": set(range(0x20)) | {0x7F},
                    "is_ascii_whitespace": {0x20, 0x09, 0x0A, 0x0C, 0x0D},
                    "is_ascii_punctuation": {o for o in range(0x21, 0x7F) if not chr(o).isalnum()},
                }
                if last in table:
                    s = table[last]
        if s is None:
            return None
        return s if v else ALL - s

    bf = BranchFacts(b, F)

    def dfs(bb, cur, onpath, env=None):
        if not cur:
            return
        # boolean flags set to constants on this path (`matches!` lowers to a switch on the octet that
        # sets a temporary to true/false, followed by a switch on the temporary)
        env = dict(env or {})
        for st in b.blocks[bb]["s"]:
            if st[0] == "=" and len(st[1]) == 1:
                rv = st[2]
                if rv[0] == "use" and rv[1][0] == "k" and rv[1][1] == "bool" and rv[1][2] in (0, 1, True, False):
                    env[st[1][0]] = 1 if rv[1][2] in (1, True) else 0
                else:
                    env.pop(st[1][0], None)
        t = b.blocks[bb]["t"]
        succs = b.succs(bb)
        if t["k"] == "ret" or not succs:
            res.append((cur, bb, tuple(onpath)))
            return
        if t["k"] == "switch":
            ef = bf.edge_facts(bb)
            d = deep_strip(b.term_of_operand(t["d"]))
            went = False
            known = None
            if t["ty"] == "bool" and t["d"][0] in ("c", "m") and len(t["d"][1]) == 1 and t["d"][1][0] in env:
                known = env[t["d"][1][0]]
            for s, lab in succs:
                if s in onpath:
                    continue
                if known is not None:
                    listed = [v for v, _ in t["v"]]
                    takes = (lab == ("v", known)) or (lab == ("o",) and known not in listed)
                    if not takes:
                        continue
                went = True
                nxt = cur
                if t["ty"] == "bool" and lab in ef:
                    cs = cond_set(ef[lab][0], ef[lab][1])
                    if cs is not None:
                        nxt = cur & cs
                elif t["ty"] != "bool" and subject_is(d):
                    listed = {v for v, _ in t["v"]}
                    if lab == ("o",):
                        nxt = cur - listed
                    else:
                        nxt = cur & {lab[1]}
                dfs(s, nxt, onpath + [bb], env)
            if not went:
                res.append((cur, bb, tuple(onpath)))
            return
        went = False
        for s, lab in succs:
            if s not in onpath:
                went = True
                dfs(s, cur, onpath + [bb], env)
        if not went:
            res.append((cur, bb, tuple(onpath)))  # loop back-edge: one iteration classified

    dfs(0, ALL, [])
    return res


def _cmp(a, op, c):
    return {"Eq": a == c, "Ne": a != c, "Lt": a < c, "Le": a <= c, "Gt": a > c, "Ge": a >= c}[op]


def rule_esc(ctx, F):
    R = "C03.esc"
    ctx.floor(R, 3)
    # writer: <Label as Display>::fmt — per octet: raw write_char vs escaped write
    w = F.one_body(r"^<base::name::label::Label as core::fmt::Display>::fmt$")
    r = F.one_body(r"^base::scan::Symbol::into_octet$")
    if not (ctx.anchor(R, "<Label as Display>::fmt", w) and ctx.anchor(R, "Symbol::into_octet", r)):
        return
    raw = _writer_raw_set(w, F)
    acc = _reader_plain_set(r, F)
    # not vacuous: letters and digits are certainly printed as they are
    if raw is not None and not ctx.anchor(R, "octet classification of <Label as Display>::fmt (letters and digits printed raw)",
                                          set(b"abcxyzABCXYZ0189-_") <= raw, w.where()):
        return
    if raw is None or acc is None:
        ctx.ob(R, w, "shape", False, "writer/reader octet classifier shape not recognised (raw=%s acc=%s)"
               % (raw is not None, acc is not None))
        return
    special = {ord("."), ord("\\")}
    bad = sorted(o for o in raw if o not in acc)
    ctx.ob(R, w, "raw octets accepted unescaped by the reader", not bad,
           "Label's Display prints octets %s without escaping, but the presentation-format reader "
           "(Symbol::into_octet) does not accept them as plain characters: text -> name fails or changes"
           % [hex(o) for o in bad[:12]], detail="raw=%d octets, reader-plain=%d octets" % (len(raw), len(acc)))
    bad2 = sorted(o for o in raw if o in special)
    ctx.ob(R, w, "label separators and the escape character are escaped", not bad2,
           "Label's Display prints %s raw: the name would read back with different labels" % [chr(o) for o in bad2])
    # characters that make the reader take a whole entry for something else when they open it (`$` directive)
    se = F.one_body(r"^zonefile::inplace::EntryScanner::<'a>::_scan_entry$")
    if ctx.anchor(R, "EntryScanner::_scan_entry", se):
        openers = set()
        for bi in se.reachable_blocks():
            for st in se.blocks[bi]["s"]:
                if st[0] == "=" and st[2][0] == "agg" and st[2][1][0] == "adt" and str(st[2][1][1]).endswith("scan::Symbol") \
                        and st[2][1][2] == "Char" and st[2][2] and st[2][2][0][0] == "k" and isinstance(st[2][2][0][2], int):
                    openers.add(st[2][2][0][2])
        bad3 = sorted(o for o in openers if o in raw)
        ctx.ob(R, w, "characters that open a directive are escaped", bool(openers) and not bad3,
               "Label's Display prints %s raw; at the start of an entry the reader takes a token beginning with it for a control "
               "directive, so a record whose owner name starts with it does not read back" % [chr(o) for o in bad3],
               detail="entry openers recognised by the reader: %s" % [chr(o) for o in sorted(openers)])
    ctx.ob(R, r, "reader accepts exactly printable ASCII unescaped", acc == set(range(0x20, 0x7F)),
           "Symbol::into_octet accepts %d plain characters (expected the 95 printable ASCII characters)" % len(acc),
           nontrivial=True)
    ctx.extra.setdefault("coverage", {})["label_display_raw_octets"] = len(raw)


def _writer_raw_set(w, F, subject_is=None, depth=0):
    """Octets for which the per-octet body reaches a write_char/`write!("{}", ch as char)` of the octet itself
    rather than an escape.  The per-octet code is either the body of a `for` loop over the label's octets or
    a closure handed to an iterator adaptor (`iter().try_for_each(|ch| ..)`)."""
    # the loop variable: element of the label's octets (deref of the iterator item)
    if subject_is is None:
        def subject_is(t):
            t = deep_strip(t)
            while t[0] == "cast":
                t = deep_strip(t[2])
            s = show(t)
            return ("Iterator::next" in s or "next(" in s) and "Some" in s
        res = _writer_raw_set(w, F, subject_is, depth)
        if res:
            return res
        if depth < 2:
            from mirlib import closures_created_in
            for bi, cb, ops in closures_created_in(F, w):
                def item(t):
                    t = deep_strip(t)
                    while t[0] == "cast":
                        t = deep_strip(t[2])
                    return t == ("arg", 2)
                res = _writer_raw_set(cb, F, item, depth + 1)
                if res:
                    return res
        return res
    parts = byte_partition(w, F, subject_is)
    if not parts:
        return None
    raw = set()
    esc = set()
    for octs, leaf, path in parts:
        wrote = None
        for bb in list(path) + [leaf]:
            t = w.blocks[bb]["t"]
            if t["k"] != "call" or not t["fn"]:
                continue
            if t["fn"].endswith("write_char"):
                a = deep_strip(w.term_of_operand(t["args"][1]))
                wrote = "raw" if (const_value(a) is None and wrote is None) else "esc"
            elif re.match(r"core::fmt::Arguments::<'\w+>::new", t["fn"]):
                tpl = t["args"][0]
                bytes_ = None
                tt = w.term_of_operand(tpl)
                for s in walk(tt):
                    if s[0] == "k" and isinstance(s[1], list):
                        bytes_ = s[1]
                literal = bytes_ is None or (len(bytes_) > 0 and 0 < bytes_[0] < 0x80)
                is_char = any(tb == bb2 for tb in [0] for bb2 in [0]) or True
                shows_char = False
                for bb2 in path:
                    t2 = w.blocks[bb2]["t"]
                    if t2["k"] == "call" and t2["fn"] and "Argument::<'_>::new_display" in t2["fn"] and t2["targs"][:1] == ["char"]:
                        shows_char = True
                wrote = "raw" if (not literal and shows_char and wrote is None) else "esc"
            elif t["fn"].endswith("write_str"):
                wrote = "esc"
        if wrote == "raw":
            raw |= octs
        elif wrote == "esc":
            esc |= octs
    if not raw and not esc:
        return None
    return raw - esc


def _reader_plain_set(r, F):
    """Characters c for which Symbol::Char(c).into_octet() is Ok."""
    def subject_is(t):
        t = deep_strip(t)
        while t[0] == "cast":
            t = deep_strip(t[2])
        s = show(t)
        return "as Char" in s
    parts = byte_partition(r, F, subject_is)
    if not parts:
        return None
    ok = set()
    rets = {rb: kind for rb, si, kind, term in return_assignments(r)}
    char_blocks = set()
    for bi, blk in enumerate(r.blocks):
        for st in blk["s"]:
            if st[0] == "=" and '"as", "Char"' in __import__("json").dumps(st[2]):
                char_blocks.add(bi)
    for octs, leaf, path in parts:
        blocks = list(path) + [leaf]
        if not (set(blocks) & char_blocks):
            continue  # escape arms: any octet is fine there
        kinds = [rets[bb] for bb in blocks if bb in rets]
        if kinds and kinds[-1] == "Ok":
            ok |= octs
    return ok


# ---------------------------------------------------------------------------
# ParsedName.compressed provenance
# ---------------------------------------------------------------------------

def rule_flag(ctx, F):
    """as_flat_slice()/to_cow()/flatten/compose take the octets from `pos` for
    `name_len` octets verbatim when `compressed` is false.  parse_ref may
    therefore report `compressed: false` only if no pointer was followed
    after the first counted label."""
    R = "C03.flag"
    ctx.floor(R, 3)
    b = F.body("base::name::parsed::ParsedName::<&'a Octs>::parse_ref")
    if not ctx.anchor(R, "ParsedName::parse_ref", b):
        return
    aggs = []
    for bi in sorted(b.reachable_blocks()):
        for st in b.blocks[bi]["s"]:
            if st[0] == "=" and st[2][0] == "agg" and st[2][1][0] == "adt" and st[2][1][1] == "base::name::parsed::ParsedName":
                fields = st[2][1][3]
                if "compressed" in fields:
                    aggs.append((bi, st[2][2][fields.index("compressed")]))
    if not ctx.anchor(R, "ParsedName constructions in parse_ref", len(aggs) >= 2, b.where()):
        return
    seeks = [bb for bb, t in b.calls_matching(r"Parser::<.*>::seek$")]
    ctx.anchor(R, "pointer follow (Parser::seek) in parse_ref", len(seeks) >= 1, b.where())
    # edges on which a compression pointer was read
    ptr_edges = []
    bf = BranchFacts(b, F)
    for sw in sorted(b.reachable_blocks()):
        if b.blocks[sw]["t"]["k"] != "switch":
            continue
        for lab, (tt, vv) in bf.edge_facts(sw).items():
            if isinstance(vv, tuple) and vv == ("variant", "Compressed"):
                ptr_edges.append((sw, lab, b.edge_target(sw, lab)))
    ctx.anchor(R, "LabelType::Compressed arms in parse_ref", len(ptr_edges) >= 2, b.where())
    for bi, op in aggs:
        if op[0] == "k":
            val = op[2]
            if val in (0, False):
                # constant false: no pointer can have been followed on the way here
                after = any(bi in b.reach_from(s) for s in seeks)
                ctx.ob(R, b, "compressed: false literal only before any pointer is followed", not after,
                       "parse_ref builds a ParsedName with compressed: false on a path that already followed a "
                       "compression pointer", b.where(bi))
            continue
        loc = op[1][0]
        for _ in range(4):   # follow the copy made for the struct expression back to the variable
            ds = b.defs().get(loc, [])
            if len(ds) == 1 and ds[0][0] == "stmt" and ds[0][3][0] == "use" and ds[0][3][1][0] in ("c", "m") and len(ds[0][3][1][1]) == 1:
                loc = ds[0][3][1][1][0]
            else:
                break
        sets_true = set()
        sets_false = []
        for bj in sorted(b.reachable_blocks()):
            for st in b.blocks[bj]["s"]:
                if st[0] == "=" and st[1] == [loc] and st[2][0] == "use" and st[2][1][0] == "k":
                    if st[2][1][2] in (1, True):
                        sets_true.add(bj)
                    else:
                        sets_false.append(bj)
        ctx.anchor(R, "assignments to the compressed flag", bool(sets_true), b.where(bi))
        for (sw, lab, tgt) in ptr_edges:
            reach = {tgt} if tgt in sets_true else b.reach_from(tgt, removed_blocks=sets_true)
            bad = [s for s in seeks if s in reach and tgt not in sets_true]
            ctx.ob(R, b, "pointer read in bb-arm#%d sets compressed before the next seek" % (ptr_edges.index((sw, lab, tgt)) + 1), not bad,
                   "a compression pointer is followed (Parser::seek) on a path from a LabelType::Compressed arm that "
                   "does not set `compressed = true`: the name is reported as stored contiguously and "
                   "as_flat_slice()/compose() hand out raw message octets including the pointer", b.where(tgt))
        for bj in sets_false:
            zero = any(tt[0] == "bin" and tt[1] == "Eq" and vv is True and const_value(tt[3]) == 0 for tt, vv in bool_facts(b, bj, F))
            ctx.ob(R, b, "compressed cleared only while no label has been counted", zero,
                   "parse_ref clears `compressed` without a dominating name_len == 0", b.where(bj))


# ---------------------------------------------------------------------------
# Name::slice / range bounds
# ---------------------------------------------------------------------------

def rule_bounds(ctx, F):
    R = "C03.bounds"
    ctx.floor(R, 3)
    b = F.one_body(r"^base::name::absolute::Name::<Octs>::check_bounds$")
    if not ctx.anchor(R, "Name::check_bounds", b):
        return
    bf = BranchFacts(b, F)
    rets = set(b.return_blocks())
    found = 0
    for sw in sorted(b.reachable_blocks()):
        if b.blocks[sw]["t"]["k"] != "switch":
            continue
        subj = b.term_of_operand(b.blocks[sw]["t"]["d"])
        names = [s[1] for s in walk(subj) if s[0] == "call" and s[1]]
        if not any(n.endswith("RangeBounds::end_bound") for n in names):
            continue
        for lab, (tt, vv) in bf.edge_facts(sw).items():
            if not (isinstance(vv, tuple) and vv[0] == "variant"):
                continue
            tgt = b.edge_target(sw, lab)
            reach = b.reach_from(tgt)
            if vv[1] == "Unbounded":
                found += 1
                ctx.ob(R, b, "open-ended range is refused", not (rets & reach),
                       "Name::check_bounds returns normally for a range without an end: Name::slice(n..)/range(n..) "
                       "then wrap octets that include the root label in a RelativeName", b.where(tgt))
            elif vv[1] in ("Included", "Excluded"):
                found += 1
                chk = [bb for bb, t in b.calls_matching(r"Name::<Octs>::check_index$") if bb in reach]
                ok = bool(chk) and not (rets & b.reach_from(tgt, removed_blocks=chk))
                ctx.ob(R, b, "%s end is checked to be a label start" % vv[1].lower(), ok,
                       "Name::check_bounds accepts an %s end bound without check_index" % vv[1].lower(), b.where(tgt))
    ctx.anchor(R, "end-bound match in Name::check_bounds", found >= 3, b.where())
    # slice/range call it before wrapping
    for fn in ("slice", "range"):
        sb = F.one_body(r"^base::name::absolute::Name::<Octs>::%s$" % fn)
        if ctx.anchor(R, "Name::%s" % fn, sb):
            cb = [bb for bb, t in sb.calls_matching(r"Name::<Octs>::check_bounds$")]
            mk = [bb for bb, t in sb.calls_matching(r"RelativeName::<.*>::from_(slice|octets)_unchecked$")]
            ok = bool(cb) and bool(mk) and all(sb.dominates(cb[0], m) for m in mk)
            ctx.ob(R, sb, "bounds checked before the unchecked constructor", ok,
                   "Name::%s builds a RelativeName without a dominating check_bounds" % fn)


# ---------------------------------------------------------------------------
# end_label is called while the label start is still known
# ---------------------------------------------------------------------------

def rule_endl(ctx, F):
    R = "C03.endl"
    ctx.floor(R, 5)
    n = 0
    for p, b in sorted(F.bodies.items()):
        if not p.startswith(NB) or b.kind != "AssocFn":
            continue
        ends = [bb for bb, t in b.calls_matching(r"NameBuilder::<Builder>::end_label$")]
        if not ends or p.endswith("::end_label"):
            continue
        clears = []
        for bi in sorted(b.reachable_blocks()):
            t = b.blocks[bi]["t"]
            if t["k"] == "call" and re.search(r"Option::<.*>::take$|mem::take$|mem::replace$", t["fn"] or "") and t["args"]:
                a = deep_strip(b.term_of_operand(t["args"][0]))
                if a[0] == "field" and a[2] == "head" and deep_strip(a[1]) == ("arg", 1):
                    clears.append((bi, "take"))
            for st in b.blocks[bi]["s"]:
                if st[0] == "=" and len(st[1]) >= 2 and isinstance(st[1][-1], list) and st[1][-1][0] == "." and st[1][-1][2] == "head" \
                        and st[1][0] == 1:
                    rv = deep_strip(b.term_of_rvalue(st[2]))
                    if rv[0] == "agg" and rv[1][:3] == ("adt", "core::option::Option", "None"):
                        clears.append((bi, "= None"))
        for e in ends:
            n += 1
            bad = [(bi, how) for bi, how in clears if e in b.reach_from(bi) and e != bi]
            ctx.ob(R, b, "end_label#%d sees the label start" % (ends.index(e) + 1), not bad,
                   "%s clears self.head (%s) before calling end_label(): end_label finds no label to end and the "
                   "length octet of the label under construction stays 0 — the finished name contains a root label "
                   "in the middle" % (p.split("::")[-1], ", ".join(h for _, h in bad)), b.where(e))
    ctx.call_sites += n


def run_thorough(ctx):
    # type-level part of the property: compile-fail witnesses (rules/witness.py)
    import witness
    witness.run(ctx, "C03")


# ---------------------------------------------------------------------------
# C03.cut: in-place truncation only at label boundaries
# ---------------------------------------------------------------------------

def rule_cut(ctx, F):
    R = "C03.cut"
    ctx.floor(R, 4)
    n = 0
    for p, b in sorted(F.bodies.items()):
        if not re.match(r"^<?base::name::(absolute|relative|uncertain|chain)::", p) or "::test" in p:
            continue
        for bb, tt in b.calls():
            if not re.search(r"Truncate::truncate$", tt["fn"] or ""):
                continue
            recv = deep_strip(b.term_of_operand(tt["args"][0]))
            if not (recv[0] == "field" and recv[2] in ("0", 0)):
                continue
            n += 1
            idx = deep_strip(b.term_of_operand(tt["args"][1]))
            why = None
            # (a) check_index(idx) dominates
            for cb, ct in b.calls():
                if re.search(r"::check_index$", ct["fn"] or "") and b.dominates(cb, bb) and len(ct["args"]) >= 2 and \
                        deep_strip(b.term_of_operand(ct["args"][1])) == idx:
                    why = "check_index"
            # (b) label-wise suffix test, cut at len - compose_len(base)
            if why is None and idx[0] == "bin" and idx[1] in ("Sub", "SubUnchecked"):
                rhs = deep_strip(idx[3])
                lhs = deep_strip(idx[2])
                if rhs[0] == "call" and (rhs[1] or "").endswith("::compose_len") and lhs[0] == "call" and (lhs[1] or "").endswith("::len"):
                    base = deep_strip(rhs[3][0])
                    for tm, v in bool_facts(b, bb, F):
                        tm = deep_strip(tm)
                        if v is True and tm[0] == "call" and re.search(r"::ends_with$", tm[1] or "") and len(tm[3]) == 2 and deep_strip(tm[3][1]) == base:
                            why = "ends_with"
                # (c) the root label of an absolute name
                if why is None and const_value(rhs) == 1 and lhs[0] == "call" and (lhs[1] or "").endswith("::len") and "absolute::Name" in p:
                    why = "root label"
            ctx.ob(R, b, "truncation at a label boundary (%s)" % (why or "unjustified"), why is not None,
                   "%s truncates the name's octets at an index that is not known to be a label boundary (no check_index for it, no "
                   "label-wise ends_with for the suffix removed): an octet-wise match can end inside a label, and what is left is "
                   "a label cut short -- an invalid RelativeName from safe code" % p.split("::")[-1], b.where(bb))
    ctx.call_sites += n
