"""Compile-fail witnesses (thorough tier): the type-level part of a property.

`witness/src/lib.rs` holds doctests named after the property.  A doctest
marked `compile_fail,E....` must fail to build with exactly that error code
against the *current* tree (nightly rustdoc honours the code); the twin right
behind it, which differs only in the offending line, must build -- a witness
whose path is merely wrong also "fails to compile".  Nothing is executed
(`no_run`).  The deciding step is the compiler's type and safety checking.
"""
import os
import re
import shutil
import subprocess

import extract

HERE = os.path.dirname(os.path.abspath(__file__))
SRC = os.path.join(os.path.dirname(HERE), "witness")


def run(ctx, prefix):
    R = "%s.witness" % prefix
    crate = os.path.join(extract.CACHE, "witness-crate")
    shutil.rmtree(crate, ignore_errors=True)
    os.makedirs(os.path.join(crate, "src"))
    toml = open(os.path.join(SRC, "Cargo.toml")).read().replace('path = "/repo"', 'path = "%s"' % extract.REPO)
    open(os.path.join(crate, "Cargo.toml"), "w").write(toml)
    shutil.copy(os.path.join(SRC, "src", "lib.rs"), os.path.join(crate, "src", "lib.rs"))
    lock = os.path.join(extract.REPO, "Cargo.lock")
    if os.path.exists(lock):
        shutil.copy(lock, os.path.join(crate, "Cargo.lock"))
    env = dict(os.environ, CARGO_TARGET_DIR=os.path.join(extract.CACHE, "witness-target"), CARGO_NET_OFFLINE="true")
    env.pop("RUSTC_WORKSPACE_WRAPPER", None)
    env.pop("RUSTFLAGS", None)
    r = subprocess.run(["cargo", "+nightly", "test", "--doc", "--offline", "--", prefix], cwd=crate, env=env,
                       stdout=subprocess.PIPE, stderr=subprocess.STDOUT, text=True)
    seen = 0
    for m in re.finditer(r"^test src/lib\.rs - (\w+) \(line (\d+)\)( - compile fail| - compile)? \.\.\. (ok|FAILED)", r.stdout, re.M):
        name, line, cf, res = m.group(1), m.group(2), (m.group(3) or "").endswith("fail"), m.group(4)
        if not name.startswith(prefix):
            continue
        seen += 1
        if cf:
            ctx.ob(R, "witness::" + name, "does not compile (expected error code)", res == "ok",
                   "the witness %s now compiles, or fails with a different error: the type-level guarantee it stands for "
                   "is gone (see witness/src/lib.rs)" % name, "witness/src/lib.rs:%s" % line)
        else:
            ctx.ob(R, "witness::" + name, "twin compiles", res == "ok",
                   "the compiling twin of witness %s no longer builds: the witness next to it proves nothing (API moved?)"
                   % name, "witness/src/lib.rs:%s" % line, nontrivial=False)
    ctx.ob(R, "witness", "witnesses ran", seen >= 2 and "test result:" in r.stdout,
           "the witness crate did not build or ran no %s doctest:\n%s" % (prefix, r.stdout[-600:]), nontrivial=False,
           detail="%d doctest(s) for %s" % (seen, prefix))
    ctx.note("%s: %d compile-fail witness doctest(s) run with cargo +nightly test --doc" % (R, seen))
