"""Fact extraction: run the domain-facts driver over /repo's current working
tree and return the path of the JSONL fact file.

The fact file is content-addressed by a hash of every file that can influence
the build (src/, macros/, Cargo.toml, Cargo.lock) plus the driver binary, so
several checks run against the same tree share one extraction, while any edit
to /repo forces a new one.  Fails closed (CheckError) when the tree does not
compile under the analysed feature set or the fact file is missing/short.
"""
import fcntl
import hashlib
import os
import shutil
import subprocess
import sys
import time

VERIF = os.path.dirname(os.path.dirname(os.path.abspath(__file__)))
REPO = os.environ.get("VERIF_REPO", "/repo")
CACHE = os.environ.get("VERIF_CACHE", os.path.join(VERIF, ".cache"))
DRIVER = os.environ.get("VERIF_DRIVER", os.path.join(VERIF, "driver", "target", "release", "domain-facts"))

# feature configurations analysed
CONFIGS = {
    "all": ["--all-features"],
    "default": [],
}
# minimum number of MIR bodies expected per configuration (counted on the
# pinned tree: all=12845, default=4569; floors leave room for refactoring
# but catch an extraction that silently skipped most of the crate)
BODY_FLOOR = {"all": 11000, "default": 3500}


class CheckError(Exception):
    pass


def _sysroot():
    return subprocess.check_output(
        ["rustc", "+nightly", "--print", "sysroot"], text=True
    ).strip()


def ensure_driver():
    if os.path.exists(DRIVER):
        return
    r = subprocess.run(
        ["cargo", "build", "--release", "--offline"],
        cwd=os.path.join(VERIF, "driver"),
        stdout=subprocess.PIPE,
        stderr=subprocess.STDOUT,
        text=True,
    )
    if r.returncode != 0 or not os.path.exists(DRIVER):
        raise CheckError("driver build failed:\n" + r.stdout[-3000:])


def tree_hash(repo=REPO):
    h = hashlib.sha256()
    roots = ["src", "macros"]
    files = []
    for root in roots:
        for d, dirs, fs in os.walk(os.path.join(repo, root)):
            dirs[:] = [x for x in dirs if x != "target"]
            for f in fs:
                files.append(os.path.join(d, f))
    for f in ("Cargo.toml", "Cargo.lock"):
        files.append(os.path.join(repo, f))
    files.sort()
    for f in files:
        try:
            with open(f, "rb") as fh:
                data = fh.read()
        except OSError:
            continue
        h.update(os.path.relpath(f, repo).encode())
        h.update(b"\0")
        h.update(hashlib.sha256(data).digest())
    with open(DRIVER, "rb") as fh:
        h.update(hashlib.sha256(fh.read()).digest())
    return h.hexdigest()[:24]


def facts_file(config="all", repo=REPO, verbose=True):
    """Return (path, seconds_spent, cached?)."""
    ensure_driver()
    os.makedirs(os.path.join(CACHE, "facts"), exist_ok=True)
    th = tree_hash(repo)
    out = os.path.join(CACHE, "facts", "%s-%s.jsonl" % (th, config))
    lock = open(os.path.join(CACHE, "lock-%s" % config), "w")
    fcntl.flock(lock, fcntl.LOCK_EX)
    try:
        if os.path.exists(out) and _complete(out, config):
            return out, 0.0, True
        t0 = time.time()
        target = os.path.join(CACHE, "target-%s" % config)
        fp = os.path.join(target, "debug", ".fingerprint")
        if os.path.isdir(fp):
            # cargo's freshness cache would skip the wrapper: drop the
            # fingerprints of the workspace members.
            for d in os.listdir(fp):
                if d.startswith("domain-"):
                    shutil.rmtree(os.path.join(fp, d), ignore_errors=True)
        tmp = out + ".tmp"
        if os.path.exists(tmp):
            os.remove(tmp)
        env = dict(os.environ)
        env.update(
            {
                "LD_LIBRARY_PATH": _sysroot() + "/lib",
                "RUSTFLAGS": "-Awarnings",
                "RUSTC_WORKSPACE_WRAPPER": DRIVER,
                "DOMAIN_FACTS_OUT": tmp,
                "CARGO_TARGET_DIR": target,
                "CARGO_NET_OFFLINE": "true",
                "CARGO_INCREMENTAL": "0",
            }
        )
        cmd = ["cargo", "+nightly", "check", "--offline", "--lib", "-p", "domain"] + CONFIGS[config]
        r = subprocess.run(
            cmd, cwd=repo, env=env, stdout=subprocess.PIPE, stderr=subprocess.STDOUT, text=True
        )
        if r.returncode != 0:
            tail = "\n".join(
                l[:300] for l in r.stdout.splitlines() if not l.lstrip()[:1].isdigit()
            )[-4000:]
            raise CheckError(
                "cargo check (%s) failed on the current tree; cannot analyse:\n%s" % (config, tail)
            )
        if not os.path.exists(tmp):
            raise CheckError("driver produced no fact file (config %s)" % config)
        os.replace(tmp, out)
        if not _complete(out, config):
            raise CheckError("fact file incomplete or below body floor (config %s)" % config)
        _evict(os.path.join(CACHE, "facts"), keep=6)
        return out, time.time() - t0, False
    finally:
        fcntl.flock(lock, fcntl.LOCK_UN)
        lock.close()


def _complete(path, config):
    try:
        with open(path, "rb") as fh:
            fh.seek(max(0, os.path.getsize(path) - 200))
            tail = fh.read().decode("utf8", "replace")
    except OSError:
        return False
    last = tail.strip().splitlines()[-1] if tail.strip() else ""
    if '"rec":"end"' not in last:
        return False
    try:
        n = int(last.split('"bodies":')[1].rstrip("}\n "))
    except Exception:
        return False
    return n >= BODY_FLOOR[config]


def _evict(d, keep):
    fs = sorted(
        (os.path.join(d, f) for f in os.listdir(d) if f.endswith(".jsonl")),
        key=os.path.getmtime,
        reverse=True,
    )
    for f in fs[keep:]:
        try:
            os.remove(f)
        except OSError:
            pass


if __name__ == "__main__":
    cfg = sys.argv[1] if len(sys.argv) > 1 else "all"
    print(facts_file(cfg))
