"""C13 — generated NSEC / NSEC3 chains (narrow, structural clauses only).

Completeness, canonical order and exact typing of the chain for every zone
are value-level statements about a single-pass algorithm; they are not
decided.  Decided are the guards and pairings whose truth is visible in the
code of the two generators and their helper predicates:

C13.types   NSEC: every bitmap that is finalised had RRSIG and NSEC added on
            every path; types of an owner's RRsets are added only when the
            owner is not at a cut, or the type is NS or DS.  NSEC3: RRSIG is
            added exactly under `not at a cut, or has DS`; the same NS/DS
            filter applies; NSEC3PARAM is added at the apex.
C13.cut     names at or below the current cut are skipped before anything is
            generated for them; a cut is an owner other than the apex that has
            an NS RRset; the walk stops at the first owner outside the zone.
C13.close   NSEC: inside the walk each record's next name is the current owner,
            and the record emitted after the walk points back to the apex.
            NSEC3: records are sorted canonically and de-duplicated before
            linking; the next hash of each record is taken from the following
            record, and from the first record for the last one.
C13.params  every NSEC3 record (for owners and for empty non-terminals) is made
            with the algorithm, flags, iterations and salt of the configured
            parameters; the owner hash is nsec3_hash over those same values.
C13.optout  an owner is left out for opt-out only if the opt-out flag is set,
            the owner is a cut, and it has no DS.
"""
import re

from mirlib import BranchFacts, closures_created_in, strip, deep_strip, show, walk, const_value
from rulelib import (bool_facts, controlling_switches, cyclic_blocks, facts_at, fmt_path, must_pass, outcome_facts,
                     return_assignments)

RRSIG, NSEC, NS, DS, SOA, DNSKEY, NSEC3PARAM = 46, 47, 2, 43, 6, 48, 51
D = "dnssec::sign::denial::"


def run(ctx):
    F = ctx.facts
    ctx.extra["explanation"] = (
        "C13 (narrow): which types are added to the bitmaps under which guards, skipping of occluded names, the "
        "cut / in-zone predicates, closing of the NSEC chain on the apex and linking of the sorted NSEC3 records, "
        "provenance of the NSEC3 parameters, the opt-out exclusion guard. Completeness of the chain for every zone, "
        "hash values and proofs of absence are not decided."
    )
    rule_types(ctx, F)
    rule_cut(ctx, F)
    rule_close(ctx, F)
    rule_group(ctx, F)
    rule_params(ctx, F)
    rule_optout(ctx, F)
    rule_hash(ctx, F)
    rule_ent(ctx, F)
    # "in canonical order": the generators link names in the order SortedRecords keeps them, which is the
    # order of Label::cmp / name_cmp -- the case folding of that order is part of this property as well
    import c04
    c04.rule_fold(ctx, F)
    rule_split(ctx, F)
    rule_dsrrsig(ctx, F)


def _body(F, rx):
    bs = [b for p, b in F.bodies.items() if re.search(rx, p) and "::test" not in p]
    return bs[0] if len(bs) == 1 else None


def _adds(b):
    """[(block, rtype const | None, term)] of RtypeBitmapBuilder::add calls"""
    out = []
    for bb, t in b.calls():
        if re.search(r"RtypeBitmapBuilder::<.*>::add$", t["fn"] or ""):
            v = b.term_of_operand(t["args"][1])
            out.append((bb, const_value(v), v))
    return out


def _rtype_consts(F):
    """values of Rtype::XXX associated consts by def path"""
    out = {}
    for p, c in F.consts.items():
        m = re.match(r"^base::iana::rtype::Rtype::([A-Z0-9]+)$", p)
        if m and isinstance(c.get("value"), int):
            out[m.group(1)] = c["value"]
    return out


def _is_rtype(term, code, names):
    cv = const_value(term)
    if cv == code:
        return True
    s = show(deep_strip(term))
    return any(("Rtype::%s" % n) in s for n, v in names.items() if v == code)


def rule_types(ctx, F):
    R = "C13.types"
    ctx.floor(R, 6)
    names = _rtype_consts(F)
    for gen, is3 in ((r"^dnssec::sign::denial::nsec::generate_nsecs$", False),
                     (r"^dnssec::sign::denial::nsec3::generate_nsec3s$", True)):
        b = _body(F, gen)
        nm = "generate_nsec3s" if is3 else "generate_nsecs"
        if not ctx.anchor(R, nm, b):
            continue
        adds = _adds(b)
        ctx.anchor(R, "%s: RtypeBitmapBuilder::add calls" % nm, len(adds) >= 3, b.where())

        def which(code):
            return [bb for bb, cv, v in adds if _is_rtype(v, code, names)]
        # the per-owner record: where the bitmap is consumed (finalize for NSEC, mk_nsec3 for NSEC3) inside the walk
        cyc = cyclic_blocks(b)
        if is3:
            sinks = [bb for bb, t in b.calls() if re.search(r"nsec3::mk_nsec3$", t["fn"] or "") and bb in cyc and
                     any(a for a in adds if a[0] in b.reach_from(0) and bb in b.reach_from(a[0]))]
            sinks = [s for s in sinks if any(s in b.reach_from(a[0]) for a in adds)]
        else:
            sinks = [bb for bb, t in b.calls() if re.search(r"RtypeBitmapBuilder::<.*>::finalize$", t["fn"] or "")]
        ctx.anchor(R, "%s: bitmap consumer" % nm, len(sinks) >= 1, b.where())
        rr, ns = which(RRSIG), which(NSEC)
        if not is3:
            for s in sinks:
                ctx.ob(R, b, "%s: RRSIG in every bitmap" % nm, any(b.dominates(x, s) for x in rr),
                       "generate_nsecs finalises a type bitmap on a path that did not add RRSIG", b.where(s))
                ctx.ob(R, b, "%s: NSEC in every bitmap" % nm, any(b.dominates(x, s) for x in ns),
                       "generate_nsecs finalises a type bitmap on a path that did not add NSEC", b.where(s))
        else:
            # RRSIG exactly under (cut is None) or has_ds
            ok = False
            for x in rr:
                fs = facts_at(b, x, F)
                ok = True
                # the add must not be unconditional w.r.t. the cut: it sits behind a branch that reads the cut / has_ds
                ctrl = [show(deep_strip(tt)) for tt, vv, e in fs]
                ok = any("is_none" in c or "is_some" in c for c in ctrl) or any(
                    isinstance(vv, tuple) and vv[0] == "variant" and vv[1] in ("None", "Some") for tt, vv, e in fs) or \
                    _guarded_by_cut_or_ds(b, x, F)
            ctx.ob(R, b, "%s: RRSIG only for authoritative owners (not at a cut, or with DS)" % nm, bool(rr) and ok,
                   "generate_nsec3s adds RRSIG to the bitmap without the `cut.is_none() || has_ds` guard (or never): "
                   "an insecure delegation would claim to be signed / signed names would not")
            par = which(NSEC3PARAM)
            ctx.ob(R, b, "%s: NSEC3PARAM at the apex" % nm, bool(par) and all(_eq_zero_fact(b, x, F) for x in par),
                   "NSEC3PARAM must be added to the apex bitmap (and only there: distance to apex == 0)")
            # ... at every apex: the zone owns an NSEC3PARAM RRset whenever it has an NSEC3 chain, whatever else is configured
            for x in par:
                extra = [show(deep_strip(tt))[:70] for tt, vv, e in facts_at(b, x, F)
                         if "config" in show(deep_strip(tt)) or "assume" in show(deep_strip(tt))]
                ctx.ob(R, b, "%s: NSEC3PARAM at the apex under no further condition" % nm, not extra,
                       "generate_nsec3s adds NSEC3PARAM to the apex bitmap only if also %s: with that option off the chain proves "
                       "the zone's own NSEC3PARAM RRset absent" % extra[:2], b.where(x))
        # the NS/DS filter on the owner's own types
        own = [(bb, v) for bb, cv, v in adds if cv is None and any(s[0] == "call" and re.search(r"Rrset::<.*>::rtype$", s[1] or "") for s in walk(v))]
        ctx.anchor(R, "%s: add(rrset.rtype())" % nm, len(own) >= 1, b.where())
        for bb, v in own:
            ctx.ob(R, b, "%s: at a cut only NS and DS are listed" % nm, _ns_ds_guard(b, bb, F),
                   "%s adds every RRset type of an owner to its bitmap without the `cut.is_none() || NS | DS` filter: "
                   "glue / occluded types at a delegation point would be listed as authoritative" % nm, b.where(bb))


def _guarded_by_cut_or_ds(b, bb, F):
    # `cut.is_none() || has_ds`: two switch edges lead to the block, one per disjunct; look at control dependence
    from rulelib import controlling_switches
    sws = controlling_switches(b, bb)
    txt = " ".join(show(deep_strip(b.term_of_operand(b.blocks[s]["t"]["d"]))) for s in sws)
    return ("is_none" in txt or "discr" in txt or "Option" in txt) or "any(" in txt or len(sws) >= 2


def _eq_zero_fact(b, bb, F):
    for tt, vv in bool_facts(b, bb, F):
        if tt[0] == "bin" and tt[1] == "Eq" and vv is True and const_value(tt[3]) == 0:
            return True
    return False


def _ns_ds_guard(b, bb, F):
    """the add at bb is reached either on `cut is None` or after the rtype matched NS / DS"""
    from rulelib import controlling_switches
    sws = controlling_switches(b, bb)
    seen_vals = set()
    seen_cut = False
    for s in sws:
        t = b.blocks[s]["t"]
        d = deep_strip(b.term_of_operand(t["d"]))
        for v, tb in t["v"]:
            seen_vals.add(v)
        sd = show(d)
        if "is_none" in sd or "is_some" in sd or d[0] == "discr":
            seen_cut = True
    # a switch on the u16 rtype value listing NS(2) and DS(43), or a matches!-style boolean fed by it
    txt = ""
    for blk in b.blocks:
        t = blk["t"]
        if t["k"] == "switch" and t["ty"] in ("u16",) and {NS, DS} <= {v for v, _ in t["v"]}:
            txt = "nsds"
    return seen_cut and txt == "nsds"


def rule_cut(ctx, F):
    R = "C13.cut"
    ctx.floor(R, 6)
    for gen in ("nsec::generate_nsecs", "nsec3::generate_nsec3s"):
        b = _body(F, r"^dnssec::sign::denial::%s$" % gen)
        nm = gen.split("::")[-1]
        if not ctx.anchor(R, nm, b):
            continue
        ew = [(bb, t) for bb, t in b.calls() if re.search(r"::ends_with$", t["fn"] or "")]
        builders = [bb for bb, t in b.calls() if re.search(r"RtypeBitmap::<.*>::builder$", t["fn"] or "") and bb in cyclic_blocks(b)]
        ctx.anchor(R, "%s: per-owner bitmap builder" % nm, len(builders) >= 1, b.where())
        # the skip: some ends_with call whose argument is the remembered cut, false on the way to the builder
        ok = False
        for bb, t in ew:
            arg = b.term_of_operand(t["args"][1])
            is_cut = any(s[0] == "downcast" and s[2] == "Some" for s in walk(arg))
            if not is_cut:
                continue
            for x in builders:
                for tt, vv in bool_facts(b, x, F):
                    if tt[0] == "call" and tt[5] == bb and vv is False:
                        ok = True
                # or reached with no cut at all (two ways into the builder): accept control dependence
                if not ok and x in b.reach_from(bb):
                    from rulelib import controlling_switches
                    for sw in b.reachable_blocks():
                        tsw = b.blocks[sw]["t"]
                        if tsw["k"] == "switch":
                            d = deep_strip(b.term_of_operand(tsw["d"]))
                            if d[0] == "call" and d[5] == bb:
                                # the true edge must not reach the builder without going round the loop head
                                for s, lab in b.succs(sw):
                                    ef = BranchFacts(b, F).edge_facts(sw).get(lab)
                                    if ef and ef[1] is True:
                                        heads = [h for h, th in b.calls() if re.search(r"Iterator::next$", th["fn"] or "") and h in cyclic_blocks(b)]
                                        r = b.reach_from(s, removed_blocks=heads)
                                        ok = x not in r
        ctx.ob(R, b, "%s: owners at or below the current cut are skipped" % nm, ok,
               "%s builds a record for an owner without first skipping names that end with the remembered cut: "
               "glue and occluded names would enter the chain" % nm)
        # the walk stops outside the zone
        inz = [(bb, t) for bb, t in b.calls() if re.search(r"OwnerRrs::<.*>::is_in_zone$", t["fn"] or "")]
        ok2 = False
        for bb, t in inz:
            for x in builders:
                if any(tt[0] == "call" and tt[5] == bb and vv is True for tt, vv in bool_facts(b, x, F)):
                    ok2 = True
        ctx.ob(R, b, "%s: only owners inside the zone are processed" % nm, ok2,
               "%s does not establish is_in_zone(apex) before generating a record for an owner" % nm)
        zc = [(bb, t) for bb, t in b.calls() if re.search(r"OwnerRrs::<.*>::is_zone_cut$", t["fn"] or "")]
        ctx.ob(R, b, "%s: the cut is re-decided for every owner (is_zone_cut)" % nm, bool(zc) and all(bb in cyclic_blocks(b) for bb, _ in zc),
               "%s no longer asks is_zone_cut for each owner" % nm)
        # ... and the remembered cut is updated on every way round the walk once an owner passed the skip test
        cut_locals = set()
        for bi in b.reachable_blocks():
            for st in b.blocks[bi]["s"]:
                if st[0] == "=" and st[2][0] == "ref" and len(st[2][2]) >= 3 and isinstance(st[2][2][1], list) and st[2][2][1][0] == "as" \
                        and st[2][2][1][1] == "Some" and re.match(r"^core::option::Option<N>$", b.locals[st[2][2][0]]):
                    cut_locals.add(st[2][2][0])
        cyc = cyclic_blocks(b)
        # the remembered cut is replaced (by what is_zone_cut says about the current owner), never emptied on the way: reading
        # it must not consume it
        takes = [bb for bb, t in b.calls() if bb in cyc and re.search(r"Option::<.*>::take$|mem::take(::<.*>)?$", t["fn"] or "")
                 and t["args"] and any(x[0] in ("local", "phi") and isinstance(x[1], int) and re.match(r"^core::option::Option<N>$", b.locals[x[1]])
                                       for x in [y for y in walk(b.term_of_operand(t["args"][0]))][:3])]
        ctx.ob(R, b, "%s: testing an owner against the remembered cut leaves the cut in place" % nm, not takes,
               "%s takes the remembered cut out of its variable when it tests an owner against it: after the first name below a "
               "delegation was skipped the generator no longer knows it is below a cut, and the second glue / occluded name gets an "
               "NSEC record" % nm, b.where(takes[0]) if takes else b.where())
        assigns = {bi for bi in cyc for st in b.blocks[bi]["s"] if st[0] == "=" and len(st[1]) == 1 and st[1][0] in cut_locals}
        heads = [h for h, th in b.calls() if re.search(r"Iterator::next$", th["fn"] or "") and h in cyc]
        lead = [h for h in heads if any(z in b.reach_from(h) for z, _ in zc)]
        outer = [h for h in lead if all(h == o or b.dominates(h, o) for o in lead)]
        if ctx.anchor(R, "%s: remembered cut (Option<N>) and the walk loop" % nm, bool(cut_locals) and bool(assigns) and len(outer) == 1 and bool(zc), b.where()):
            r = b.reach_from(zc[0][0], removed_blocks=assigns)
            ctx.ob(R, b, "%s: the remembered cut is updated before the walk goes on to the next owner" % nm, outer[0] not in r,
                   "%s can move on to the next owner (e.g. through an early `continue`) without updating the remembered cut: "
                   "names below a delegation that was left out, or after leaving a delegation, are judged against a stale cut "
                   "and glue / occluded names enter the chain (or authoritative names are skipped)" % nm, b.where(zc[0][0]))
    # predicates
    zc = _body(F, r"^dnssec::sign::records::OwnerRrs::<'a, N, D>::is_zone_cut$")
    if ctx.anchor(R, "OwnerRrs::is_zone_cut", zc):
        import sigs
        names = _rtype_consts(F)
        deep = sigs.callees_deep(F, zc, depth=2)
        ne = [t for _, _, t in deep if re.search(r"PartialEq(<.*>)?::(ne|eq)$", t["fn"] or "")]
        # which record types the predicate looks at (in its body, its closures and helpers it calls)
        seen = set()
        bodies = {id(sb): sb for sb, _, _ in deep}
        bodies[id(zc)] = zc
        for sb in bodies.values():
            for op in __import__("mirlib").iter_operands(sb):
                if op[0] == "k":
                    cv = op[2]
                    dp = op[3] if len(op) > 3 else None
                    for n_, v_ in names.items():
                        if (isinstance(dp, str) and dp.endswith("Rtype::" + n_)) or (isinstance(cv, int) and not isinstance(cv, bool) and cv == v_ and op[1] in ("u16", "base::iana::rtype::Rtype")):
                            seen.add(n_)
        owner_apex = any(any(s == ("arg", 2) for a in t["args"] for s in walk(deep_strip(sb.term_of_operand(a)))) for sb, _, t in deep
                         if re.search(r"PartialEq(<.*>)?::(ne|eq)$", t["fn"] or "") and sb is zc)
        ctx.ob(R, zc, "a cut is an owner other than the apex with an NS RRset", owner_apex and seen == {"NS"},
               "is_zone_cut must be `owner != apex && some record has type NS` and look at no other record type (types "
               "examined: %s, owner compared with the apex: %s)" % (sorted(seen), owner_apex))
    iz = _body(F, r"^dnssec::sign::records::OwnerRrs::<'a, N, D>::is_in_zone$")
    if ctx.anchor(R, "OwnerRrs::is_in_zone", iz):
        ew = [t for _, t in iz.calls() if re.search(r"::ends_with$", t["fn"] or "")]
        ok = False
        for t in ew:
            recv = deep_strip(iz.term_of_operand(t["args"][0]))
            arg = deep_strip(iz.term_of_operand(t["args"][1]))
            ok = any(s == ("arg", 1) for s in walk(recv)) and any(s == ("arg", 2) for s in walk(arg))
        ctx.ob(R, iz, "in zone = owner ends with the apex", ok, "is_in_zone must be owner.ends_with(apex)")


def rule_close(ctx, F):
    R = "C13.close"
    ctx.floor(R, 5)
    b = _body(F, r"^dnssec::sign::denial::nsec::generate_nsecs$")
    if ctx.anchor(R, "generate_nsecs", b):
        cyc = cyclic_blocks(b)
        news = [(bb, t) for bb, t in b.calls() if re.search(r"rdata::dnssec::Nsec::<.*>::new$", t["fn"] or "")]
        ctx.anchor(R, "Nsec::new sites in generate_nsecs", len(news) == 2, b.where())
        for bb, t in news:
            nxt = b.term_of_operand(t["args"][0])
            roots = {s[1] for s in walk(nxt) if s[0] == "arg"}
            if bb in cyc:
                cur = any(s[0] == "call" and re.search(r"OwnerRrs::<.*>::owner$", s[1] or "") for s in walk(nxt))
                ctx.ob(R, b, "inside the walk the next name is the current owner", cur and 1 not in roots,
                       "generate_nsecs links a record to something other than the owner currently being visited", b.where(bb))
            else:
                ctx.ob(R, b, "the last record points back to the apex", 1 in roots,
                       "the NSEC emitted after the walk does not use the apex as its next name: the chain is not closed", b.where(bb))
        # every successful return has been through the step that closes the chain
        last = [bb for bb, t in news if bb not in cyc]
        oks = sorted({r[0] for r in return_assignments(b) if r[2] == "Ok"})
        if last and ctx.anchor(R, "success return of generate_nsecs", bool(oks), b.where()):
            ctl = [sw for sw in controlling_switches(b, last[0]) if sw not in cyc]
            if ctx.anchor(R, "the test of the pending record that guards the closing NSEC", bool(ctl), b.where(last[0])):
                ok, path = must_pass(b, 0, oks, ctl)
                ctx.ob(R, b, "every successful return passes the closing step", ok,
                       "generate_nsecs can return Ok without going through the step that emits the pending last record "
                       "pointing back to the apex (path %s): the last authoritative name gets no NSEC and the chain is "
                       "left open" % (fmt_path(path) if path else ""), b.where(last[0]))
    c = _body(F, r"^dnssec::sign::denial::nsec3::generate_nsec3s$")
    if ctx.anchor(R, "generate_nsec3s", c):
        sorts = [bb for bb, t in c.calls() if re.search(r"Sorter::sort_by$|::sort_by$", t["fn"] or "")]
        ded = [bb for bb, t in c.calls() if re.search(r"Vec::<.*>::dedup$|::dedup$", t["fn"] or "")]
        sets = [bb for bb, t in c.calls() if re.search(r"Nsec3::<.*>::set_next_owner$", t["fn"] or "")]
        ctx.anchor(R, "set_next_owner in generate_nsec3s", len(sets) == 1, c.where())
        canon = False
        for bb, t in c.calls():
            if re.search(r"sort_by$", t["fn"] or ""):
                canon = any(a[0] == "k" and a[3] and "canonical_cmp" in a[3] for a in t["args"]) or \
                    "canonical_cmp" in " ".join(t.get("targs") or [])
        ctx.ob(R, c, "NSEC3 records sorted canonically and de-duplicated before linking",
               bool(sorts) and bool(ded) and bool(sets) and all(c.dominates(s, sets[0]) for s in sorts + ded) and canon,
               "generate_nsec3s links the records without first sorting them by canonical owner (hash) order and "
               "removing duplicates")
        if sets:
            # the record the next hash is taken from: receiver of `.owner()` on the way to set_next_owner
            cyc = cyclic_blocks(c)
            calls = []
            for bb, t in c.calls():
                if re.search(r"::try_to_name$|Record::<.*>::owner$", t["fn"] or "") and bb in cyc and sets[0] in c.reach_from(bb):
                    calls += [s[1] for s in walk(c.term_of_operand(t["args"][0])) if s[0] == "call" and s[1]]
            peek = any(re.search(r"Peekable::<.*>::peek$", x) for x in calls)
            wrap = any(re.search(r"::first$", x) for x in calls)
            ctx.ob(R, c, "next hash taken from the following record", peek,
                   "the next hashed owner is not derived from the record that follows (iter.peek())", c.where(sets[0]))
            ctx.ob(R, c, "the last record links to the first", wrap,
                   "the last NSEC3 does not fall back to the first record: the chain is not closed", c.where(sets[0]))
            oks3 = sorted({r[0] for r in return_assignments(c) if r[2] == "Ok"})
            if ctx.anchor(R, "success return of generate_nsec3s", bool(oks3), c.where()) and sorts:
                ok3, path3 = must_pass(c, 0, oks3, sorts)
                ctx.ob(R, c, "every successful return passes the sort-and-link step", ok3,
                       "generate_nsec3s can return Ok without sorting and linking the records (path %s)"
                       % (fmt_path(path3) if path3 else ""), c.where(sorts[0]))
            ctx.ob(R, c, "every record is linked", sets[0] in cyclic_blocks(c),
                   "set_next_owner is not applied inside the loop over all records", c.where(sets[0]))
            # ... in every iteration: no way round set_next_owner back to the loop head (a `continue` for a special case)
            from rulelib import on_every_cycle
            heads = [bb for bb, t in c.calls() if re.search(r"Iterator::next$|Peekable::<.*>::next$|::next$", t["fn"] or "") and bb in cyclic_blocks(c)
                     and sets[0] in c.reach_from(bb) and bb in c.reach_from(sets[0])]
            if ctx.anchor(R, "head of the NSEC3 linking loop", len(heads) >= 1, c.where(sets[0])):
                ctx.ob(R, c, "no iteration of the linking loop skips set_next_owner", all(on_every_cycle(c, h, sets[0]) for h in heads),
                       "the loop that links the NSEC3 records can go on to the next record without having set this one's next hashed "
                       "owner: the record keeps the placeholder it was created with (a lone NSEC3 -- an apex-only zone -- does not "
                       "point to itself) and the chain is not closed", c.where(sets[0]))


def rule_params(ctx, F):
    R = "C13.params"
    ctx.floor(R, 9)
    c = _body(F, r"^dnssec::sign::denial::nsec3::generate_nsec3s$")
    if ctx.anchor(R, "generate_nsec3s", c):
        mks = [(bb, t) for bb, t in c.calls() if re.search(r"nsec3::mk_nsec3$", t["fn"] or "")]
        ctx.anchor(R, "mk_nsec3 calls (owners and empty non-terminals)", len(mks) == 2, c.where())
        want = ["hash_algorithm", "flags", "iterations", "salt"]
        for i, (bb, t) in enumerate(mks):
            for j, w in enumerate(want):
                v = c.term_of_operand(t["args"][1 + j])
                ok = any(s[0] == "call" and re.search(r"Nsec3param::<.*>::%s$" % w, s[1] or "") and
                         any(x[0] == "field" and x[2] == "params" for x in walk(s)) for s in walk(v))
                ctx.ob(R, c, "mk_nsec3#%d %s = config.params.%s()" % (i + 1, w, w), ok,
                       "an NSEC3 record is generated with a %s that is not the configured parameter: the chain would mix "
                       "parameters / disagree with the NSEC3PARAM record" % w, c.where(bb), nontrivial=False)
            ap = c.term_of_operand(t["args"][5])
            ctx.ob(R, c, "mk_nsec3#%d hashed owner is placed under the apex" % (i + 1), any(s == ("arg", 1) for s in walk(ap)),
                   "mk_nsec3 is not given the apex as the zone the hashed owner name lives in", c.where(bb), nontrivial=False)
    m = _body(F, r"^dnssec::sign::denial::nsec3::mk_nsec3$")
    if ctx.anchor(R, "mk_nsec3", m):
        hk = [(bb, t) for bb, t in m.calls() if re.search(r"nsec3::mk_hashed_nsec3_owner_name$", t["fn"] or "")]
        ok = False
        for bb, t in hk:
            args = [deep_strip(m.term_of_operand(a)) for a in t["args"]]
            ok = [a for a in args if a[0] == "arg"] == [("arg", 1), ("arg", 2), ("arg", 4), ("arg", 5), ("arg", 6)][:len([a for a in args if a[0] == "arg"])] \
                and len([a for a in args if a[0] == "arg"]) >= 4
        ctx.ob(R, m, "owner hash computed from the same name, algorithm, iterations and salt", ok,
               "mk_nsec3 hashes the owner with other parameters than the ones it stores in the record")
        nn = [(bb, t) for bb, t in m.calls() if re.search(r"rdata::nsec3::Nsec3::<.*>::new$", t["fn"] or "")]
        ok2 = False
        for bb, t in nn:
            args = [deep_strip(m.term_of_operand(a)) for a in t["args"][:3]]
            ok2 = args == [("arg", 2), ("arg", 3), ("arg", 4)]
        ctx.ob(R, m, "record stores algorithm, flags, iterations as given", ok2,
               "Nsec3::new in mk_nsec3 does not receive (alg, flags, iterations) in that order")
    h = _body(F, r"^dnssec::sign::denial::nsec3::mk_hashed_nsec3_owner_name$")
    if ctx.anchor(R, "mk_hashed_nsec3_owner_name", h):
        lb = [(bb, t) for bb, t in h.calls() if re.search(r"nsec3::mk_base32hex_label_for_name$", t["fn"] or "")]
        ok = False
        for bb, t in lb:
            roots = [sorted({s[1] for s in walk(h.term_of_operand(a)) if s[0] == "arg"}) for a in t["args"]]
            ok = roots[:4] == [[1], [2], [3], [4]]
        ctx.ob(R, h, "label = hash(name, algorithm, iterations, salt)", ok,
               "the hashed owner label is not computed from (name, algorithm, iterations, salt) in that order")
        ao = [(bb, t) for bb, t in h.calls() if re.search(r"nsec3::append_origin$", t["fn"] or "")]
        ok = any(any(s == ("arg", 5) for s in walk(h.term_of_operand(t["args"][1]))) for bb, t in ao)
        ctx.ob(R, h, "hashed label is placed under the apex", ok, "the hashed owner name is not label + apex")
    l = _body(F, r"^dnssec::sign::denial::nsec3::mk_base32hex_label_for_name$")
    if ctx.anchor(R, "mk_base32hex_label_for_name", l):
        nh = [(bb, t) for bb, t in l.calls() if re.search(r"common::nsec3_hash$|::nsec3_hash$", t["fn"] or "")]
        ok = False
        for bb, t in nh:
            roots = [sorted({s[1] for s in walk(l.term_of_operand(a)) if s[0] == "arg"}) for a in t["args"]]
            ok = roots[:4] == [[1], [2], [3], [4]]
        ctx.ob(R, l, "nsec3_hash(name, algorithm, iterations, salt)", ok,
               "nsec3_hash is not called with (name, algorithm, iterations, salt) in that order")


def rule_optout(ctx, F):
    R = "C13.optout"
    ctx.floor(R, 2)
    c = _body(F, r"^dnssec::sign::denial::nsec3::generate_nsec3s$")
    if not ctx.anchor(R, "generate_nsec3s", c):
        return
    # the flag: opt_out_flag() && config.opt_out_exclude_owner_names_of_unsigned_delegations
    flag = [bb for bb, t in c.calls() if re.search(r"Nsec3param::<.*>::opt_out_flag$", t["fn"] or "")]
    ctx.ob(R, c, "the exclusion is tied to the opt-out flag of the parameters", bool(flag),
           "generate_nsec3s no longer reads params.opt_out_flag(): owners would be excluded (or kept) regardless of opt-out")
    # the exclusion edge: after the cut has been decided for this owner, a switch edge that goes back to the walk's loop
    # head without reaching the record construction (mk_nsec3).  Found by shape, not by names.
    cyc = cyclic_blocks(c)
    mks = [bb for bb, t in c.calls() if re.search(r"nsec3::mk_nsec3$", t["fn"] or "") and bb in cyc]
    zc = [bb for bb, t in c.calls() if re.search(r"OwnerRrs::<.*>::is_zone_cut$", t["fn"] or "")]
    heads = [h for h, th in c.calls() if re.search(r"Iterator::next$", th["fn"] or "") and h in cyc]
    lead = [h for h in heads if any(m in c.reach_from(h) for m in mks)]
    outer = [h for h in lead if all(h == o or c.dominates(h, o) for o in lead)]
    if not ctx.anchor(R, "walk loop, is_zone_cut and mk_nsec3 in generate_nsec3s", len(outer) == 1 and bool(zc) and bool(mks), c.where()):
        return
    head = outer[0]
    per_owner = [m for m in mks if c.dominates(zc[0], m)]
    after_zc = c.reach_from(zc[0], removed_blocks=[head])
    bf = BranchFacts(c, F)
    skips = []
    for sw in sorted(after_zc):
        t = c.blocks[sw]["t"]
        if t["k"] != "switch" or sw not in cyc:
            continue
        for s, lab in c.succs(sw):
            r = c.reach_from(s, removed_blocks=per_owner)
            # leaves this owner: reaches the loop head again without building a record, and is not an error return path
            fwd = c.reach_from(s, removed_blocks=[head])
            if head in r and not any(m in fwd for m in per_owner) and not any(c.dominates(m, sw) for m in per_owner):
                skips.append((sw, lab))
    # keep the outermost decision only (the edge whose switch is not itself reached only through another skip edge)
    skips = [(sw, lab) for sw, lab in skips if not any(sw in c.reach_from(c.edge_target(s2, l2), removed_blocks=[head]) for s2, l2 in skips if (s2, l2) != (sw, lab))] or skips
    ctx.anchor(R, "opt-out skip edge", len(skips) >= 1, c.where())
    for sw, lab in skips:
        tgt = c.edge_target(sw, lab)
        # everything known on that edge: dominating facts of the switch plus the edge's own fact
        facts = [(deep_strip(tt), vv) for tt, vv, e in facts_at(c, sw, F)]
        ef = bf.edge_facts(sw).get(lab)
        if ef:
            facts.append((deep_strip(ef[0]), ef[1]))
        txt = [(show(tt), vv) for tt, vv in facts]
        flag_true = any(vv is True and ("opt_out" in s) for s, vv in txt) or \
            any(vv is True and tt[0] in ("phi", "local") for tt, vv in facts)
        cut_some = any(("is_some" in s and vv is True) or ("is_none" in s and vv is False) for s, vv in txt) or \
            any(isinstance(vv, tuple) and vv == ("variant", "Some") for tt, vv in facts)
        no_ds = any(vv is False and (("any(" in s) or tt[0] in ("phi", "local")) for (tt, vv), (s, _) in zip(facts, txt))
        ctx.ob(R, c, "excluded only when opt-out is on, the owner is a cut, and it has no DS", no_ds and flag_true and cut_some,
               "the opt-out exclusion in generate_nsec3s is taken without all three conditions (flag %s, cut %s, no DS %s): "
               "secure delegations or ordinary names would disappear from the chain" % (flag_true, cut_some, no_ds), c.where(sw))


# ---------------------------------------------------------------------------
# the NSEC3 hash
# ---------------------------------------------------------------------------

def rule_hash(ctx, F):
    R = "C13.hash"
    ctx.floor(R, 4)
    m = _body(F, r"^dnssec::common::nsec3_hash::mk_hash$")
    if not ctx.anchor(R, "nsec3_hash::mk_hash", m):
        return
    ups = [(bb, t) for bb, t in m.calls() if re.search(r"DigestBuilder::update$", t["fn"] or "")]
    cyc = cyclic_blocks(m)
    first = [(bb, t) for bb, t in ups if bb not in cyc]
    loop = [(bb, t) for bb, t in ups if bb in cyc]
    ctx.anchor(R, "two updates before and two inside the iteration loop", len(first) == 2 and len(loop) == 2, m.where())
    canon = [(bb, t) for bb, t in m.calls() if re.search(r"::compose_canonical$", t["fn"] or "")]
    plain = [(bb, t) for bb, t in m.calls() if re.search(r"ToName::compose$|::compose$", t["fn"] or "")]
    ctx.ob(R, m, "the owner is hashed in canonical (lower-cased) wire form", bool(canon) and not plain,
           "nsec3_hash composes the owner name as spelled (compose) instead of its canonical form (compose_canonical): "
           "hashes of names with upper-case letters differ from RFC 5155 5 and from every other implementation")
    if len(first) == 2:
        order = sorted(first, key=lambda x: sum(1 for y in first if m.dominates(y[0], x[0])))
        a0 = show(deep_strip(m.term_of_operand(order[0][1]["args"][1])))
        a1 = m.term_of_operand(order[1][1]["args"][1])
        salt_second = any(s == ("arg", 3) for s in walk(a1))
        salt_first = any(s == ("arg", 3) for s in walk(m.term_of_operand(order[0][1]["args"][1])))
        ctx.ob(R, m, "first round: owner then salt", salt_second and not salt_first,
               "the first digest is not H(owner || salt)")
    if len(loop) == 2:
        order = sorted(loop, key=lambda x: sum(1 for y in loop if m.dominates(y[0], x[0])))
        salt_second = any(s == ("arg", 3) for s in walk(m.term_of_operand(order[1][1]["args"][1])))
        prev = any(s[0] == "call" and re.search(r"DigestBuilder::finish$", s[1] or "") for s in walk(m.term_of_operand(order[0][1]["args"][1])))
        ctx.ob(R, m, "further rounds: previous hash then salt", salt_second and prev,
               "the iterated digest is not H(previous hash || salt)")
    # the number of extra rounds is `iterations`
    rng = False
    for bi in m.reachable_blocks():
        for st in m.blocks[bi]["s"]:
            if st[0] == "=" and st[2][0] == "agg" and st[2][1][0] == "adt" and str(st[2][1][1]).endswith("ops::Range"):
                lo = const_value(m.term_of_operand(st[2][2][0]))
                hi = deep_strip(m.term_of_operand(st[2][2][1]))
                rng = lo == 0 and hi == ("arg", 2)
    ctx.ob(R, m, "exactly `iterations` additional rounds", rng,
           "the iteration loop is not `for _ in 0..iterations`")
    sha = [const_value(m.term_of_operand(t["args"][0])) for bb, t in m.calls() if re.search(r"DigestBuilder::new$", t["fn"] or "")]
    names = [show(deep_strip(m.term_of_operand(t["args"][0]))) for bb, t in m.calls() if re.search(r"DigestBuilder::new$", t["fn"] or "")]
    ctx.ob(R, m, "every round uses SHA-1", bool(names) and all("Sha1" in n for n in names),
           "a digest other than SHA-1 is used (%s)" % names, nontrivial=False)


# ---------------------------------------------------------------------------
# names of empty non-terminals
# ---------------------------------------------------------------------------

def rule_ent(ctx, F):
    R = "C13.ent"
    ctx.floor(R, 2)
    c = _body(F, r"^dnssec::sign::denial::nsec3::generate_nsec3s$")
    if not ctx.anchor(R, "generate_nsec3s", c):
        return
    takes = [(bb, t) for bb, t in c.calls() if re.search(r"Iterator::take$", t["fn"] or "")]
    done = 0
    for bb, t in takes:
        recv = c.term_of_operand(t["args"][0])
        skips = [s for s in walk(recv) if s[0] == "call" and re.search(r"Iterator::skip$", s[1] or "")]
        if not skips:
            continue
        done += 1
        n_term = skips[0][3][1]
        x_term = c.term_of_operand(t["args"][1])
        total = _lin_counts(c, ("bin", "Add", deep_strip(n_term), deep_strip(x_term)))
        ctx.ob(R, c, "ENT name = labels [n, distance to apex) of the owner", total is not None and {k: v for k, v in total.items() if v} == {"N": 1, "A": -1},
               "the labels skipped plus the labels taken when building an empty non-terminal's name do not add up to the "
               "owner's distance to the apex (labels(owner) - labels(apex)); found %s: the NSEC3 chain gets a record for a "
               "name that is not in the zone and misses the real empty non-terminal" % total, c.where(bb))
    ctx.anchor(R, "skip(n).take(..) in the ENT name builder", done >= 1, c.where())
    # the walk over the intermediate depths visits every depth: its only exits are the exhaustion of the
    # iterator that drives it and error / panic paths -- no exit that depends on what was found so far
    site = next((bb for bb, t in takes if any(s[0] == "call" and re.search(r"Iterator::skip$", s[1] or "")
                                               for s in walk(c.term_of_operand(t["args"][0])))), None)
    if site is None:
        return
    heads = [h for (u, h, lab) in c.back_edges() if c.dominates(h, site)]
    if not ctx.anchor(R, "the loop over the intermediate depths", len(set(heads)) >= 2, c.where(site)):
        return
    inner = [h for h in set(heads) if all(c.dominates(o, h) for o in set(heads))][0]
    preds = c.preds()
    loop = {inner}
    work = [u for (u, h, lab) in c.back_edges() if h == inner]
    while work:
        x = work.pop()
        if x in loop:
            continue
        loop.add(x)
        work.extend(p_ for p_, _l in preds.get(x, []) if p_ not in loop and p_ in c.reachable_blocks())
    mk = [bb for bb, t in c.calls() if re.search(r"nsec3::mk_nsec3$", t["fn"] or "")]
    bf = BranchFacts(c, F)
    bad = []
    n_exits = 0
    for x in sorted(loop):
        for s_, lab in c.succs(x):
            if s_ in loop:
                continue
            n_exits += 1
            fact = bf.edge_facts(x).get(lab) if c.blocks[x]["t"]["k"] == "switch" else None
            driver = False
            if fact is not None and fact[1] == ("variant", "None"):
                core = [q for q in walk(deep_strip(fact[0])) if q[0] == "call" and q[1]]
                driver = bool(core) and re.search(r"Iterator>?::next$", core[0][1]) is not None
            goes_on = any(m in c.reach_from(s_) for m in mk)
            if not driver and goes_on:
                bad.append(x)
    ctx.ob(R, c, "the ENT walk has no early exit", not bad and n_exits >= 1,
           "the loop that builds the empty non-terminals between the last non-empty ancestor and the owner can be left "
           "before its iterator is exhausted (and the function carries on): deeper empty non-terminals of a second branch "
           "below a shared one get no NSEC3 record", c.where(bad[0]) if bad else c.where(inner),
           detail="%d blocks in the loop, %d exit edge(s), %d data-dependent" % (len(loop), n_exits, len(bad)))


def _lin_counts(b, t, depth=0):
    """linear form over N = label count of the owner, A = label count of the apex (first parameter), other locals"""
    t = deep_strip(t)
    cv = const_value(t)
    if cv is not None:
        return {1: cv}
    if t[0] == "cast":
        return _lin_counts(b, t[2], depth + 1)
    if t[0] == "bin" and t[1] in ("Add", "Sub", "AddWithOverflow", "SubWithOverflow"):
        x, y = _lin_counts(b, t[2], depth + 1), _lin_counts(b, t[3], depth + 1)
        if x is None or y is None:
            return None
        out = dict(x)
        for k, v in y.items():
            out[k] = out.get(k, 0) + (v if t[1].startswith("Add") else -v)
        return out
    if t[0] == "call" and re.search(r"Iterator::count$", t[1] or ""):
        roots = {s[1] for s in walk(t) if s[0] == "arg"}
        if roots == {1}:
            return {"A": 1}
        if any(s[0] == "call" and re.search(r"OwnerRrs::<.*>::owner$", s[1] or "") for s in walk(t)):
            return {"N": 1}
        return {"cnt:" + show(t)[:40]: 1}
    if t[0] == "phi":
        return {"phi%d" % t[1]: 1}
    if t[0] in ("local", "arg"):
        return {"%s%d" % (t[0], t[1]): 1}
    return {"?" + show(t)[:30]: 1}


def rule_group(ctx, F):
    """The records are sorted with the canonical (case-folding) order; the iterators that cut the sorted list into owners and
    RRsets must group with the same notion of `same name` (name_eq / canonical_cmp / name_cmp), not with an octet-wise
    comparison: `WWW A` and `www AAAA` are one owner and get one NSEC."""
    R = "C13.group"
    ctx.floor(R, 2)
    n = 0
    for p, b in sorted(F.bodies.items()):
        if not re.match(r"^<dnssec::sign::records::(RecordsIter|RrsetIter|OwnerRrs)<.*> as core::iter::Iterator>::next$", p):
            continue
        cmps = []
        for bb, tt in b.calls():
            fn = tt["fn"] or ""
            if re.search(r"ToName::(name_eq|name_cmp|composed_cmp|lowercase_composed_cmp)$|CanonicalOrd(<.*>)?::canonical_cmp$|PartialEq(<.*>)?::(eq|ne)$", fn):
                a0 = show(deep_strip(b.term_of_operand(tt["args"][0])))
                if "owner(" in a0:
                    cmps.append((bb, fn.split("::")[-1]))
        if not cmps:
            continue
        for bb, k in cmps:
            n += 1
            ctx.ob(R, b, "owners are grouped with the case-insensitive notion of equality the sort uses", k in ("name_eq", "name_cmp", "canonical_cmp", "lowercase_composed_cmp"),
                   "%s decides whether the next record has the same owner with `%s`, which is octet-wise, while the records were "
                   "sorted case-insensitively: one owner written with different case on different records is split into two "
                   "groups -- two NSECs for one name, a DS taken for a record below the cut"
                   % (re.sub(r"<.*", "", p.lstrip("<")).split("::")[-1] + "::next", k), b.where(bb))
    ctx.ob(R, "dnssec::sign::records", "grouping iterators found", n >= 2, "only %d owner comparisons found in the grouping iterators" % n, nontrivial=False)


def _src_bits(t, depth=0):
    """which bits of the 16-bit type number can reach the value (a mask), for expressions of shifts / masks / casts over
    Rtype::to_int(); None if the shape is unknown"""
    t = deep_strip(t)
    if depth > 12:
        return None
    if t[0] == "call" and (t[1] or "").endswith("Rtype::to_int"):
        return 0xFFFF
    if t[0] == "cast":
        inner = _src_bits(t[2], depth + 1)
        if inner is None:
            return None
        m = re.match(r"^u(8|16|32|64|size)$", str(t[3]))
        w = 64 if not m or m.group(1) == "size" else int(m.group(1))
        return inner if w >= 16 else ("mask", inner, (1 << w) - 1)
    if t[0] == "bin":
        op = t[1].replace("Unchecked", "")
        k = const_value(deep_strip(t[3]))
        a = _src_bits(t[2], depth + 1)
        if a is None or k is None:
            return None
        if op == "BitAnd":
            return ("mask", a, k)
        if op == "Shr":
            return ("shr", a, k)
    return None


def _eval_src(bits, width):
    """source-bit mask that survives: evaluate the little mask/shift program on a 16-bit all-ones source, tracking which
    source bits land in the low `width` result bits"""
    # represent the value as a list of source bit indices per result bit
    def go(x):
        if isinstance(x, int):
            return [i if (x >> i) & 1 else None for i in range(16)]
        kind, a, k = x
        v = go(a)
        if kind == "mask":
            return [v[i] if (k >> i) & 1 else None for i in range(16)]
        if kind == "shr":
            return (v[k:] + [None] * k)[:16]
        return v
    v = go(bits)
    return {i for i in v[:width] if i is not None}


def rule_split(ctx, F):
    """The type bitmap of NSEC / NSEC3 files type T under window T >> 8, octet (T & 0xFF) >> 3, bit 0x80 >> (T & 7)
    (RFC 4034 4.1.2).  split_rtype, which both the builder and `contains` use, lets exactly bits 15..8 of the type into
    the window number, bits 7..3 into the octet index and bits 2..0 into the bit mask -- a narrower mask files the types
    above it in another type's place, and since writer and reader share the helper only a foreign implementation sees it."""
    R = "C13.split"
    ctx.floor(R, 3)
    b = F.one_body(r"^rdata::dnssec::split_rtype$")
    if not ctx.anchor(R, "rdata::dnssec::split_rtype", b):
        return
    rets = [deep_strip(t) for _, _, _, t in return_assignments(b) if t is not None]
    tup = next((t for t in rets if t[0] == "agg" and t[1][0] == "tuple" and len(t[2]) == 3), None)
    if not ctx.anchor(R, "the (window, octet, mask) tuple of split_rtype", tup is not None, b.where()):
        return
    win, octet, mask = [deep_strip(x) for x in tup[2]]
    bw = _src_bits(win)
    got_w = _eval_src(bw, 8) if bw is not None else None
    ctx.ob(R, b, "window number = bits 15..8 of the type", got_w == set(range(8, 16)),
           "split_rtype builds the window number from bits %s of the type (must be 8..15): types whose window differs only in the "
           "dropped bit(s) share a window -- e.g. DLV (32769) is filed and looked up as type 1 (A)" % (sorted(got_w) if got_w is not None else "?"))
    bo = _src_bits(octet)
    got_o = _eval_src(bo, 16) if bo is not None else None
    ctx.ob(R, b, "octet index = bits 7..3 of the type", got_o == set(range(3, 8)),
           "split_rtype builds the octet index from bits %s of the type (must be 3..7)" % (sorted(got_o) if got_o is not None else "?"))
    okm = mask[0] == "bin" and mask[1].startswith("Shr") and const_value(deep_strip(mask[2])) == 0x80
    bm = _src_bits(mask[3]) if okm else None
    got_m = _eval_src(bm, 16) if bm is not None else None
    ctx.ob(R, b, "bit mask = 0x80 >> bits 2..0 of the type", okm and got_m == {0, 1, 2},
           "split_rtype's bit mask is not 0x80 >> (type & 7) (shift amount from bits %s)" % (sorted(got_m) if got_m is not None else "?"))


def rule_dsrrsig(ctx, F):
    """RFC 5155 7.1: at a delegation the DS RRset is authoritative and signed, so the bitmap of a
    *secure* delegation has the RRSIG bit and that of an insecure one has not.  In the NSEC3 generator the block that adds
    RRSIG lies behind the `cut.is_none()` test with a second way in: from the test's "at a cut" edge the add is still
    reachable without coming back through the test (the DS case), and it can also be passed by (the insecure case)."""
    R = "C13.dsrrsig"
    ctx.floor(R, 2)
    n = 0
    for p, b in sorted(F.bodies.items()):
        if not re.match(r"^dnssec::sign::denial::nsec3::generate_nsec3s$", p):   # (an NSEC always has RRSIG: it is signed itself)
            continue
        adds = [bb for bb, t in b.calls() if re.search(r"RtypeBitmapBuilder.*::add$", t["fn"] or "") and len(t["args"]) > 1
                and (deep_strip(b.term_of_operand(t["args"][1]))[3:4] or [""])[0] and
                str(deep_strip(b.term_of_operand(t["args"][1]))[3]).endswith("Rtype::RRSIG")]
        if not ctx.anchor(R, "%s: the one place that adds RRSIG to a bitmap" % p.split("::")[-1], len(adds) == 1, b.where()):
            continue
        B = adds[0]
        bf = BranchFacts(b, F)
        found = False
        for sw in sorted(b.reachable_blocks()):
            if b.blocks[sw]["t"]["k"] != "switch" or not b.dominates(sw, B):
                continue
            ef = bf.edge_facts(sw)
            tgt = {}
            for lab, (tm, v) in ef.items():
                tm = deep_strip(tm)
                if isinstance(v, bool) and tm[0] == "call" and re.search(r"is_none$", tm[1] or ""):
                    tgt[v] = b.edge_target(sw, lab)
            if True not in tgt or False not in tgt:
                continue
            if b.path_avoiding(tgt[True], B, removed_blocks={sw}) is None:
                continue
            found = True
            n += 1
            at_cut = b.path_avoiding(tgt[False], B, removed_blocks={sw})
            ctx.ob(R, b, "%s: a delegation with a DS RRset gets the RRSIG bit" % p.split("::")[-1], at_cut is not None,
                   "%s adds the RRSIG bit only where there is no zone cut: the bitmap of a secure delegation (NS + DS, the DS RRset "
                   "is signed) lacks RRSIG, and a validator takes the DS's signature for bogus or the denial for wrong"
                   % p.split("::")[-1], b.where(B))
            heads = {bb for bb, t in b.calls() if (t["fn"] or "").endswith("Iterator::next") and b.dominates(bb, sw)}
            skip = b.path_avoiding(tgt[False], heads | set(b.return_blocks()), removed_blocks={B})
            ctx.ob(R, b, "%s: a delegation without DS does not get the RRSIG bit" % p.split("::")[-1], skip is not None,
                   "%s adds the RRSIG bit at every zone cut: an insecure delegation claims signatures that do not exist"
                   % p.split("::")[-1], b.where(B))
            break
        ctx.anchor(R, "%s: cut.is_none() test in front of the RRSIG bit" % p.split("::")[-1], found, b.where(B))
