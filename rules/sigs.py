"""F-SIG: sibling codec signatures.

For a function, the *signature* is the ordered sequence of (field, kind) tokens
along each success path (failure edges of checked calls are not followed; a
loop body is traversed once and its tokens are flagged `loop`).  Tokens are
derived from resolved callees and from the field path of the value handed to
the callee -- never from text.
"""
import re

from mirlib import closures_created_in, resolve_captures, BranchFacts, strip, deep_strip, show, walk, const_value
from rulelib import _norm_fact, underlying_calls, return_assignments, cyclic_blocks

MAX_PATHS = 400


# ---------------------------------------------------------------------------
# success paths
# ---------------------------------------------------------------------------

def _edge_is_failure(b, F, sw, lab, cache):
    key = (sw, lab)
    if key in cache:
        return cache[key]
    ef = cache.setdefault(("ef", sw), BranchFacts(b, F).edge_facts(sw))
    res = False
    if lab in ef:
        t, v = ef[lab]
        for subj, o in _norm_fact(t, v):
            if o == "failure":
                s = strip(subj, calls=False)
                # only failures of calls (Result/Option-returning); an explicit `None`/`Err` match on
                # data fields is a data branch, not an error exit
                ucs = underlying_calls(subj)
                # the None of an iterator is loop termination, not an error exit
                its = [c for c in ucs if re.search(r"Iterator::(next|next_back|nth|peek|find|find_map|last)$",
                                                   b.blocks[c]["t"].get("fn") or "")]
                if ucs and not its:
                    res = True
    cache[key] = res
    return res


def success_paths(b, F):
    """[(blocks, conds)]: loop-free paths entry -> return that do not take a
    failure edge; conds = {switch_bb: label} for boolean switches taken."""
    out = []
    cache = {}
    rets = set(b.return_blocks())
    err_blocks = set()
    for (rb, si, kind, term) in return_assignments(b):
        if kind in ("Err",) or (kind.startswith("call:") and "from_residual" in kind):
            err_blocks.add(rb)

    def dfs(bb, path, onpath, conds):
        if len(out) >= MAX_PATHS:
            return
        if bb in err_blocks:
            return
        path.append(bb)
        onpath.add(bb)
        t = b.blocks[bb]["t"]
        if t["k"] == "ret":
            out.append((list(path), dict(conds)))
        else:
            for s, lab in b.succs(bb):
                if s in onpath:
                    continue
                if t["k"] == "switch":
                    if _edge_is_failure(b, F, bb, lab, cache):
                        continue
                    conds[bb] = lab
                    dfs(s, path, onpath, conds)
                    del conds[bb]
                else:
                    dfs(s, path, onpath, conds)
        path.pop()
        onpath.discard(bb)

    dfs(0, [], set(), {})
    return out


# ---------------------------------------------------------------------------
# access paths
# ---------------------------------------------------------------------------

TRANSPARENT = re.compile(
    r"::(as_ref|as_slice|as_mut|borrow|deref|clone|into|from|to_owned|as_octets|into_octets|as_bytes|by_ref|as_str|"
    r"into_int|to_int|to_be_bytes|octets|as_u8|into_inner|get|try_into|try_from|unwrap|expect|as_flags)(::<.*>)?$")


GETTERS = {}


def set_facts(F):
    """Precompute simple getters (fn(&self) -> field) so that `self.addr()` is
    treated like `self.addr`."""
    GETTERS.clear()
    for p, b in F.bodies.items():
        if b.nargs != 1 or b.kind != "AssocFn" or not (p.startswith(("rdata::", "base::", "tsig::"))):
            continue
        rets = return_assignments(b)
        if len(rets) != 1 or rets[0][3] is None:
            continue
        tt = deep_strip(rets[0][3])
        if tt[0] == "field" and tt[1] == ("arg", 1) and isinstance(tt[2], str):
            GETTERS[p] = tt[2]


def nogen(path):
    """def path with every generic argument list removed."""
    out = []
    depth = 0
    for ch in path:
        if ch == "<":
            depth += 1
        elif ch == ">":
            depth -= 1
        elif depth == 0:
            out.append(ch)
    s = "".join(out)
    while "::::" in s:
        s = s.replace("::::", "::")
    return s.rstrip(":")


def field_path(t, root_arg=1):
    """Dotted field path of a value derived from parameter `root_arg` by field
    projections / transparent calls; None otherwise; '' for the parameter itself."""
    names = []
    t = strip(t)
    for _ in range(40):
        k = t[0]
        if k == "field":
            inner = strip(t[1])
            if inner[0] == "agg" and inner[1][0] == "tuple":
                # `match (&self.a, &other.a) { (X(l), X(r)) => .. }`: element of a tuple built on the spot
                try:
                    t = strip(inner[2][int(t[2])])
                    continue
                except (ValueError, IndexError, TypeError):
                    return None
            names.append(str(t[2]))
            t = inner
        elif k == "downcast":
            t = strip(t[1])
        elif k == "call" and t[1] and t[1] in GETTERS and t[3]:
            names.append(GETTERS[t[1]])
            t = strip(t[3][0])
        elif k == "call" and t[1] and TRANSPARENT.search(t[1]) and t[3]:
            t = strip(t[3][0])
        elif k == "cast":
            t = strip(t[2])
        elif k == "arg":
            return ".".join(names[::-1]) if t[1] == root_arg else None
        elif k == "phi" and t[2] and all(strip(a) == ("arg", root_arg) for a in t[2]):
            return ".".join(names[::-1])
        else:
            return None
    return None


def last_seg(fn):
    """Last path segment of a def path, ignoring generic argument lists."""
    out = []
    depth = 0
    for ch in fn:
        if ch == "<":
            depth += 1
        elif ch == ">":
            depth -= 1
        elif depth == 0:
            out.append(ch)
    return "".join(out).replace("::::", "::").rstrip(":").split("::")[-1]


def _len_of_field(t):
    """If t is (a conversion of) `len()` / `compose_len()` of a self field, that field's path."""
    for s in walk(t):
        if s[0] == "call" and s[1] and re.search(r"::(len|compose_len)$", s[1]) and s[3]:
            f = field_path(s[3][0])
            if f:
                return f
    return None


def ty_short(ty):
    ty = ty.strip().lstrip("&").strip()
    if ty.startswith("mut "):
        ty = ty[4:]
    base = ty.split("<")[0]
    return base.split("::")[-1]


# ---------------------------------------------------------------------------
# compose-side tokens
# ---------------------------------------------------------------------------

def compose_kind(t):
    fn = t["fn"] or ""
    res = t["res"] or ""
    targs = t["targs"]
    last = fn.split("::")[-1]
    if fn == "base::wire::Compose::compose":
        return "int:%s" % ty_short(targs[0]) if targs else "int:?"
    if fn == "base::name::traits::ToName::compose":
        return "name:plain"
    if fn == "base::name::traits::ToName::compose_canonical":
        return "name:lower"
    if fn == "base::wire::Composer::append_compressed_name":
        return "name:compress"
    if fn.endswith("OctetsBuilder::append_slice"):
        return "octets"
    if last in ("compose", "compose_canonical", "compose_rdata", "compose_canonical_rdata", "compose_len_rdata",
                "compose_canonical_len_rdata", "compose_option", "compose_value", "compose_head", "compose_body"):
        owner = fn.rsplit("::", 1)[0]
        if fn.startswith("base::rdata::ComposeRecordData::") or fn.startswith("base::opt::ComposeOptData::"):
            owner = targs[0] if targs else owner
        return "%s:%s" % (ty_short(re.sub(r"::<.*$", "", owner)), last)
    return None


def compose_tokens(b, F, depth=0):
    """Alternatives: list of (conds_key, [tokens]); token = (field, kind, inloop)."""
    alts = []
    cyc = cyclic_blocks(b)
    seen = set()
    for blocks, conds in success_paths(b, F):
        toks = []
        for bb in blocks:
            t = b.blocks[bb]["t"]
            if t["k"] != "call" or not t["fn"]:
                continue
            kind = compose_kind(t)
            args = [b.term_of_operand(a) for a in t["args"]]
            fld = None
            if kind in ("name:compress", "octets"):
                if len(args) >= 2:
                    fld = field_path(args[1])
                    if fld is None and kind == "octets":
                        arr = deep_strip(args[1])
                        if arr[0] == "agg" and arr[1][0] == "array":
                            # append_slice(&[self.a.into(), self.b.into(), ..]): one octet per element
                            elems = [field_path(e) for e in arr[2]]
                            if all(e is not None for e in elems):
                                for e in elems:
                                    toks.append((e, "int:u8", bb in cyc))
                                continue
                        lf = _len_of_field(arr)
                        if lf is not None:
                            toks.append((lf, "len:arr", bb in cyc))
                            continue
            elif kind is not None and args:
                fld = field_path(args[0])
                if fld is None and kind.startswith("int:"):
                    lf = _len_of_field(deep_strip(args[0]))
                    if lf is not None:
                        toks.append((lf, "len:" + kind[4:], bb in cyc))
                        continue
            if kind == "octets" and fld is not None and len(args) >= 2:
                for s in walk(deep_strip(args[1])):
                    if s[0] == "call" and s[1]:
                        m = re.search(r"<impl (u8|u16|u32|u64|i8|i16|i32|i64)>::to_be_bytes$", s[1])
                        if m:
                            kind = "int:be:" + m.group(1)
                        elif s[1].endswith("Ipv4Addr::octets"):
                            kind = "fixed:4"
                        elif s[1].endswith("Ipv6Addr::octets"):
                            kind = "fixed:16"
            if kind is not None and fld is not None:
                if fld == "" and depth < 3:
                    # helper on self: inline
                    cb = F.bodies.get(t["res"] or t["fn"])
                    if cb is not None and cb is not b:
                        sub = compose_tokens(cb, F, depth + 1)
                        if len(sub) == 1:
                            toks += [(f, k, l or (bb in cyc)) for f, k, l in sub[0][1]]
                            continue
                toks.append((fld, kind, bb in cyc))
            elif kind is None and args and field_path(args[0]) == "" and depth < 3 and len(args) >= 2:
                # inherent helper method on self taking the target
                cb = F.bodies.get(t["res"] or t["fn"])
                if cb is not None and cb is not b and re.search(r"compose|append", (t["fn"] or "")):
                    sub = compose_tokens(cb, F, depth + 1)
                    if len(sub) == 1:
                        toks += [(f, k, l or (bb in cyc)) for f, k, l in sub[0][1]]
        key = tuple(toks)
        ckey = tuple(sorted((sw, str(lab)) for sw, lab in conds.items()))
        if key not in seen:
            seen.add(key)
            alts.append((ckey, toks))
    return alts


def compose_split(b, F):
    """For compose_rdata: (tokens when can_compress() is true, tokens when
    false) if the function branches on target.can_compress(); else both equal."""
    alts = compose_tokens(b, F)
    cc_sw = None
    for bi in b.reachable_blocks():
        t = b.blocks[bi]["t"]
        if t["k"] == "switch":
            d = deep_strip(b.term_of_operand(t["d"]))
            if d[0] == "call" and (d[1] or "").endswith("Composer::can_compress"):
                cc_sw = bi
    if cc_sw is None:
        return alts, alts, None
    ef = BranchFacts(b, F).edge_facts(cc_sw)
    t_alts, f_alts = [], []
    for ckey, toks in alts:
        lab = dict((sw, l) for sw, l in ckey).get(cc_sw)
        val = None
        for l, (tt, vv) in ef.items():
            if str(l) == lab:
                val = vv
        if val is True:
            t_alts.append((ckey, toks))
        elif val is False:
            f_alts.append((ckey, toks))
        else:
            t_alts.append((ckey, toks))
            f_alts.append((ckey, toks))
    return t_alts, f_alts, cc_sw


# ---------------------------------------------------------------------------
# parse-side tokens
# ---------------------------------------------------------------------------

def parse_kind(t):
    fn = t["fn"] or ""
    targs = t["targs"]
    last = fn.split("::")[-1]
    if fn == "base::wire::Parse::parse":
        return "int:%s" % ty_short(targs[0]) if targs else None
    m = re.search(r"Parser::<.*>::parse_(u8|i8|u16|i16|u32|i32|u64)(_be|_le)?$", fn)
    if m:
        return "int:%s" % m.group(1)
    if re.search(r"ParsedName::<.*>::parse(::<.*>)?$", fn) or re.search(r"ParsedName::<.*>::parse_ref$", fn):
        return "name"
    if re.search(r"Parser::<.*>::parse_octets$", fn):
        return "octets"
    if re.search(r"Parser::<.*>::parse_buf$", fn):
        return "octets"
    if last in ("parse", "parse_rdata", "parse_option", "parse_value") and "::" in fn:
        owner = re.sub(r"::<.*$", "", fn.rsplit("::", 1)[0])
        return "%s:parse" % ty_short(owner)
    return None


def parse_tokens(b, F):
    """Alternatives of ordered parse tokens: [(kind, call_bb)]."""
    alts = []
    seen = set()
    cyc = cyclic_blocks(b)
    for blocks, conds in success_paths(b, F):
        toks = []
        for bb in blocks:
            t = b.blocks[bb]["t"]
            if t["k"] != "call" or not t["fn"]:
                continue
            k = parse_kind(t)
            if k is not None:
                toks.append((k, bb, bb in cyc))
        key = tuple((k, l) for k, _, l in toks)
        if key not in seen:
            seen.add(key)
            alts.append(toks)
    return alts


def ctor_field_map(F, ctor_path, depth=0):
    """param index (1-based) -> field name for a constructor function whose
    body builds the ADT from its parameters (directly, or by handing its
    parameters to another constructor such as `new_unchecked`)."""
    b = F.bodies.get(ctor_path)
    if b is None:
        return None
    direct = _ctor_direct(F, b)
    if direct:
        return direct
    if depth < 2:
        for bi in b.reachable_blocks():
            t = b.blocks[bi]["t"]
            if t["k"] == "call" and t["fn"] and re.search(r"::(new|new_unchecked|new_impl)(::<.*>)?$", t["fn"]) and (t["res"] or t["fn"]) != ctor_path:
                inner = ctor_field_map(F, t["res"] or t["fn"], depth + 1)
                if not inner:
                    continue
                m = {}
                for i, a in enumerate(t["args"]):
                    tt = deep_strip(b.term_of_operand(a))
                    r = [s for s in walk(tt) if s[0] == "arg"]
                    if len(r) == 1 and (i + 1) in inner:
                        m[r[0][1]] = inner[i + 1]
                if m:
                    return m
    return None


def _ctor_direct(F, b):
    for bi in b.reachable_blocks():
        for st in b.blocks[bi]["s"]:
            if st[0] == "=" and st[2][0] == "agg" and st[2][1][0] == "adt" and len(st[2][1]) > 3:
                fields = st[2][1][3]
                m = {}
                for f, o in zip(fields, st[2][2]):
                    t = deep_strip(b.term_of_operand(o))
                    if t[0] == "arg":
                        m[t[1]] = f
                    else:
                        r = [s for s in walk(t) if s[0] == "arg"]
                        if len(r) == 1:
                            m[r[0][1]] = f
                if m:
                    return m
    return None


def parse_field_order(b, F, adt):
    """Ordered (field, kind) list for a `parse` function: each parse call's
    result is traced to the constructor argument / aggregate field it
    initialises.  Returns (list | None, reason)."""
    alts = parse_tokens(b, F)
    if len(alts) != 1:
        return None, "%d parse paths" % len(alts)
    toks = alts[0]
    # find construction: aggregate of adt or a ctor call returning it
    call_to_field = {}
    ctor_seen = False
    for bi in b.reachable_blocks():
        blk = b.blocks[bi]
        for st in blk["s"]:
            if st[0] == "=" and st[2][0] == "agg" and st[2][1][0] == "adt" and st[2][1][1] == adt:
                ctor_seen = True
                for f, o in zip(st[2][1][3], st[2][2]):
                    t = b.term_of_operand(o)
                    for cb in underlying_calls(t) | {s[5] for s in walk(deep_strip(t)) if s[0] == "call"}:
                        call_to_field.setdefault(cb, f)
        t = blk["t"]
        if t["k"] == "call" and t["fn"] and re.search(r"Result::<.*>::map(::<.*>)?$", t["fn"]) and len(t["args"]) == 2 \
                and t["args"][1][0] == "k" and t["args"][1][3]:
            ctor = re.sub(r"::<[^:]*>$", "", t["args"][1][3])
            cands = [p for p in F.bodies if p == t["args"][1][3] or nogen(p) == nogen(t["args"][1][3])]
            for cp in cands:
                fm = ctor_field_map(F, cp)
                if fm and 1 in fm:
                    ctor_seen = True
                    tt = b.term_of_operand(t["args"][0])
                    for cb2 in underlying_calls(tt) | {s[5] for s in walk(deep_strip(tt)) if s[0] == "call"}:
                        call_to_field.setdefault(cb2, fm[1])
                    break
        if t["k"] == "call" and t["fn"] and re.search(r"::(new|new_unchecked|from_octets_unchecked|new_impl)(::<.*>)?$", t["fn"]):
            ret_ty = b.locals[t["dest"][0]] if t["dest"] and len(t["dest"]) == 1 else ""
            if adt in ret_ty:
                fm = ctor_field_map(F, t["res"] or t["fn"])
                if fm:
                    ctor_seen = True
                    for i, a in enumerate(t["args"]):
                        tt = b.term_of_operand(a)
                        for cb in underlying_calls(tt) | {s[5] for s in walk(deep_strip(tt)) if s[0] == "call"}:
                            if (i + 1) in fm:
                                call_to_field.setdefault(cb, fm[i + 1])
    if not ctor_seen:
        return None, "constructor not recognised"
    out = []
    for k, bb, inloop in toks:
        out.append((call_to_field.get(bb, "?"), k, inloop))
    return out, ""


# ---------------------------------------------------------------------------
# rdlen summands
# ---------------------------------------------------------------------------

INT_SIZES = {"u8": 1, "i8": 1, "u16": 2, "i16": 2, "u32": 4, "i32": 4, "u64": 8}


def rdlen_summands(b, F):
    """Multiset of summands of the Some(..) result when compress == false:
    ('const', n) | ('name', field) | ('len', field) | ('other', shown).
    Returns (list | None, reason)."""
    somes = [r for r in return_assignments(b) if r[2] == "Some"]
    if not somes:
        return [], "always None"
    if len(somes) > 1:
        return None, "several Some(..) exits"
    term = deep_strip(somes[0][3][2][0])
    out = []

    def go(t):
        t = deep_strip(t)
        if t[0] == "bin" and t[1] == "Add":
            go(t[2])
            go(t[3])
            return
        cv = const_value(t)
        if cv is not None:
            out.append(("const", cv))
            return
        if t[0] == "cast":
            go(t[2])
            return
        if t[0] == "bin" and t[1] == "Mul" and const_value(t[2]) is not None and const_value(t[3]) is not None:
            out.append(("const", const_value(t[2]) * const_value(t[3])))
            return
        if t[0] == "field" and strip(t[1])[0] == "downcast":
            go(strip(t[1])[1])
            return
        if t[0] == "call" and t[1]:
            last = last_seg(t[1])
            if last in ("checked_add", "saturating_add", "wrapping_add") and len(t[3]) == 2:
                go(t[3][0])
                go(t[3][1])
                return
            if last in ("expect", "unwrap", "try_from", "try_into", "unwrap_or", "into", "from") and t[3]:
                go(t[3][0])
                return
            fld = field_path(t[3][0]) if t[3] else None
            if last == "compose_len" and fld is not None:
                out.append(("clen", fld))
                return
            if last == "len" and fld is not None:
                out.append(("len", fld))
                return
            if last in ("rdlen", "compose_len") and fld is not None:
                out.append(("sub", fld))
                return
        out.append(("other", show(t)))

    go(term)
    return out, ""


# ---------------------------------------------------------------------------
# comparison sequences (canonical_cmp etc.)
# ---------------------------------------------------------------------------

def cmp_kind(fn, targs):
    last = fn.split("::")[-1]
    if last in ("lowercase_composed_cmp",):
        return "name:lower"
    if last in ("composed_cmp",):
        return "name:plain"
    if last in ("name_cmp",):
        return "name:order"
    if last == "canonical_cmp":
        return "canon:%s" % (ty_short(targs[0]) if targs else "?")
    if last in ("cmp", "partial_cmp"):
        return "ord:%s" % (ty_short(targs[0]) if targs else "?")
    if last in ("eq", "ne"):
        return "eq:%s" % (ty_short(targs[0]) if targs else "?")
    return None


def cmp_sequence(b, F):
    """Ordered list of (field, kind) comparisons in dominance order (first
    occurrence per field).  Comparisons made inside closures the function
    creates (`a.cmp(b).then_with(|| c.cmp(d))`) count at the position where
    the closure is created, in creation order."""
    seq = []

    def scan(body, pos, res):
        for bi in sorted(body.reachable_blocks()):
            t = body.blocks[bi]["t"]
            here = pos + (bi,) if body is b else pos
            if t["k"] == "call" and t["fn"] and len(t["args"]) >= 2:
                k = cmp_kind(t["fn"], t["targs"])
                if k is not None:
                    fx = field_path(res(body.term_of_operand(t["args"][0])), 1)
                    fy = field_path(res(body.term_of_operand(t["args"][1])), 2)
                    if not (fx is None or fy is None or fx == ""):
                        seq.append((here, bi if body is b else None, fx, fy, k))
            for st in body.blocks[bi]["s"]:
                if st[0] == "=" and st[2][0] == "bin" and st[2][1] in ("Eq", "Ne", "Lt", "Le", "Gt", "Ge"):
                    fx = field_path(res(body.term_of_operand(st[2][2])), 1)
                    fy = field_path(res(body.term_of_operand(st[2][3])), 2)
                    if fx and fy:
                        seq.append((here, bi if body is b else None, fx, fy, "ord:raw"))

    scan(b, (), lambda t: t)
    n = 0

    def closures(body, pos, depth):
        nonlocal n
        if depth > 2:
            return
        for bi, cb, ops in closures_created_in(F, body):
            n += 1
            p2 = (pos + (bi,) if body is b else pos) + (("c", n),)
            scan(cb, p2, lambda t, cb=cb: resolve_captures(F, cb, t))
            closures(cb, p2, depth + 1)
    closures(b, (), 0)
    first = {}
    for item in seq:
        if item[2] not in first:
            first[item[2]] = item
    items = list(first.values())

    def before(o, s):
        """o is evaluated before s on every path: block dominance in b; closure items follow
        the block that creates them and keep creation order"""
        ob, sb = o[0][0], s[0][0]
        if ob != sb:
            return b.dominates(ob, sb)
        return o[0][1:] < s[0][1:]
    rpo = b.rpo()
    items.sort(key=lambda s: (rpo.get(s[0][0], 1 << 30),) + tuple(s[0][1:]))
    return [(fx, fy, k) for _, _, fx, fy, k in items]


def compare_sites(b, F, comparators=None):
    """Two-operand comparison sites of b and of the closures it creates, in
    evaluation order: [(body, block, what, x_term, y_term)] with the operand
    terms expressed over b's parameters (captures resolved)."""
    out = []

    def scan(body, pos, res):
        for bi in sorted(body.reachable_blocks()):
            here = (pos + (bi,)) if body is b else pos + (("z", bi),)
            for st in body.blocks[bi]["s"]:
                if st[0] == "=" and st[2][0] == "bin" and st[2][1] in ("Eq", "Ne", "Lt", "Le", "Gt", "Ge"):
                    out.append((here, body, bi, st[2][1], res(body.term_of_operand(st[2][2])), res(body.term_of_operand(st[2][3]))))
            t = body.blocks[bi]["t"]
            if t["k"] == "call" and len(t["args"]) == 2 and t["fn"] and (comparators is None or comparators.search(t["fn"])):
                out.append((here, body, bi, t["fn"].split("::")[-1], res(body.term_of_operand(t["args"][0])),
                            res(body.term_of_operand(t["args"][1]))))

    scan(b, (), lambda t: t)
    n = [0]

    def closures(body, pos, depth):
        if depth > 2:
            return
        for bi, cb, ops in closures_created_in(F, body):
            n[0] += 1
            p2 = ((pos + (bi,)) if body is b else pos) + (("c", n[0]),)
            scan(cb, p2, lambda t, cb=cb: resolve_captures(F, cb, t))
            closures(cb, p2, depth + 1)
    closures(b, (), 0)

    def before(o, s):
        if o[0][0] != s[0][0]:
            return b.dominates(o[0][0], s[0][0])
        return tuple(map(str, o[0][1:])) < tuple(map(str, s[0][1:]))
    # evaluation order: reverse postorder of the block in b (agrees with dominance), then creation order of closures
    rpo = b.rpo()

    def okey(here):
        return (rpo.get(here[0], 1 << 30),) + tuple((1, x[1]) if x[0] == "c" else (2, x[1]) if isinstance(x, tuple) else (0, x) for x in here[1:])
    out.sort(key=lambda s: okey(s[0]))
    return [(body, bi, what, x, y) for _, body, bi, what, x, y in out]


def callees_deep(F, b, depth=2, scope=None, seen=None):
    """[(body, block, terminator)] of every call in b, in the closures it
    creates and in the crate-local helpers it calls (same top-level module, or
    matching `scope`), `depth` levels deep: the rules that ask "does this
    function use X" keep holding when a few lines are moved into a private
    helper or a closure."""
    seen = seen if seen is not None else set()
    if b.path in seen:
        return []
    seen.add(b.path)
    out = []
    top = b.path.lstrip("<").split("::")[0]
    for bi, t in b.calls():
        out.append((b, bi, t))
        if depth > 0:
            for nm in (t.get("res"), t.get("fn")):
                cb = F.bodies.get(nm) if nm else None
                if cb is None or cb is b:
                    continue
                local = nm.lstrip("<").split("::")[0] == top if scope is None else bool(scope.search(nm))
                if local:
                    out += callees_deep(F, cb, depth - 1, scope, seen)
                    break
    for bi, cb, ops in closures_created_in(F, b):
        out += callees_deep(F, cb, depth, scope, seen)
    return out


# ---------------------------------------------------------------------------
# population
# ---------------------------------------------------------------------------

def rdata_types(F):
    """ADTs implementing ComposeRecordData in rdata::* (not the dispatch enums)."""
    set_facts(F)
    out = {}
    for im in F.impls:
        if im["trait"] == "base::rdata::ComposeRecordData" and im["self_adt"] and im["self_adt"].startswith("rdata::") \
                and im["self_adt"] not in ("rdata::ZoneRecordData", "rdata::AllRecordData"):
            out[im["self_adt"]] = im
    return out


def impl_fn(F, im, name):
    for it in im["items"]:
        if it["name"] == name:
            return F.bodies.get(it["path"])
    return None


def find_impl(F, adt, trait):
    return [im for im in F.impls if im["self_adt"] == adt and im["trait"] == trait]


def inherent_fn(F, adt, name):
    """Bodies of inherent fns `adt::<..>::name`."""
    rx = re.compile("^" + re.escape(adt) + r"::<[^>]*(<[^>]*>[^>]*)*>::" + re.escape(name) + "$|^" + re.escape(adt) + "::" + re.escape(name) + "$")
    return [b for p, b in F.bodies.items() if rx.match(p)]


def rdlen_compress_agreement(F):
    """[(adt, rdlen body, ok, names)] for every record type whose compose_rdata
    compresses a name when the target can compress: its rdlen(compress=true)
    must not announce a length (None), because the octets written depend on
    what the compressor finds."""
    from rulelib import bool_facts
    out = []
    for adt, im in sorted(rdata_types(F).items()):
        cb = impl_fn(F, im, "compose_rdata")
        rb = impl_fn(F, im, "rdlen")
        if cb is None or rb is None:
            continue
        t_alts, f_alts, cc = compose_split(cb, F)
        names = sorted({f for _, toks in t_alts for f, k, _ in toks if k == "name:compress"})
        if not names:
            continue
        somes = [r for r in return_assignments(rb) if r[2] == "Some"]
        ok = all(any(deep_strip(tt) == ("arg", 2) and vv is False for tt, vv in bool_facts(rb, r[0], F)) for r in somes)
        out.append((adt, rb, ok, names))
    return out


# ---------------------------------------------------------------------------
# C04.canon: canonical_cmp order == canonical compose order
# ---------------------------------------------------------------------------

def check_canonical_order(ctx, F, R):
    types = rdata_types(F)
    ctx.anchor(R, "rdata types (impl ComposeRecordData)", len(types) >= 30)
    for adt in sorted(types):
        im = types[adt]
        short = adt.split("::")[-1]
        cb = impl_fn(F, im, "compose_canonical_rdata")
        cords = [i for i in find_impl(F, adt, "base::cmp::CanonicalOrd")]
        if cb is None or not cords:
            continue
        cmpb = impl_fn(F, cords[0], "canonical_cmp")
        if cmpb is None:
            continue
        alts = compose_tokens(cb, F)
        if len(alts) != 1:
            ctx.undecided_item(R, adt, "canonical compose has %d alternative signatures" % len(alts))
            continue
        toks = alts[0][1]
        if any(l for _, _, l in toks):
            ctx.undecided_item(R, adt, "canonical compose contains a loop")
            continue
        if not toks:
            ctx.undecided_item(R, adt, "no field tokens recognised in compose_canonical_rdata")
            continue
        seq = cmp_sequence(cmpb, F)
        if not seq:
            ctx.undecided_item(R, adt, "no field comparisons recognised in canonical_cmp")
            continue
        cfields = []
        for f, k, _ in toks:
            top = f.split(".")[0]
            if top not in cfields:
                cfields.append(top)
        sfields = []
        kinds_of = {}
        for fx, fy, k in seq:
            top = fx.split(".")[0]
            kinds_of.setdefault(top, set()).add(k)
            if top not in sfields:
                sfields.append(top)
        ctx.ob(R, adt, "canonical_cmp field order == canonical wire order", cfields == sfields,
               "%s::canonical_cmp compares fields in order %s but the canonical wire form writes %s: the "
               "canonical ordering is not the octet order of the canonical form (RFC 4034 6.3)"
               % (short, sfields, cfields), where=cmpb.where())
        # kinds
        kmap = {}
        for f, k, _ in toks:
            kmap.setdefault(f.split(".")[0], k)
        for fx, fy, k in seq:
            top = fx.split(".")[0]
            ck = kmap.get(top)
            if ck is None:
                continue
            if ck == "name:lower":
                ok = k == "name:lower"
                why = "a name that is lower-cased in the canonical form must be compared with lowercase_composed_cmp"
            elif ck == "name:plain":
                ok = k == "name:plain"
                why = "a name written as is in the canonical form must be compared with composed_cmp (case-sensitive octet order)"
            else:
                ok = k not in ("name:order",)
                why = "non-name field"
                # a nested type that can hold a name (enum / struct generic over the name type) compared with its
                # ordinary ordering: that ordering treats the name as a name (label order, case-insensitive), the
                # canonical form writes it as octets
                if ok and k.startswith("ord:"):
                    nested = [a for a in F.adts.values() if a["path"].split("::")[-1] == k[4:] and a["path"].startswith(("rdata::", "base::"))]
                    for a in nested:
                        ftys = [f["ty"] for v in a["variants"] for f in v["fields"]]
                        if any(re.match(r"^[A-Z][A-Za-z]*$", ty.strip()) and ty.strip() not in ("Octs", "O", "Octets") for ty in ftys) \
                                and any("Name" in (p_ or "") or (p_ or "") in ("N",) for p_ in re.findall(r"[A-Z][A-Za-z]*", " ".join(ftys))):
                            if any(ty.strip() in ("N", "Name", "NN") for ty in ftys) and not \
                                    (kinds_of.get(top, set()) & {"name:plain", "name:lower"} or any(x.startswith("canon:") for x in kinds_of.get(top, set()))):
                                ok = False
                                why = ("the field's type can hold a domain name and is compared with its ordinary ordering (name order, "
                                       "case-insensitive); the canonical form writes the name as octets")
            ctx.ob(R, adt, "canonical_cmp kind of %s" % top, ok,
                   "%s.%s: canonical form writes it as %s but canonical_cmp compares it with %s (%s)"
                   % (short, top, ck, k, why), where=cmpb.where())


if __name__ == "__main__":
    import glob, os, sys
    import mirlib
    f = sorted(glob.glob(os.path.join(os.path.dirname(os.path.abspath(__file__)), "..", ".cache", "facts", "*-all.jsonl")), key=os.path.getmtime)[-1]
    F = mirlib.Facts(f)
    for adt, im in sorted(rdata_types(F).items()):
        if len(sys.argv) > 1 and sys.argv[1] not in adt:
            continue
        print("==", adt)
        for fn in ("compose_rdata", "compose_canonical_rdata"):
            b = impl_fn(F, im, fn)
            if b:
                for ck, toks in compose_tokens(b, F):
                    print("  %-24s %s" % (fn, [(f, k) + (("loop",) if l else ()) for f, k, l in toks]))
        b = impl_fn(F, im, "rdlen")
        if b:
            print("  rdlen", rdlen_summands(b, F))
        for pb in inherent_fn(F, adt, "parse"):
            print("  parse", parse_field_order(pb, F, adt))
        for ci in find_impl(F, adt, "base::cmp::CanonicalOrd"):
            cb = impl_fn(F, ci, "canonical_cmp")
            if cb:
                print("  canonical_cmp", cmp_sequence(cb, F))
