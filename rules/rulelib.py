"""Shared rule helpers on top of mirlib: dominating edge facts, checked-call
normalisation, return-site classification, must-pass-through."""
import re

from mirlib import BranchFacts, strip, deep_strip, show, walk, const_value, is_call_to


# ---------------------------------------------------------------------------
# dominating edges and facts
# ---------------------------------------------------------------------------

def dominating_edges(body, bb):
    """Switch edges (sw_bb, label) such that every path entry -> bb takes
    that edge."""
    cache = body.__dict__.setdefault("_domedges", {})
    if bb in cache:
        return cache[bb]
    out = []
    reach = body.reachable_blocks()
    if bb not in reach:
        cache[bb] = out
        return out
    for x in reach:
        if body.blocks[x]["t"]["k"] != "switch":
            continue
        if not body.dominates(x, bb):
            continue
        labels = [lab for _, lab in body.succs(x)]
        for lab in labels:
            r = body.reach_from(0, removed_edges=[(x, lab)])
            if bb not in r:
                out.append((x, lab))
    cache[bb] = out
    return out


def facts_at(body, bb, facts=None):
    """[(term, value, (sw_bb,label))] of all switch-edge facts dominating bb."""
    bf = BranchFacts(body, facts)
    out = []
    for (x, lab) in dominating_edges(body, bb):
        ef = bf.edge_facts(x)
        if lab in ef:
            t, v = ef[lab]
            out.append((t, v, (x, lab)))
    return out


SUCCESS_VARIANTS = {"Ok", "Some", "Continue", "Ready"}
FAILURE_VARIANTS = {"Err", "None", "Break"}


def outcome_facts(body, bb, facts=None):
    """Normalise dominating facts about Result/Option/bool-returning calls.

    Returns list of (subject_term, outcome) with outcome in
    {'success','failure'} for Result/Option-like subjects, and
    (subject_term, True/False) for boolean subjects."""
    out = []
    for t, v, e in facts_at(body, bb, facts):
        out.extend(_norm_fact(t, v))
    return out


def _norm_fact(t, v):
    res = []
    ts = strip(t, calls=False)
    if isinstance(v, tuple) and v[0] == "variant":
        name = v[1]
        if ts[0] == "call" and ts[1] and ts[1].endswith("Try::branch") and ts[3]:
            inner = ts[3][0]
            if name == "Continue":
                res.append((inner, "success"))
            elif name == "Break":
                res.append((inner, "failure"))
        if name in SUCCESS_VARIANTS:
            res.append((ts, "success"))
        elif name in FAILURE_VARIANTS:
            res.append((ts, "failure"))
        else:
            res.append((ts, ("variant", name)))
        return res
    if isinstance(v, bool):
        if ts[0] == "call" and ts[1] and ts[3]:
            nm = ts[1]
            inner = ts[3][0]
            if re.search(r"::(is_err|is_none)$", nm):
                res.append((inner, "failure" if v else "success"))
            elif re.search(r"::(is_ok|is_some)$", nm):
                res.append((inner, "success" if v else "failure"))
        res.append((ts, v))
        return res
    res.append((ts, v))
    return res


def call_bb_of(t):
    """If the term (after stripping refs and transparent wrappers like
    map_err/into) is a call result, return the bb of that call."""
    t = strip(t, calls=False)
    if t[0] == "call":
        return t[5]
    return None


WRAPPERS = re.compile(
    r"::(map_err|map|into|from|ok_or|ok_or_else|as_ref|as_mut|branch|clone|copied|cloned)$"
)


def underlying_calls(t, depth=0):
    """Call bbs whose result flows into t through result-preserving wrappers
    (`.map_err(..)`, `.into()`, `?`...)."""
    out = set()
    t = strip(t, calls=False)
    if t[0] == "call":
        out.add(t[5])
        if t[1] and WRAPPERS.search(t[1]) and t[3] and depth < 6:
            out |= underlying_calls(t[3][0], depth + 1)
    elif t[0] == "phi":
        for a in t[2]:
            out |= underlying_calls(a, depth + 1)
    return out


def succeeded_calls(body, bb, facts=None):
    """Set of call-block ids whose result is known to be the success variant
    (or, for boolean calls, see bool_calls) on every path to bb."""
    s = set()
    for subj, o in outcome_facts(body, bb, facts):
        if o == "success":
            s |= underlying_calls(subj)
    return s


def failed_calls(body, bb, facts=None):
    s = set()
    for subj, o in outcome_facts(body, bb, facts):
        if o == "failure":
            s |= underlying_calls(subj)
    return s


def bool_facts(body, bb, facts=None):
    """[(term, bool)] dominating boolean facts (stripped terms)."""
    return [(deep_strip(s), o) for s, o in outcome_facts(body, bb, facts) if isinstance(o, bool)]


# ---------------------------------------------------------------------------
# return sites
# ---------------------------------------------------------------------------

def return_assignments(body):
    """[(bb, idx, kind, rvalue_term)] for every assignment to _0 (and call
    destinations into _0).  kind: 'Ok','Err','Some','None','true','false',
    'call:<fn>', 'other'."""
    out = []
    for bi in sorted(body.reachable_blocks()):
        blk = body.blocks[bi]
        for si, st in enumerate(blk["s"]):
            if st[0] == "=" and st[1] == [0]:
                rv = st[2]
                kind = "other"
                if rv[0] == "agg" and rv[1][0] == "adt":
                    kind = rv[1][2]
                elif rv[0] == "use" and rv[1][0] == "k" and rv[1][1] == "bool":
                    kind = "true" if rv[1][2] else "false"
                out.append((bi, si, kind, body.term_of_rvalue(rv)))
        t = blk["t"]
        if t["k"] == "call" and t["dest"] == [0]:
            out.append((bi, None, "call:%s" % (t["res"] or t["fn"]), None))
    return out


def must_pass(body, src, dsts, vias, removed_edges=()):
    """True iff every normal path from block `src` to any block in `dsts`
    enters some block in `vias` (src itself counts if it is a via)."""
    vias = set(vias)
    dsts = set(dsts)
    if src in vias:
        return True, None
    p = body.path_avoiding(src, dsts, removed_edges=removed_edges, removed_blocks=vias)
    return (p is None), p


def entry_must_pass(body, dsts, vias):
    return must_pass(body, 0, dsts, vias)


def fmt_path(p):
    return " -> ".join("bb%d" % b for b in p) if p else ""


# ---------------------------------------------------------------------------
# numeric guards
# ---------------------------------------------------------------------------

def upper_bounds(body, bb, subject_pred, facts=None):
    """Collect constant strict upper bounds K (subject < K) implied by
    dominating boolean facts for terms t with subject_pred(t) true.

    Recognises  Lt(x,K)=T, Ge(x,K)=F, Le(x,K)=T (-> K+1), Gt(x,K)=F (-> K+1),
    Gt(K,x)=T, Le(K,x)=F, Ge(K,x)=T (-> K+1), Lt(K,x)=F (-> K+1)."""
    out = []
    for t, v in bool_facts(body, bb, facts):
        if t[0] != "bin":
            continue
        op, a, b = t[1], t[2], t[3]
        ka, kb = const_value(a), const_value(b)
        if kb is not None and subject_pred(a):
            if (op == "Lt" and v) or (op == "Ge" and not v):
                out.append((kb, t, v))
            elif (op == "Le" and v) or (op == "Gt" and not v):
                out.append((kb + 1, t, v))
        if ka is not None and subject_pred(b):
            if (op == "Gt" and v) or (op == "Le" and not v):
                out.append((ka, t, v))
            elif (op == "Ge" and v) or (op == "Lt" and not v):
                out.append((ka + 1, t, v))
    return out


def same_term(a, b):
    return _canon(deep_strip(a)) == _canon(deep_strip(b))


def _canon(t):
    """Hashable canonical form (lists -> tuples; call bb ids kept)."""
    if isinstance(t, (list, tuple)):
        return tuple(_canon(x) for x in t)
    return t


def canon(t):
    return _canon(deep_strip(t))


def canon_nobb(t):
    """Canonical form ignoring call-site block ids (pure structural)."""
    t = deep_strip(t)

    def go(x):
        if isinstance(x, tuple) and x and x[0] == "call":
            return ("call", x[1], x[2], tuple(go(a) for a in x[3]))
        if isinstance(x, (list, tuple)):
            return tuple(go(y) for y in x)
        return x

    return go(t)


def roots(t):
    """Leaf roots of a term: args, locals, consts, call results."""
    t = strip(t)
    k = t[0]
    if k in ("field", "downcast", "discr"):
        return roots(t[1])
    if k == "idx":
        return roots(t[1])
    if k == "cast":
        return roots(t[2])
    if k == "un":
        return roots(t[2])
    if k == "bin":
        return roots(t[2]) | roots(t[3])
    if k == "phi":
        s = set()
        for a in t[2]:
            s |= roots(a)
        return s
    if k == "call":
        return {("call", t[1], t[5])}
    if k == "arg":
        return {("arg", t[1])}
    if k == "k":
        return {("k", t[1])}
    return {(k,) + tuple(x for x in t[1:] if isinstance(x, (int, str)))}


def field_path(t):
    """For a place-like term rooted at an arg: ('arg', n, [field names])."""
    names = []
    t = strip(t)
    while True:
        if t[0] == "field":
            names.append(t[2])
            t = strip(t[1])
        elif t[0] in ("downcast",):
            t = strip(t[1])
        elif t[0] == "idx":
            names.append("[]")
            t = strip(t[1])
        else:
            break
    if t[0] == "arg":
        return ("arg", t[1], names[::-1])
    if t[0] == "phi" and t[2] and strip(t[2][0])[0] == "arg":
        return ("arg", strip(t[2][0])[1], names[::-1])
    return None
