"""Shared rule helpers on top of mirlib: dominating edge facts, checked-call
normalisation, return-site classification, must-pass-through."""
import re

from mirlib import BranchFacts, strip, deep_strip, show, walk, const_value, is_call_to


# ---------------------------------------------------------------------------
# dominating edges and facts
# ---------------------------------------------------------------------------

def dominating_edges(body, bb):
    """Switch edges (sw_bb, label) such that every path entry -> bb takes
    that edge."""
    cache = body.__dict__.setdefault("_domedges", {})
    if bb in cache:
        return cache[bb]
    out = []
    reach = body.reachable_blocks()
    if bb not in reach:
        cache[bb] = out
        return out
    for x in reach:
        if body.blocks[x]["t"]["k"] != "switch":
            continue
        if not body.dominates(x, bb):
            continue
        labels = [lab for _, lab in body.succs(x)]
        for lab in labels:
            r = body.reach_from(0, removed_edges=[(x, lab)])
            if bb not in r:
                out.append((x, lab))
    cache[bb] = out
    return out


def facts_at(body, bb, facts=None):
    """[(term, value, (sw_bb,label))] of all switch-edge facts dominating bb."""
    bf = BranchFacts(body, facts)
    out = []
    for (x, lab) in dominating_edges(body, bb):
        ef = bf.edge_facts(x)
        if lab in ef:
            t, v = ef[lab]
            out.append((t, v, (x, lab)))
    return out


def controlling_switches(body, bb):
    """Switch blocks the (diverging) site bb is immediately control dependent
    on: grow the set Z of blocks that inevitably reach bb (every normal
    successor in Z); the switches with one successor in Z and one outside are
    the decisions that select the site.  Used for explicit panic sites whose
    block is the merge point of several match arms (`_ => unreachable!()`
    reached from both the None arm and the otherwise arm), where no single
    edge dominates."""
    z = {bb}
    preds = body.preds()
    changed = True
    while changed:
        changed = False
        for blk in list(z):
            for p, lab in preds.get(blk, ()):
                if p in z:
                    continue
                ss = [s for s, _ in body.succs(p)]
                if ss and all(s in z for s in ss):
                    z.add(p)
                    changed = True
    out = []
    for blk in z:
        for p, lab in preds.get(blk, ()):
            if p not in z and body.blocks[p]["t"]["k"] == "switch" and p not in out:
                out.append(p)
    return sorted(out)


def control_terms(body, bb, facts=None):
    """terms deciding whether bb is reached: dominating switch-edge facts plus
    the discriminants of the switches bb is immediately control dependent on."""
    out = [t for t, v, e in facts_at(body, bb, facts)]
    for sw in controlling_switches(body, bb):
        out.append(body.term_of_operand(body.blocks[sw]["t"]["d"]))
    return out


SUCCESS_VARIANTS = {"Ok", "Some", "Continue", "Ready"}
FAILURE_VARIANTS = {"Err", "None", "Break"}


def outcome_facts(body, bb, facts=None):
    """Normalise dominating facts about Result/Option/bool-returning calls.

    Returns list of (subject_term, outcome) with outcome in
    {'success','failure'} for Result/Option-like subjects, and
    (subject_term, True/False) for boolean subjects."""
    out = []
    for t, v, e in facts_at(body, bb, facts):
        out.extend(_norm_fact(t, v))
    return out


def _norm_fact(t, v):
    res = []
    ts = strip(t, calls=False)
    if isinstance(v, tuple) and v[0] == "variant":
        name = v[1]
        if ts[0] == "call" and ts[1] and ts[1].endswith("Try::branch") and ts[3]:
            inner = ts[3][0]
            if name == "Continue":
                res.append((inner, "success"))
            elif name == "Break":
                res.append((inner, "failure"))
        if name in SUCCESS_VARIANTS:
            res.append((ts, "success"))
        elif name in FAILURE_VARIANTS:
            res.append((ts, "failure"))
        else:
            res.append((ts, ("variant", name)))
        return res
    if isinstance(v, bool):
        if ts[0] == "call" and ts[1] and ts[3]:
            nm = ts[1]
            inner = ts[3][0]
            if re.search(r"::(is_err|is_none)$", nm):
                res.append((inner, "failure" if v else "success"))
            elif re.search(r"::(is_ok|is_some)$", nm):
                res.append((inner, "success" if v else "failure"))
        res.append((ts, v))
        return res
    res.append((ts, v))
    return res


def call_bb_of(t):
    """If the term (after stripping refs and transparent wrappers like
    map_err/into) is a call result, return the bb of that call."""
    t = strip(t, calls=False)
    if t[0] == "call":
        return t[5]
    return None


WRAPPERS = re.compile(
    r"::(map_err|map|into|from|ok_or|ok_or_else|as_ref|as_mut|branch|clone|copied|cloned)$"
)


def underlying_calls(t, depth=0):
    """Call bbs whose result flows into t through result-preserving wrappers
    (`.map_err(..)`, `.into()`, `?`...)."""
    out = set()
    t = strip(t, calls=False)
    if t[0] == "call":
        out.add(t[5])
        if t[1] and WRAPPERS.search(t[1]) and t[3] and depth < 6:
            out |= underlying_calls(t[3][0], depth + 1)
    elif t[0] == "phi":
        for a in t[2]:
            out |= underlying_calls(a, depth + 1)
    return out


def succeeded_calls(body, bb, facts=None):
    """Set of call-block ids whose result is known to be the success variant
    (or, for boolean calls, see bool_calls) on every path to bb."""
    s = set()
    for subj, o in outcome_facts(body, bb, facts):
        if o == "success":
            s |= underlying_calls(subj)
    return s


def failed_calls(body, bb, facts=None):
    s = set()
    for subj, o in outcome_facts(body, bb, facts):
        if o == "failure":
            s |= underlying_calls(subj)
    return s


_NEG = {"Eq": "Ne", "Ne": "Eq", "Lt": "Ge", "Ge": "Lt", "Gt": "Le", "Le": "Gt"}
_MIRROR = {"Eq": "Eq", "Ne": "Ne", "Lt": "Gt", "Gt": "Lt", "Le": "Ge", "Ge": "Le"}
_NEG_CALL = {"eq": "ne", "ne": "eq", "lt": "ge", "ge": "lt", "gt": "le", "le": "gt",
             "is_some": "is_none", "is_none": "is_some", "is_ok": "is_err", "is_err": "is_ok"}


def equivalent_forms(t, v):
    """All spellings of one boolean fact: `a != 1` false == `a == 1` true ==
    `1 == a` true ...; `x.ne(y)` false == `x.eq(y)` true.  Rules match one
    spelling; a maintainer who negates a condition and swaps the branches
    has not changed the fact."""
    out = [(t, v)]
    if t[0] == "bin" and t[1] in _NEG:
        op, a, b = t[1], t[2], t[3]
        rest = tuple(t[4:])
        out.append((("bin", _NEG[op], a, b) + rest, not v))
        out.append((("bin", _MIRROR[op], b, a) + rest, v))
        out.append((("bin", _NEG[_MIRROR[op]], b, a) + rest, not v))
    elif t[0] == "call" and t[1]:
        m = re.search(r"::(eq|ne|lt|le|gt|ge|is_some|is_none|is_ok|is_err)$", t[1])
        if m:
            nm = t[1][: m.start(1)] + _NEG_CALL[m.group(1)]
            out.append((("call", nm) + tuple(t[2:]), not v))
    return out


def bool_facts(body, bb, facts=None):
    """[(term, bool)] dominating boolean facts (stripped terms), each in all
    of its equivalent spellings."""
    out = []
    for s, o in outcome_facts(body, bb, facts):
        if isinstance(o, bool):
            out.extend(equivalent_forms(deep_strip(s), o))
    return out


# ---------------------------------------------------------------------------
# return sites
# ---------------------------------------------------------------------------

def return_assignments(body):
    """[(bb, idx, kind, rvalue_term)] for every assignment to _0 (and call
    destinations into _0).  kind: 'Ok','Err','Some','None','true','false',
    'call:<fn>', 'other'."""
    out = []
    for bi in sorted(body.reachable_blocks()):
        blk = body.blocks[bi]
        for si, st in enumerate(blk["s"]):
            if st[0] == "=" and st[1] == [0]:
                rv = st[2]
                kind = "other"
                if rv[0] == "agg" and rv[1][0] == "adt":
                    kind = rv[1][2]
                elif rv[0] == "use" and rv[1][0] == "k" and rv[1][1] == "bool":
                    kind = "true" if rv[1][2] else "false"
                out.append((bi, si, kind, body.term_of_rvalue(rv)))
        t = blk["t"]
        if t["k"] == "call" and t["dest"] == [0]:
            fn = t["res"] or t["fn"] or ""
            if fn.endswith("FromResidual::from_residual") or "FromResidual<" in fn and fn.endswith("::from_residual"):
                # `expr?` propagating a failure is an error return like `return Err(..)` / `return None`
                ret_ty = body.locals[0] if body.locals else ""
                kind = "None" if ret_ty.startswith("core::option::Option") else "Err"
                out.append((bi, None, kind, None))
            else:
                out.append((bi, None, "call:%s" % fn, None))
    return out


def must_pass(body, src, dsts, vias, removed_edges=()):
    """True iff every normal path from block `src` to any block in `dsts`
    enters some block in `vias` (src itself counts if it is a via)."""
    vias = set(vias)
    dsts = set(dsts)
    if src in vias:
        return True, None
    p = body.path_avoiding(src, dsts, removed_edges=removed_edges, removed_blocks=vias)
    return (p is None), p


def entry_must_pass(body, dsts, vias):
    return must_pass(body, 0, dsts, vias)


def fmt_path(p):
    return " -> ".join("bb%d" % b for b in p) if p else ""


# ---------------------------------------------------------------------------
# numeric guards
# ---------------------------------------------------------------------------

def upper_bounds(body, bb, subject_pred, facts=None):
    """Collect constant strict upper bounds K (subject < K) implied by
    dominating boolean facts for terms t with subject_pred(t) true.

    Recognises  Lt(x,K)=T, Ge(x,K)=F, Le(x,K)=T (-> K+1), Gt(x,K)=F (-> K+1),
    Gt(K,x)=T, Le(K,x)=F, Ge(K,x)=T (-> K+1), Lt(K,x)=F (-> K+1)."""
    out = []
    for t, v in bool_facts(body, bb, facts):
        if t[0] != "bin":
            continue
        op, a, b = t[1], t[2], t[3]
        ka, kb = const_value(a), const_value(b)
        if kb is not None and subject_pred(a):
            if (op == "Lt" and v) or (op == "Ge" and not v):
                out.append((kb, t, v))
            elif (op == "Le" and v) or (op == "Gt" and not v):
                out.append((kb + 1, t, v))
        if ka is not None and subject_pred(b):
            if (op == "Gt" and v) or (op == "Le" and not v):
                out.append((ka, t, v))
            elif (op == "Ge" and v) or (op == "Lt" and not v):
                out.append((ka + 1, t, v))
    return out


def same_term(a, b):
    return _canon(deep_strip(a)) == _canon(deep_strip(b))


def _canon(t):
    """Hashable canonical form (lists -> tuples; call bb ids kept).  A
    multiply-defined local is identified by its number only (its expansion
    depends on where a cyclic definition chain was cut)."""
    if isinstance(t, (list, tuple)):
        if t and t[0] == "phi" and len(t) == 3:
            return ("phi", t[1])
        return tuple(_canon(x) for x in t)
    return t


def canon(t):
    return _canon(deep_strip(t))


def canon_nobb(t):
    """Canonical form ignoring call-site block ids (pure structural)."""
    t = deep_strip(t)

    def go(x):
        if isinstance(x, tuple) and x and x[0] == "phi" and len(x) == 3:
            return ("phi", x[1])
        if isinstance(x, tuple) and x and x[0] == "call":
            return ("call", x[1], x[2], tuple(go(a) for a in x[3]))
        if isinstance(x, (list, tuple)):
            return tuple(go(y) for y in x)
        return x

    return go(t)


def roots(t):
    """Leaf roots of a term: args, locals, consts, call results."""
    t = strip(t)
    k = t[0]
    if k in ("field", "downcast", "discr"):
        return roots(t[1])
    if k == "idx":
        return roots(t[1])
    if k == "cast":
        return roots(t[2])
    if k == "un":
        return roots(t[2])
    if k == "bin":
        return roots(t[2]) | roots(t[3])
    if k == "phi":
        s = set()
        for a in t[2]:
            s |= roots(a)
        return s
    if k == "call":
        return {("call", t[1], t[5])}
    if k == "arg":
        return {("arg", t[1])}
    if k == "k":
        return {("k", t[1])}
    return {(k,) + tuple(x for x in t[1:] if isinstance(x, (int, str)))}


def field_path(t):
    """For a place-like term rooted at an arg: ('arg', n, [field names])."""
    names = []
    t = strip(t)
    while True:
        if t[0] == "field":
            names.append(t[2])
            t = strip(t[1])
        elif t[0] in ("downcast",):
            t = strip(t[1])
        elif t[0] == "idx":
            names.append("[]")
            t = strip(t[1])
        else:
            break
    if t[0] == "arg":
        return ("arg", t[1], names[::-1])
    if t[0] == "phi" and t[2] and strip(t[2][0])[0] == "arg":
        return ("arg", strip(t[2][0])[1], names[::-1])
    return None


# ---------------------------------------------------------------------------
# ordering relations, freshness, cycles
# ---------------------------------------------------------------------------

def relations(body, bb, facts=None):
    """Dominating ordering facts normalised to (a, '<'|'<=', b) over stripped
    terms."""
    out = []
    for t, v in bool_facts(body, bb, facts):
        if t[0] == "call" and t[1] and re.search(r"cmp::PartialOrd(<.*>)?::(lt|le|gt|ge)$", t[1]) and len(t[3]) == 2:
            t = ("bin", {"lt": "Lt", "le": "Le", "gt": "Gt", "ge": "Ge"}[t[1].rsplit("::", 1)[1]], t[3][0], t[3][1])
        if t[0] != "bin" or t[1] not in ("Lt", "Le", "Gt", "Ge"):
            continue
        op, a, b = t[1], t[2], t[3]
        if (op == "Lt" and v) or (op == "Ge" and not v):
            out.append((a, "<", b))
        elif (op == "Gt" and v) or (op == "Le" and not v):
            out.append((b, "<", a))
        elif (op == "Le" and v) or (op == "Gt" and not v):
            out.append((a, "<=", b))
        elif (op == "Ge" and v) or (op == "Lt" and not v):
            out.append((b, "<=", a))
    return out


def relation_edges(body, bb, facts=None):
    """Like relations() but also returns the switch edge of each fact:
    [(a, rel, b, (sw_bb, label))]."""
    out = []
    for t, v, e in facts_at(body, bb, facts):
        for subj, o in _norm_fact(t, v):
            if not isinstance(o, bool):
                continue
            s = deep_strip(subj)
            if s[0] != "bin" or s[1] not in ("Lt", "Le", "Gt", "Ge"):
                continue
            op, a, b = s[1], s[2], s[3]
            if (op == "Lt" and o) or (op == "Ge" and not o):
                out.append((a, "<", b, e))
            elif (op == "Gt" and o) or (op == "Le" and not o):
                out.append((b, "<", a, e))
            elif (op == "Le" and o) or (op == "Gt" and not o):
                out.append((a, "<=", b, e))
            elif (op == "Ge" and o) or (op == "Lt" and not o):
                out.append((b, "<=", a, e))
    return out


def leaf_def_blocks(body, operand, depth=0):
    """Blocks in which the leaf reads (field reads, calls) feeding `operand`
    are evaluated, following copies, casts and arithmetic through
    single-definition temporaries."""
    out = set()
    if operand[0] not in ("c", "m"):
        return out
    pl = operand[1]
    if len(pl) > 1:
        return out  # direct place read: evaluated where it is used (caller adds that block)
    n = pl[0]
    ds = body.defs().get(n, [])
    if 1 <= n <= body.nargs and not ds:
        return out
    for d in ds:
        if d[0] == "call":
            out.add(d[1])
        elif d[0] == "resume":
            out.add(d[1])
        elif d[0] == "stmt":
            rv = d[3]
            k = rv[0]
            ops = []
            if k == "use":
                ops = [rv[1]]
            elif k == "cast":
                ops = [rv[2]]
            elif k == "bin":
                ops = [rv[2], rv[3]]
            elif k == "un":
                ops = [rv[2]]
            else:
                out.add(d[1])
                continue
            sub = set()
            direct = False
            for o in ops:
                if o[0] in ("c", "m") and len(o[1]) > 1:
                    direct = True
                elif o[0] in ("c", "m") and depth < 12:
                    sub |= leaf_def_blocks(body, o, depth + 1)
            if direct:
                out.add(d[1])
            out |= sub
    return out


def on_every_cycle(body, site, via):
    """True iff every CFG cycle through block `site` passes through block
    `via` (or there is no cycle through `site`)."""
    if site == via:
        return True
    for s, lab in body.succs(site):
        if s == via:
            continue
        r = body.reach_from(s, removed_blocks=[via])
        if site in r or s == site:
            return False
    return True


def cyclic_blocks(body, removed=()):
    """Blocks lying on some cycle of the normal-edge CFG after removing the
    given blocks."""
    removed = set(removed)
    reach = [b for b in body.reachable_blocks() if b not in removed]
    out = set()
    for b in reach:
        for s, lab in body.succs(b):
            if s in removed:
                continue
            if s == b or b in body.reach_from(s, removed_blocks=removed):
                out.add(b)
                break
    return out


def interval_of(body, bb, subject_pred, facts=None):
    """Integer interval [lo, hi] (None = unbounded) and excluded constants
    implied for terms satisfying subject_pred by the dominating facts at bb.
    Understands </<=/>/>= against constants, ==/!= constants and
    RangeInclusive/Range::contains."""
    lo, hi, excl = None, None, set()

    def tighten(nlo=None, nhi=None):
        nonlocal lo, hi
        if nlo is not None and (lo is None or nlo > lo):
            lo = nlo
        if nhi is not None and (hi is None or nhi < hi):
            hi = nhi

    for t, v in bool_facts(body, bb, facts):
        if t[0] == "bin":
            op, a, b = t[1], t[2], t[3]
            ka, kb = const_value(a), const_value(b)
            if kb is not None and subject_pred(a):
                x = kb
                if (op == "Lt" and v) or (op == "Ge" and not v):
                    tighten(nhi=x - 1)
                elif (op == "Le" and v) or (op == "Gt" and not v):
                    tighten(nhi=x)
                elif (op == "Gt" and v) or (op == "Le" and not v):
                    tighten(nlo=x + 1)
                elif (op == "Ge" and v) or (op == "Lt" and not v):
                    tighten(nlo=x)
                elif (op == "Eq" and v) or (op == "Ne" and not v):
                    tighten(nlo=x, nhi=x)
                elif (op == "Ne" and v) or (op == "Eq" and not v):
                    excl.add(x)
            elif ka is not None and subject_pred(b):
                x = ka
                if (op == "Gt" and v) or (op == "Le" and not v):
                    tighten(nhi=x - 1)
                elif (op == "Ge" and v) or (op == "Lt" and not v):
                    tighten(nhi=x)
                elif (op == "Lt" and v) or (op == "Ge" and not v):
                    tighten(nlo=x + 1)
                elif (op == "Le" and v) or (op == "Gt" and not v):
                    tighten(nlo=x)
                elif (op == "Eq" and v) or (op == "Ne" and not v):
                    tighten(nlo=x, nhi=x)
                elif (op == "Ne" and v) or (op == "Eq" and not v):
                    excl.add(x)
        elif t[0] == "call" and t[1] and t[1].endswith("::contains") and len(t[3]) == 2 and v is True:
            rng = deep_strip(t[3][0])
            if subject_pred(deep_strip(t[3][1])):
                if rng[0] == "call" and "RangeInclusive" in (rng[1] or "") and rng[1].endswith("::new"):
                    a, b = const_value(rng[3][0]), const_value(rng[3][1])
                    if a is not None and b is not None:
                        tighten(nlo=a, nhi=b)
                elif rng[0] == "agg" and len(rng[1]) > 1 and str(rng[1][1]).endswith("::Range"):
                    a, b = const_value(rng[2][0]), const_value(rng[2][1])
                    if a is not None and b is not None:
                        tighten(nlo=a, nhi=b - 1)
    # fold excluded endpoints
    changed = True
    while changed:
        changed = False
        if lo is not None and lo in excl:
            lo += 1
            changed = True
        if hi is not None and hi in excl:
            hi -= 1
            changed = True
    return lo, hi, excl


def names_in_term(body, term):
    """User variable names of the locals a term is built from (including the destinations of calls)."""
    out = set()
    for s in walk(term):
        n = None
        if s[0] in ("local", "phi") and s[1] >= 0:
            n = body.var_name(s[1])
        elif s[0] == "call" and isinstance(s[5], int):
            dest = body.blocks[s[5]]["t"].get("dest")
            if dest and len(dest) == 1:
                n = body.var_name(dest[0])
        elif s[0] == "arg":
            n = body.var_name(s[1])
        if n:
            out.add(n)
    return out


# ---------------------------------------------------------------------------
# typestate flow: forward exploration of (block, state) with constant-flag pruning
# ---------------------------------------------------------------------------

def flow_states(body, facts, init, on_call, on_edge, max_configs=200000, on_block=None):
    """Forward typestate exploration.  Configurations are (block, state, env)
    where env holds the bool locals assigned a constant on the path (the
    lowering of `matches!`, `&&`, `||` sets a temporary to true/false and
    switches on it right after: following only the feasible edge keeps the
    analysis path-sensitive for exactly those flags).

    on_call(bb, terminator, state) -> state after the call returns normally
    on_edge(bb, label, (term, value) | None, state) -> state on that switch edge

    Returns {bb: set of states at block entry}; None if the configuration
    budget is exhausted (callers must treat that as undecided)."""
    bf = BranchFacts(body, facts)
    at = {}
    seen = set()
    work = [(0, init, frozenset())]
    n = 0
    while work:
        bb, st, envf = work.pop()
        if (bb, st, envf) in seen:
            continue
        seen.add((bb, st, envf))
        n += 1
        if n > max_configs:
            return None
        at.setdefault(bb, set()).add(st)
        env = dict(envf)
        blk = body.blocks[bb]
        if on_block is not None:
            # state change by the block's own statements (seen after the entry state was recorded)
            st = on_block(bb, st)
        for s in blk["s"]:
            if s[0] == "=" and len(s[1]) == 1:
                rv = s[2]
                dst = s[1][0]
                for k_ in [k_ for k_ in env if isinstance(k_, tuple) and k_[0] == dst]:
                    env.pop(k_, None)
                if rv[0] == "use" and rv[1][0] == "k" and rv[1][1] == "bool" and rv[1][2] in (0, 1, True, False):
                    env[dst] = 1 if rv[1][2] in (1, True) else 0
                elif rv[0] == "agg" and rv[1][0] == "tuple":
                    # `(x, true)`: a flag travelling in a tuple (`let (a, flag) = match .. { A => (.., true), B => (.., false) }`)
                    env.pop(dst, None)
                    for i_, o_ in enumerate(rv[2]):
                        if o_[0] == "k" and o_[1] == "bool" and o_[2] in (0, 1, True, False):
                            env[(dst, i_)] = 1 if o_[2] in (1, True) else 0
                elif rv[0] == "use" and rv[1][0] in ("c", "m") and len(rv[1][1]) == 2 and isinstance(rv[1][1][1], list) \
                        and rv[1][1][1][0] == "." and (rv[1][1][0], rv[1][1][1][1]) in env:
                    env[dst] = env[(rv[1][1][0], rv[1][1][1][1])]
                elif rv[0] == "use" and rv[1][0] in ("c", "m") and len(rv[1][1]) == 1 and rv[1][1][0] in env \
                        and body.locals[dst] == "bool":
                    env[dst] = env[rv[1][1][0]]
                else:
                    env.pop(dst, None)
            elif s[0] == "=" and s[1]:
                env.pop(s[1][0], None)
                for k_ in [k_ for k_ in env if isinstance(k_, tuple) and k_[0] == s[1][0]]:
                    env.pop(k_, None)
        t = blk["t"]
        if t["k"] == "call":
            if t.get("dest"):
                env.pop(t["dest"][0], None)
            # a call taking `&mut flag` could change it: forget flags whose address was taken is not
            # tracked; flags are compiler temporaries, never borrowed
            if t.get("t") is not None:
                work.append((t["t"], on_call(bb, t, st), frozenset(env.items())))
            continue
        if t["k"] == "switch":
            ef = bf.edge_facts(bb)
            known = None
            d = t["d"]
            if t["ty"] == "bool" and d[0] in ("c", "m") and len(d[1]) == 1 and d[1][0] in env:
                known = env[d[1][0]]
            listed = [v for v, _ in t["v"]]
            for s, lab in body.succs(bb):
                if known is not None:
                    takes = (lab == ("v", known)) or (lab == ("o",) and known not in listed)
                    if not takes:
                        continue
                work.append((s, on_edge(bb, lab, ef.get(lab), st), frozenset(env.items())))
            continue
        for s, lab in body.succs(bb):
            work.append((s, st, frozenset(env.items())))
    return at


# ---------------------------------------------------------------------------
# value-set exploration: which values of a repeatedly tested term can reach a block
# ---------------------------------------------------------------------------

def _vkey(t):
    """key of a tested value: the term without block ids, a trailing newtype `.0` stripped (int_enum! types switch on
    the inner integer, `==` compares the wrapper)"""
    t = deep_strip(t)
    while t[0] == "field" and str(t[2]) == "0":
        t = deep_strip(t[1])
    return str(canon_nobb(t))


def value_states(body, facts, keys=None, max_configs=200000):
    """Forward exploration that carries, per path, what is known about integer-tested terms (`== k` / `not in {..}`) and
    about the variant of Option/Result locals assigned as a whole, and prunes edges that contradict it (state "DEAD").
    Knowledge comes from switch edges on the term and from bool edges on `term == CONST` / `term != CONST` (operator or
    PartialEq call).  Returns ({bb: set(states)} or None if the budget is exhausted, key function)."""
    b = body

    def constraint(fact):
        """(key, ('eq', k) | ('ne', frozenset)) or None"""
        if fact is None:
            return None
        tm, v = fact
        if isinstance(v, tuple) and v[0] in ("eq", "ne"):
            vals = v[1]
            if v[0] == "eq":
                return _vkey(tm), ("eq", vals)
            vs = frozenset(vals) if isinstance(vals, (tuple, list, set, frozenset)) else frozenset([vals])
            return _vkey(tm), ("ne", vs)
        if isinstance(v, bool):
            d = deep_strip(tm)
            op, x, y = None, None, None
            if d[0] == "bin" and d[1] in ("Eq", "Ne"):
                op, x, y = d[1].lower(), d[2], d[3]
            elif d[0] == "call" and re.search(r"PartialEq(<.*>)?::(eq|ne)$", d[1] or "") and len(d[3]) == 2:
                op, x, y = d[1].rsplit("::", 1)[1], d[3][0], d[3][1]
            if op:
                kx, ky = const_value(deep_strip(x)), const_value(deep_strip(y))
                if (kx is None) != (ky is None):
                    k, other = (ky, x) if ky is not None else (kx, y)
                    is_eq = (op == "eq") == v
                    return _vkey(other), (("eq", k) if is_eq else ("ne", frozenset([k])))
        return None

    def merge(st, key, c):
        cur = dict(st)
        old = cur.get(key)
        if c[0] == "eq":
            if old is not None and ((old[0] == "eq" and old[1] != c[1]) or (old[0] == "ne" and c[1] in old[1])):
                return "DEAD"
            cur[key] = c
        else:
            if old is not None and old[0] == "eq":
                if old[1] in c[1]:
                    return "DEAD"
            else:
                cur[key] = ("ne", (old[1] if old else frozenset()) | c[1])
        return tuple(sorted(cur.items(), key=lambda kv: kv[0]))

    def on_call(bb, term, st):
        return st

    def on_edge(bb, lab, fact, st):
        if st == "DEAD" or fact is None:
            return st
        c = constraint(fact)
        if c is not None and (keys is None or c[0] in keys):
            st = merge(st, c[0], c[1])
            if st == "DEAD":
                return st
        tm, v = fact
        if isinstance(v, tuple) and v[0] == "variant":
            for s in b.blocks[bb]["s"]:
                if s[0] == "=" and s[2][0] == "discr" and s[2][1] and len(s[2][1]) == 1:
                    cc = dict(st).get("var:%d" % s[2][1][0])
                    if cc is not None and cc[1] != v[1]:
                        return "DEAD"
        return st

    def on_block(bb, st):
        if st == "DEAD":
            return st
        cur = dict(st)
        ch = False
        for s in b.blocks[bb]["s"]:
            if s[0] != "=" or len(s[1]) != 1:
                continue
            k = "var:%d" % s[1][0]
            rv = s[2]
            if rv[0] == "agg" and rv[1][0] == "adt" and rv[1][1] in ("core::option::Option", "core::result::Result"):
                cur[k] = ("eq", rv[1][2]); ch = True
            elif rv[0] == "use" and rv[1][0] in ("c", "m") and len(rv[1][1]) == 1 and ("var:%d" % rv[1][1][0]) in cur:
                cur[k] = cur["var:%d" % rv[1][1][0]]; ch = True
            elif k in cur:
                del cur[k]; ch = True
        return tuple(sorted(cur.items(), key=lambda kv: kv[0])) if ch else st

    at = flow_states(body, facts, (), on_call, on_edge, max_configs=max_configs, on_block=on_block)
    return at, _vkey


# ---------------------------------------------------------------------------
# finite-domain evaluation of a small octet function
# ---------------------------------------------------------------------------

_ASCII_PRED = {
    "is_ascii": lambda o: o < 128,
    "is_ascii_uppercase": lambda o: 0x41 <= o <= 0x5A,
    "is_ascii_lowercase": lambda o: 0x61 <= o <= 0x7A,
    "is_ascii_alphabetic": lambda o: 0x41 <= o <= 0x5A or 0x61 <= o <= 0x7A,
    "is_ascii_digit": lambda o: 0x30 <= o <= 0x39,
    "is_ascii_alphanumeric": lambda o: 0x41 <= o <= 0x5A or 0x61 <= o <= 0x7A or 0x30 <= o <= 0x39,
    "is_ascii_graphic": lambda o: 0x21 <= o <= 0x7E,
    "is_ascii_whitespace": lambda o: o in (0x20, 0x09, 0x0A, 0x0C, 0x0D),
    "is_ascii_control": lambda o: o < 0x20 or o == 0x7F,
    "is_ascii_punctuation": lambda o: 0x21 <= o <= 0x7E and not chr(o).isalnum(),
    "is_ascii_hexdigit": lambda o: chr(o) in "0123456789abcdefABCDEF",
}
_ASCII_MAP = {
    "to_ascii_lowercase": lambda o: o + 32 if 0x41 <= o <= 0x5A else o,
    "to_ascii_uppercase": lambda o: o - 32 if 0x61 <= o <= 0x7A else o,
}


def octet_fn_table(body, max_steps=400):
    """For a loop-free function `fn(u8 | &u8) -> u8 | bool` made of comparisons, ranges, ASCII predicates and
    bit arithmetic: the list of its 256 results, obtained by evaluating the MIR over the finite domain (an
    abstract interpretation whose domain happens to be exact; nothing of the library is executed).  None if the
    body has a shape this evaluator does not know (callers treat that as undecided, never as a pass)."""
    if body.nargs != 1:
        return None
    out = []
    for o in range(256):
        env = {}
        argty = body.locals[1]
        if argty.lstrip("&").strip() not in ("u8",) :
            return None
        isref = argty.startswith("&")
        env[1] = ("ref", "arg") if isref else o
        cells = {"arg": o}

        def rd_place(pl):
            v = env.get(pl[0])
            for pr in pl[1:]:
                if pr == "*":
                    if isinstance(v, tuple) and v[0] == "ref":
                        v = cells.get(v[1])
                    else:
                        return None
                elif isinstance(pr, list) and pr[0] == "." and isinstance(v, tuple) and v[0] == "tup":
                    v = v[1][pr[1]]
                else:
                    return None
            return v

        def opv(x):
            if x[0] == "k":
                return x[2] if isinstance(x[2], (int, bool)) else None
            if x[0] in ("c", "m"):
                return rd_place(x[1])
            return None

        def rv_eval(rv):
            k = rv[0]
            if k == "use":
                return opv(rv[1])
            if k == "ref":
                pl = rv[2]
                if len(pl) == 1:
                    cells[("l", pl[0])] = env.get(pl[0])
                    return ("ref", ("l", pl[0]))
                if len(pl) == 2 and pl[1] == "*":
                    return env.get(pl[0])       # reborrow
                return None
            if k == "cast":
                v = opv(rv[2])
                return int(v) if isinstance(v, (int, bool)) else None
            if k == "un":
                v = opv(rv[2])
                if v is None:
                    return None
                return (0 if v else 1) if rv[1] == "Not" and v in (0, 1, True, False) else ((~v) & 0xFF if rv[1] == "Not" else None)
            if k == "bin":
                a, c = opv(rv[2]), opv(rv[3])
                if not isinstance(a, (int, bool)) or not isinstance(c, (int, bool)):
                    return None
                a, c = int(a), int(c)
                op = rv[1]
                chk = op.endswith("WithOverflow")
                op = op.replace("WithOverflow", "").replace("Unchecked", "")
                try:
                    r = {"Add": a + c, "Sub": a - c, "Mul": a * c, "BitAnd": a & c, "BitOr": a | c, "BitXor": a ^ c,
                         "Shl": a << c if 0 <= c < 16 else None, "Shr": a >> c if 0 <= c < 16 else None,
                         "Lt": int(a < c), "Le": int(a <= c), "Gt": int(a > c), "Ge": int(a >= c), "Eq": int(a == c), "Ne": int(a != c)}.get(op)
                except Exception:
                    return None
                if r is None:
                    return None
                if op in ("Add", "Sub", "Mul", "Shl"):
                    ovf = not (0 <= r <= 255)
                    r &= 0xFF
                    return ("tup", (r, int(ovf))) if chk else r
                return r
            if k == "agg":
                kind = rv[1]
                vals = [opv(x) for x in rv[2]]
                if kind[0] == "adt" and str(kind[1]).endswith("ops::Range") and len(vals) == 2 and None not in vals:
                    return ("range", vals[0], vals[1], False)
                if kind[0] == "tuple":
                    return ("tup", tuple(vals))
                return None
            return None

        bb, steps, res = 0, 0, None
        while steps < max_steps:
            steps += 1
            blk = body.blocks[bb]
            bad = False
            for st in blk["s"]:
                if st[0] != "=":
                    continue
                v = rv_eval(st[2])
                pl = st[1]
                if len(pl) == 1:
                    env[pl[0]] = v
                else:
                    bad = True
            if bad:
                return None
            t = blk["t"]
            k = t["k"]
            if k == "ret":
                res = env.get(0)
                break
            if k == "goto":
                bb = t["t"]
                continue
            if k == "switch":
                d = opv(t["d"])
                if not isinstance(d, (int, bool)):
                    return None
                d = int(d)
                nxt = t["o"]
                for v, tb in t["v"]:
                    if v == d:
                        nxt = tb
                bb = nxt
                continue
            if k == "assert":
                c = opv(t["cond"])
                if c is None:
                    return None
                if bool(c) != bool(t["exp"]):
                    res = "panic"
                    break
                bb = t["t"]
                continue
            if k == "call":
                fn = (t["fn"] or "")
                plain = fn
                while True:
                    nxt_ = re.sub(r"<[^<>]*>", "", plain)
                    if nxt_ == plain:
                        break
                    plain = nxt_
                last = [x for x in plain.split("::") if x][-1] if plain else ""
                args = [opv(a) for a in t["args"]]

                def deref(v):
                    while isinstance(v, tuple) and v[0] == "ref":
                        v = cells.get(v[1])
                    return v
                r = None
                if last == "contains" and len(args) == 2:
                    rg, x = deref(args[0]), deref(args[1])
                    if isinstance(rg, tuple) and rg[0] == "range" and isinstance(x, int):
                        r = int(rg[1] <= x < rg[2] or (rg[3] and x == rg[2] and rg[1] <= x))
                elif last == "new" and "RangeInclusive" in fn and len(args) == 2 and None not in args:
                    r = ("range", args[0], args[1], True)
                elif last in _ASCII_PRED and len(args) == 1:
                    x = deref(args[0])
                    if isinstance(x, int):
                        r = int(_ASCII_PRED[last](x))
                elif last in _ASCII_MAP and len(args) == 1:
                    x = deref(args[0])
                    if isinstance(x, int):
                        r = _ASCII_MAP[last](x)
                if r is None or t["dest"] is None or len(t["dest"]) != 1 or t["t"] is None:
                    return None
                env[t["dest"][0]] = r
                bb = t["t"]
                continue
            return None
        if res is None or (isinstance(res, tuple)):
            return None
        out.append(res)
    return out


def accumulator_of(term):
    """If `term` is the (new) value of a loop-carried accumulator, the local it accumulates in; else None.
    Two shapes: the accumulator itself after `acc += x` (a phi of the local), or the sum `acc + x (+ k)`
    computed first -- in the loop or in a helper that was inlined -- and stored back into `acc` afterwards
    (one of the phi's alternatives contains that same sum over the local)."""
    from mirlib import map_term
    t = deep_strip(term)
    if t[0] == "phi":
        return t[1]
    if t[0] != "bin" or t[1].replace("WithOverflow", "") != "Add":
        return None
    leaf = t
    while leaf[0] == "bin" and leaf[1].replace("WithOverflow", "") == "Add":
        leaf = deep_strip(leaf[2])
    if leaf[0] != "phi" or len(leaf) < 3:
        return None
    loc = leaf[1]

    def unphi(x):
        if isinstance(x, tuple) and x and x[0] == "phi" and x[1] == loc:
            return ("local", loc)
        return x
    want = canon_nobb(map_term(t, unphi))
    for alt in leaf[2]:
        for sub in walk(alt):
            if isinstance(sub, tuple) and sub and sub[0] == "bin" and canon_nobb(map_term(sub, unphi)) == want:
                return loc
    return None


# ---------------------------------------------------------------------------
# decision table of a loop-free scalar function (for sibling agreement between ported copies)
# ---------------------------------------------------------------------------

def _plain_name(p):
    if not p:
        return p
    while True:
        q = re.sub(r"<[^<>]*>", "", p)
        if q == p:
            break
        p = q
    segs = [x for x in p.split("::") if x and not x.startswith("{")]
    return "::".join(segs[-2:]) if len(segs) >= 2 else p


def shape_of(t, _depth=0):
    """Canonical, body-independent form of a term: calls by the last two path segments (no generics, no block
    ids), constants by value, a phi by the set of its alternatives (the loop-carried self reference becomes `self`)."""
    t = deep_strip(t)
    k = t[0]
    if _depth > 40:
        return ("deep",)
    if k == "k":
        cv = const_value(t)
        return ("k", cv if cv is not None else (t[3] if len(t) > 3 else None))
    if k == "arg":
        return t
    if k == "local":
        return ("self",)
    if k == "phi":
        alts = t[2] if len(t) > 2 else []
        return ("phi", frozenset(shape_of(a, _depth + 1) for a in alts))
    if k == "call":
        return ("call", _plain_name(t[1]), tuple(shape_of(a, _depth + 1) for a in t[3]))
    if k == "bin":
        op = t[1].replace("WithOverflow", "").replace("Unchecked", "")
        return ("bin", op, shape_of(t[2], _depth + 1), shape_of(t[3], _depth + 1))
    if k == "un":
        return ("un", t[1], shape_of(t[2], _depth + 1))
    if k == "cast":
        return ("cast", shape_of(t[2], _depth + 1), t[3] if len(t) > 3 else None)
    if k in ("field", "downcast"):
        return (k, shape_of(t[1], _depth + 1)) + tuple(str(x) for x in t[2:])
    if k in ("deref", "ref", "discr"):
        return (k, shape_of(t[1], _depth + 1))
    if k == "agg":
        return ("agg", tuple(str(x) for x in t[1][:3]), tuple(shape_of(a, _depth + 1) for a in t[2]))
    return (k,) + tuple(str(x) for x in t[1:3])


def decision_table(body, facts=None):
    """{(frozenset of dominating boolean facts, value)}: every way the value the function returns (or hands to the
    call that builds its return value) is chosen -- one row per assignment to a multiply-assigned local that the
    result depends on, with the conditions that lead there."""
    rows = set()
    seen = set()

    def fact_shapes(bb):
        out = set()
        for tm, v in bool_facts(body, bb, facts):
            out.add((shape_of(tm), v))
        return frozenset(out)

    def visit(term):
        for s in walk(term):
            if isinstance(s, tuple) and s and s[0] == "phi" and s[1] not in seen:
                seen.add(s[1])
                for d in body.defs().get(s[1], []):
                    if d[0] == "stmt":
                        tm = body.term_of_rvalue(d[3])
                        rows.add((fact_shapes(d[1]), shape_of(tm)))
                        visit(tm)
                    elif d[0] == "call":
                        rows.add((fact_shapes(d[1]), ("call", _plain_name(d[2]["fn"]))))
    for rb, si, kind, term in return_assignments(body):
        if term is not None:
            rows.add((fact_shapes(rb), ("ret", shape_of(term))))
            visit(term)
        else:
            # value produced by a call in the return block: its arguments
            t = body.blocks[rb]["t"] if body.blocks[rb]["t"]["k"] == "call" else None
            rows.add((fact_shapes(rb), ("ret", kind if not kind.startswith("call:") else "call:" + _plain_name(kind[5:]))))
    for bb, t in body.calls():
        for a in t["args"]:
            visit(body.term_of_operand(a))
    return rows
