"""C10 — zone transfers (narrow, structural clauses).

C10.chk     XfrResponseInterpreter: a response is interpreted only after
            check_response succeeded; check_response accepts only behind its
            header guard table (error rcode, QR, opcode, TC, ANCOUNT, NSCOUNT,
            QDCOUNT rule); a first response must carry an AXFR/IXFR question.
C10.panic   no explicit panic / unwrap of parse results on wire-derived
            values in the XFR protocol code.
C10.commit  ZoneUpdater::apply publishes (commit) only at a batch boundary
            (BeginBatchDelete) or at Finished, after the SOA update; every error
            exit leaves without committing; nobody else commits the writer.
C10.soa     the closing SOA of a transfer is compared with the opening SOA as a
            whole record (not by serial only).
C10.diff    the "old" side of the diff a writer records is read at the last
            published version in both update_rrset and remove_rrset (sibling
            agreement): the diff describes published-old -> new.
C10.funnel  the IXFR diff funneler forwards every item of a diff except SOA
            RRsets (which frame the sections): forwarding is not conditional
            on the owner name, so changes at the zone apex are sent too.
C10.room    the room an XFR response message may use is the transport's
            maximum minus the bytes later middleware (TSIG) reserved, on the
            UDP *and* on the TCP arm.
C10.set     an RRset is a set: when the updater adds a record to an existing
            RRset, copying the existing records is conditional on a comparison
            with the new record's data, so a record sent twice (duplicate RR
            or re-sent message in a transfer) is stored once.
C10.abandon an abandoned update is rolled back: shares the rollback-coverage,
            Drop and Versioned guard-table rules of C09 (rbk, drop, ver).
"""
import re

from mirlib import BranchFacts, strip, deep_strip, show, walk, const_value
from rulelib import (
    bool_facts, control_terms, facts_at, fmt_path, must_pass, outcome_facts, return_assignments, succeeded_calls, failed_calls,
)
import c09
import c17
import c02

X = "net::xfr::protocol::"


def run(ctx):
    F = ctx.facts
    ctx.extra["explanation"] = (
        "C10: response sanity check dominates interpretation, guard table of check_response, wire-derived "
        "panics in the XFR protocol code, commit only at batch/Finished boundaries in ZoneUpdater::apply, "
        "abandon => rollback (shared with C09). Fidelity of reconstruction, the diff algebra, batching and "
        "fault sequences are not decided."
    )
    rule_chk(ctx, F)
    rule_panic(ctx, F)
    rule_commit(ctx, F)
    rule_soa(ctx, F)
    rule_diff(ctx, F)
    rule_funnel(ctx, F)
    rule_room(ctx, F)
    rule_set(ctx, F)
    rule_keepttl(ctx, F)
    rule_walk(ctx, F)
    rule_owner(ctx, F)
    rule_batch(ctx, F)
    rule_diffboth(ctx, F)
    rule_delall(ctx, F)
    # abandoned work is rolled back (shared rules)
    c09.rule_rbk(ctx, F)
    c09.rule_drop(ctx, F)
    c09.rule_ver(ctx, F)
    # serial numbers of zone versions are ordered in sequence space wherever a transfer decides by them (shared with C17)
    c17.rule_ixfr(ctx, F)
    c17.rule_use(ctx, F)
    # a transfer message longer than 16 KiB never carries a compression pointer to an offset it cannot express (shared with C02)
    c02.rule_ptr14(ctx, F)


def rule_chk(ctx, F):
    R = "C10.chk"
    ctx.floor(R, 10)
    b = F.one_body(r"^net::xfr::protocol::interpreter::XfrResponseInterpreter::interpret_response$")
    if ctx.anchor(R, "XfrResponseInterpreter::interpret_response", b):
        chk = b.calls_matching(r"XfrResponseInterpreter::check_response$")
        uses = b.calls_matching(r"XfrResponseInterpreter::initialize$|interpreter::Inner::new$|XfrZoneUpdateIterator::<.*>::new$|iterator::XfrZoneUpdateIterator.*::new$")
        ctx.anchor(R, "check_response call", len(chk) == 1, b.where())
        ctx.anchor(R, "interpretation sites (initialize / iterator)", len(uses) >= 2, b.where())
        for bb, t in uses:
            ok = bool(chk) and chk[0][0] in succeeded_calls(b, bb, F)
            ctx.ob(R, b, "%s after check_response" % (t["fn"] or "").split("::")[-1 if not (t["fn"] or "").endswith("::new") else -2], ok,
                   "a response is interpreted on a path where check_response did not succeed", b.where(bb))
        # stores of the response into inner state also only after the check
        for bi in b.reachable_blocks():
            for st in b.blocks[bi]["s"]:
                if st[0] == "=" and len(st[1]) > 1:
                    tgt = show(deep_strip(b.term_of_place(st[1])))
                    if tgt.endswith(".resp"):
                        ok = bool(chk) and chk[0][0] in succeeded_calls(b, bi, F)
                        ctx.ob(R, b, "response stored after check_response", ok, "inner.resp replaced by an unchecked message", b.where(bi))
        fin = [r for r in return_assignments(b) if r[2] == "Err"]
        ctx.ob(R, b, "finished transfers reject further responses", any(
            any(tt[0] == "call" and (tt[1] or "").endswith("is_finished") and vv is True for tt, vv in bool_facts(b, r[0], F)) for r in fin),
            "interpret_response must return Error::Finished once the transfer is complete")
    c = F.one_body(r"^net::xfr::protocol::interpreter::XfrResponseInterpreter::check_response$")
    if ctx.anchor(R, "XfrResponseInterpreter::check_response", c):
        oks = [r for r in return_assignments(c) if r[2] == "Ok"]
        ctx.anchor(R, "Ok return of check_response", len(oks) == 1, c.where())
        for rb, si, kind, term in oks:
            fs = [(show(t), v) for t, v in bool_facts(c, rb, F)]
            table = [
                ("not an error rcode", lambda s, v: "is_error(" in s and v is False),
                ("QR set", lambda s, v: "Header::qr(" in s and v is True),
                ("opcode is QUERY", lambda s, v: "opcode" in s and ((("ne(" in s or "Ne(" in s) and v is False) or (("eq(" in s or "Eq(" in s) and v is True))),
                ("not truncated", lambda s, v: "Header::tc(" in s and v is False),
                ("ANCOUNT > 0", lambda s, v: "ancount" in s and ((s.startswith("Eq(") and v is False) or (s.startswith("Ne(") and v is True) or (s.startswith("Gt(") and v is True))),
                ("NSCOUNT == 0", lambda s, v: "nscount" in s and ((s.startswith("Ne(") and v is False) or (s.startswith("Eq(") and v is True))),
            ]
            for name, pred in table:
                ctx.ob(R, c, name, any(pred(s, v) for s, v in fs),
                       "check_response returns Ok on a path where '%s' was not established (RFC 5936 2.2)" % name, c.where(rb))
            # disjunctive guard: each qdcount comparison has an edge from which Ok is unreachable
            qd = 0
            consts = set()
            for sw in c.reachable_blocks():
                tsw = c.blocks[sw]["t"]
                if tsw["k"] != "switch" or tsw["ty"] != "bool":
                    continue
                pred = deep_strip(c.term_of_operand(tsw["d"]))
                if pred[0] == "bin" and "qdcount" in show(pred[2]) and const_value(pred[3]) is not None:
                    if any(rb not in c.reach_from(s) for s, lab in c.succs(sw)):
                        qd += 1
                        consts.add((pred[1], const_value(pred[3])))
            ctx.ob(R, c, "QDCOUNT rule (1 in the first message, at most 1 later)", consts == {("Ne", 1), ("Gt", 1)} or qd >= 2,
                   "check_response must reject QDCOUNT != 1 in the first message and > 1 later (found rejecting "
                   "comparisons %s)" % sorted(consts))
    i = F.one_body(r"^net::xfr::protocol::interpreter::Inner::new$")
    if ctx.anchor(R, "interpreter::Inner::new", i):
        # xfr type derived from qtype; anything but AXFR/IXFR is an error return (not a panic)
        qt = i.calls_matching(r"Message::<.*>::qtype$")
        errs = [r for r in return_assignments(i) if r[2] == "Err"]
        panics = [bb for bb, t in i.calls() if re.search(r"core::panicking::", t["fn"] or "") and any(m in ("unreachable", "panic", "todo", "unimplemented") for m in (t.get("x") or []))]
        ctx.ob(R, i, "first response with a non-XFR question is an error", bool(qt) and not panics and len(errs) >= 1,
               "Inner::new reaches an explicit panic when the response's question is not AXFR/IXFR")


def rule_panic(ctx, F):
    R = "C10.panic"
    ctx.floor(R, 1)
    n = 0
    bad = 0
    seen = {}
    for p, b in F.bodies.items():
        if not (p.startswith(X) or p.startswith("<" + X)) or "::test" in p:
            continue
        for bb, t in b.calls():
            fn = t["fn"] or ""
            x = t.get("x") or []
            if re.search(r"core::panicking::(panic|panic_fmt|unreachable_display|panic_explicit)", fn):
                macros = [m for m in x if m in ("unreachable", "panic", "todo", "unimplemented", "assert", "assert_eq", "assert_ne")]
                if not macros or any(m.startswith("debug_assert") for m in x):
                    continue
                n += 1
                wire = False
                for tt in control_terms(b, bb, F):
                    s = show(deep_strip(tt))
                    if re.search(r"qtype|rtype|rcode|opcode|count\(|Header::|ParsedRecord|into_record|to_record|next\(", s):
                        wire = True
                k = (p, macros[0])
                seen[k] = seen.get(k, 0) + 1
                ctx.ob(R, b, "%s!#%d" % (macros[0], seen[k]), not wire,
                       "%s!() under a branch on response content in the XFR protocol code: a hostile transfer stream "
                       "panics the receiver" % macros[0], b.where(bb))
            if re.search(r"core::result::Result::<.*>::(unwrap|expect)$", fn) and len(t["targs"]) > 1 and \
                    re.search(r"ParseError|ShortInput|ShortMessage|FormError", t["targs"][1]):
                n += 1
                k = (p, "unwrap")
                seen[k] = seen.get(k, 0) + 1
                ctx.ob(R, b, "unwrap of a parse result#%d" % seen[k], False,
                       "the XFR protocol code unwraps a parse result (%s)" % t["targs"][1].split("::")[-1], b.where(bb))
    ctx.ob(R, "net::xfr::protocol", "scanned", True, nontrivial=False, detail="%d explicit panic/unwrap sites examined" % n)


def rule_commit(ctx, F):
    R = "C10.commit"
    ctx.floor(R, 6)
    bs = [b for p, b in F.bodies.items() if re.match(r"^zonetree::update::ZoneUpdater::<N>::apply::\{closure#0\}$", p)]
    if not ctx.anchor(R, "ZoneUpdater::apply", len(bs) == 1):
        return
    b = bs[0]
    commits = b.calls_matching(r"update::ReopenableZoneWriter::commit$")
    ctx.ob(R, b, "two commit sites", len(commits) == 2, "ZoneUpdater::apply commits at %d sites (expected batch boundary and Finished)" % len(commits))
    arms = set()
    for bb, t in commits:
        arm = None
        for tt, vv, e in facts_at(b, bb, F):
            if isinstance(vv, tuple) and vv[0] == "variant" and vv[1] in (
                    "DeleteAllRecords", "DeleteRecord", "AddRecord", "BeginBatchDelete", "BeginBatchAdd", "Finished"):
                arm = vv[1]
        arms.add(arm)
        ctx.ob(R, b, "commit in the %s arm" % arm, arm in ("BeginBatchDelete", "Finished"),
               "the writer is committed while handling %s: a partially applied transfer becomes visible to readers" % arm, b.where(bb))
        if arm == "Finished":
            us = b.calls_matching(r"ZoneUpdater::<N>::update_soa$")
            ok = any(ub in succeeded_calls(b, bb, F) for ub, _ in us) or any(b.dominates(ub, bb) and _awaited_ok(b, ub, bb, F) for ub, _ in us)
            ctx.ob(R, b, "SOA updated before the final commit", ok,
                   "Finished must store the new SOA before committing", b.where(bb))
    ctx.ob(R, b, "commit arms are exactly {BeginBatchDelete, Finished}", arms == {"BeginBatchDelete", "Finished"}, "commit arms: %s" % sorted(str(a) for a in arms))
    # the finished state refuses further updates
    errs = [r for r in return_assignments(b) if r[2] == "Err"]
    ok = any(any(("state" in show(tt)) and vv is True for tt, vv in bool_facts(b, r[0], F)) for r in errs)
    ctx.ob(R, b, "a finished updater rejects further updates", ok, "apply must return Error::Finished once the transfer completed")
    # who commits the ReopenableZoneWriter
    for cb, cbb, ct in F.callers_of(r"update::ReopenableZoneWriter::commit$"):
        ctx.ob(R, cb, "only ZoneUpdater::apply commits the writer", "ZoneUpdater::<N>::apply" in cb.path,
               "ReopenableZoneWriter::commit is called from %s" % cb.path, cb.where(cbb))


def _awaited_ok(b, call_bb, site_bb, F):
    """the awaited result of the future created at call_bb was success on all paths to site_bb"""
    for subj, o in outcome_facts(b, site_bb, F):
        if o == "success":
            for s in walk(deep_strip(subj)):
                if s[0] == "call" and s[5] == call_bb:
                    return True
                if s[0] == "call" and (s[1] or "").endswith("Future::poll"):
                    for s2 in walk(s):
                        if s2[0] == "call" and s2[5] == call_bb:
                            return True
    return False


def rule_soa(ctx, F):
    R = "C10.soa"
    ctx.floor(R, 1)
    b = F.one_body(r"^net::xfr::protocol::interpreter::RecordProcessor::process_record$")
    if not ctx.anchor(R, "RecordProcessor::process_record", b):
        return
    n = 0
    for bi, t in b.calls():
        fn = t["fn"] or ""
        if not re.search(r"::(eq|ne)$", fn) or len(t["args"]) != 2:
            continue
        terms = [b.term_of_operand(a) for a in t["args"]]
        if not any(s[0] == "field" and s[2] == "initial_soa" for tt in terms for s in walk(tt)):
            continue
        n += 1
        whole = bool(t["targs"]) and "rdata::rfc1035::soa::Soa" in t["targs"][0]
        getter = [s[1].split("::")[-1] for tt in terms for s in walk(tt)
                  if s[0] == "call" and s[1] and re.search(r"soa::Soa::<.*>::\w+$", s[1])]
        ctx.ob(R, b, "closing SOA compared with the opening SOA as a whole#%d" % n, whole and not getter,
               "process_record decides that a record closes the transfer by comparing %s instead of the complete "
               "opening SOA: a stream whose closing SOA differs from the opening one (other than in what is compared) "
               "is accepted as finished and committed" % (("Soa::%s()" % "/".join(getter)) if getter else t["targs"][:1]),
               b.where(bi))
    ctx.anchor(R, "comparison with self.initial_soa in process_record", n >= 1, b.where())


def rule_diff(ctx, F):
    R = "C10.diff"
    ctx.floor(R, 2)
    W = r"^zonetree::in_memory::write::WriteNode::"
    seen = 0
    for name in ("update_rrset", "remove_rrset"):
        b = F.one_body(W + name + "$")
        if not ctx.anchor(R, "WriteNode::%s" % name, b):
            continue
        gets = b.calls_matching(r"nodes::NodeRrsets::get$|NodeRrsets::get$")
        # the lookups made while a diff is being recorded (dominated by self.diff being Some)
        k = 0
        for bb, t in gets:
            under_diff = any(o == "success" and any(s[0] == "field" and s[2] == "diff" for s in walk(deep_strip(subj)))
                             for subj, o in outcome_facts(b, bb, F)) or \
                any(isinstance(vv, tuple) and vv[0] == "variant" and vv[1] == "Some" and
                    any(s[0] == "field" and s[2] == "diff" for s in walk(deep_strip(tt))) for tt, vv, e in facts_at(b, bb, F))
            if not under_diff:
                continue
            k += 1
            seen += 1
            prov = c09._provenance(F, b, b.term_of_operand(t["args"][2]))
            ctx.ob(R, b, "diff's old side read at the last published version#%d" % k, prov == "last_published",
                   "WriteNode::%s records the RRset being replaced/removed as it is at %s; the diff handed out on "
                   "commit must describe last published -> new (several changes to one RRset inside a transaction "
                   "otherwise under-report what was removed)" % (name, prov), b.where(bb))
    ctx.anchor(R, "diff lookups in update_rrset and remove_rrset", seen >= 2)


def rule_funnel(ctx, F):
    R = "C10.funnel"
    ctx.floor(R, 1)
    bs = [b for p, b in F.bodies.items() if re.match(r"^net::server::middleware::xfr::ixfr::DiffFunneler::<.*>::send_diff_section::\{closure#0\}$", p)]
    if not ctx.anchor(R, "DiffFunneler::send_diff_section", len(bs) == 1):
        return
    b = bs[0]
    from rulelib import cyclic_blocks
    cyc = cyclic_blocks(b)
    sends = [bb for bb, t in b.calls() if re.search(r"Sender::<.*>::send$", t["fn"] or "") and bb in cyc]
    if not ctx.anchor(R, "the per-item send inside the diff loop", len(sends) >= 1, b.where()):
        return
    for n, bb in enumerate(sends):
        conds = []
        for tt, v, _ in facts_at(b, bb, F):
            s = deep_strip(tt)
            if isinstance(v, bool) and ((s[0] == "call" and re.search(r"::(eq|ne)$", s[1] or "")) or (s[0] == "bin" and s[1] in ("Eq", "Ne"))):
                conds.append((show(s), v))
        soa_only = all(re.search(r"\b6\b|SOA", c) for c, _ in conds)
        names = [c for c, _ in conds if not re.search(r"\b6\b|SOA", c)]
        ctx.ob(R, b, "item send #%d depends on the record type only" % (n + 1), soa_only,
               "the diff funneler forwards an item only if %s holds as well: RRsets the condition excludes (e.g. non-SOA "
               "RRsets at the zone apex) are left out of the IXFR and the secondary reaches the new serial with old data"
               % "; ".join(names[:2]), b.where(bb), detail="conditions on the send: %s" % [c[:60] for c, _ in conds])


def rule_room(ctx, F):
    R = "C10.room"
    ctx.floor(R, 2)
    bs = [b for p, b in F.bodies.items() if re.match(r"^net::server::middleware::xfr::service::XfrMiddlewareSvc::<.*>::calc_msg_bytes_available(::<.*>)?$", p)]
    if not ctx.anchor(R, "XfrMiddlewareSvc::calc_msg_bytes_available", len(bs) == 1):
        return
    b = bs[0]
    bf = BranchFacts(b, F)
    arms = {}
    for sw in sorted(b.reachable_blocks()):
        if b.blocks[sw]["t"]["k"] != "switch":
            continue
        for lab, (tt, v) in bf.edge_facts(sw).items():
            if isinstance(v, tuple) and v[0] == "variant" and "transport_ctx" in show(deep_strip(tt)):
                arms[v[1]] = b.edge_target(sw, lab)
    if not ctx.anchor(R, "UDP / non-UDP arms", len(arms) >= 2, b.where()):
        return
    for var, tgt in sorted(arms.items()):
        others = set().union(*[b.reach_from(t2) for v2, t2 in arms.items() if v2 != var])
        own = b.reach_from(tgt) - others
        subs = False
        for bb in own:
            for st in b.blocks[bb]["s"]:
                if st[0] == "=" and st[2][0] == "bin" and st[2][1].startswith("Sub"):
                    if "num_reserved_bytes" in show(deep_strip(b.term_of_operand(st[2][3]))):
                        subs = True
        ctx.ob(R, b, "the %s arm leaves the reserved bytes free" % var, subs,
               "calc_msg_bytes_available does not subtract req.num_reserved_bytes() on the %s arm: XFR fills its messages into "
               "the room a later middleware (TSIG) reserved, the signature no longer fits and the transfer fails" % var)


def rule_set(ctx, F):
    R = "C10.set"
    ctx.floor(R, 1)
    bs = [b for p, b in F.bodies.items() if re.match(r"^zonetree::update::ZoneUpdater::<.*>::add_record_to_rrset::\{closure#0\}$", p)]
    if not ctx.anchor(R, "ZoneUpdater::add_record_to_rrset", len(bs) == 1):
        return
    b = bs[0]
    from rulelib import cyclic_blocks
    cyc = cyclic_blocks(b)
    pushes = [bb for bb, t in b.calls() if re.search(r"Rrset::push_data$", t["fn"] or "") and bb in cyc]
    if not ctx.anchor(R, "copy of the existing records (push_data in a loop)", len(pushes) >= 1, b.where()):
        return
    for bb in pushes:
        cmpd = False
        for tt, v, _ in facts_at(b, bb, F):
            s = deep_strip(tt)
            if isinstance(v, bool) and ((s[0] == "call" and re.search(r"::(eq|ne)$", s[1] or "")) or (s[0] == "bin" and s[1] in ("Eq", "Ne"))):
                if "try_flatten_into" in show(s) or "into_data" in show(s) or "data" in show(s):
                    cmpd = True
        ctx.ob(R, b, "an existing record equal to the new one is not copied next to it", cmpd,
               "add_record_to_rrset puts the new record and *all* existing records into the replacement RRset without comparing "
               "them: a record that arrives twice in a transfer is stored, served and re-transferred twice", b.where(bb))


def rule_keepttl(ctx, F):
    """Deleting one record from an RRset leaves the TTL of the others alone: the RRset written back takes its TTL from the
    RRset that is there, not from the record that is taken out (a zone reached through a deletion has to equal the zone built
    from the remaining records)."""
    R = "C10.ttl"
    ctx.floor(R, 1)
    bs = [b for p, b in F.bodies.items() if re.match(r"^zonetree::update::ZoneUpdater::<.*>::delete_record_from_rrset::\{closure#0\}$", p)]
    if not ctx.anchor(R, "ZoneUpdater::delete_record_from_rrset", len(bs) == 1):
        return
    b = bs[0]
    upd = [bb for bb, tt in b.calls() if re.search(r"::update_rrset$", tt["fn"] or "")]
    news = [(bb, tt) for bb, tt in b.calls() if re.search(r"zonetree::types::Rrset::new$", tt["fn"] or "")]
    sets = [(bb, tt) for bb, tt in b.calls() if re.search(r"zonetree::types::Rrset::set_ttl$", tt["fn"] or "")]
    if not ctx.anchor(R, "Rrset::new and update_rrset in delete_record_from_rrset", len(news) == 1 and len(upd) >= 1, b.where()):
        return
    def from_existing(tm):
        return any(s[0] == "call" and re.search(r"(Rrset|SharedRrset)::ttl$", s[1] or "") for s in walk(tm))
    def from_deleted(tm):
        return any(s[0] == "call" and re.search(r"Record::<.*>::ttl$", s[1] or "") for s in walk(tm))
    ttl0 = b.term_of_operand(news[0][1]["args"][1])
    ok = from_existing(ttl0) and not from_deleted(ttl0)
    if not ok:
        # or corrected before any of the existing records is copied over (the only way the new RRset gets content)
        good = [bb for bb, tt in sets if from_existing(b.term_of_operand(tt["args"][1]))]
        pushes = [bb for bb, tt in b.calls() if re.search(r"Rrset::push_data$", tt["fn"] or "")]
        # ... also when the copying is done by a closure handed to an iterator adaptor (for_each / extend)
        from mirlib import closures_created_in
        for bi, cb, ops in closures_created_in(F, b):
            if cb.calls_matching(r"Rrset::push_data$"):
                pushes.append(bi)
        ok = bool(good) and bool(pushes) and all(any(b.dominates(g, pb) for g in good) for pb in pushes)
    ctx.ob(R, b, "the remaining records keep the TTL of their RRset", ok,
           "delete_record_from_rrset builds the smaller RRset with the TTL of the record that is deleted: removing "
           "`192.0.2.1` (given with TTL 7200) from an RRset with TTL 300 leaves the other addresses with TTL 7200 -- the zone "
           "differs from one built from the remaining records", b.where(news[0][0]))


def rule_walk(ctx, F):
    """The sender of a full transfer reads the zone with walk().  Walking, ReadZone::query_node_here_and_below has to
    go on into the children of every node that is not a zone cut -- whatever the node's own state (ordinary, CNAME
    owner, "no records here" marker) -- and at a cut it hands out the delegation data.  Decided per match arm on the
    paths taken when walk.enabled() is true (must-pass-through)."""
    from mirlib import BranchFacts
    R = "C10.walk"
    ctx.floor(R, 4)
    bs = [b for p, b in F.bodies.items()
          if re.search(r"^zonetree::in_memory::read::ReadZone::query_node_here_and_below(::<.*>)?::\{closure#0\}$", p)]
    if not ctx.anchor(R, "ReadZone::query_node_here_and_below (match on the node's special state)", len(bs) == 1):
        return
    b = bs[0]
    bf = BranchFacts(b, F)
    nonwalk = set()
    for s2 in b.reachable_blocks():
        t2 = b.blocks[s2]["t"]
        if t2["k"] != "switch":
            continue
        d = deep_strip(b.term_of_operand(t2["d"]))
        if d[0] == "call" and (d[1] or "").endswith("WalkState::enabled"):
            for s3, l3 in b.succs(s2):
                ef = bf.edge_facts(s2).get(l3)
                if ef and ef[1] is False:
                    nonwalk.add((s2, l3))
    if not ctx.anchor(R, "tests of walk.enabled() in query_node_here_and_below", len(nonwalk) >= 2, b.where()):
        return
    rets = [i for i in b.reachable_blocks() if b.blocks[i]["t"]["k"] == "ret" and not b.blocks[i].get("c")]
    kids = [bb for bb, _ in b.calls_matching(r"ReadZone::query_children(::<.*>)?$")]
    ops = [bb for bb, _ in b.calls_matching(r"WalkState::op$")]
    arms = {}
    for sw in sorted(b.reachable_blocks()):
        if b.blocks[sw]["t"]["k"] != "switch":
            continue
        for lab, (tt, vv) in bf.edge_facts(sw).items():
            if isinstance(vv, tuple) and vv[0] == "variant":
                # only the match on the node's state (the closure's parameter), not tests of parts of it (cut.ds ..)
                subj = deep_strip(tt)
                while subj[0] in ("downcast", "deref", "ref"):
                    subj = deep_strip(subj[1])
                if subj[0] == "field" and subj[1][0] == "downcast":
                    # Some(Special::X): payload of the option
                    inner = subj[1][1]
                    while inner[0] in ("downcast", "deref", "ref"):
                        inner = deep_strip(inner[1])
                    subj = inner
                if subj[0] != "arg":
                    continue
                arms.setdefault(vv[1], []).append(b.edge_target(sw, lab))
    want = {"NxDomain": (kids, "descends into the children (an empty non-terminal has names below it)"),
            "Cname": (kids, "descends into the children (records below a CNAME owner are part of the zone)"),
            "None": (kids, "descends into the children"),
            "Cut": (ops, "hands out the delegation's NS (DS, glue) records")}
    for v, (vias, what) in want.items():
        tg = arms.get(v, [])
        if not ctx.anchor(R, "the %s arm" % v, bool(tg) and bool(vias), b.where()):
            continue
        bad = None
        for tgt in tg:
            holds, p = must_pass(b, tgt, rets, vias, removed_edges=nonwalk)
            if not holds:
                bad = p
        ctx.ob(R, b, "walking: %s -> %s" % (v, what), bad is None,
               "walking the zone (the source of a full transfer), the %s arm of query_node_here_and_below can return without "
               "%s: path %s -- the transfer silently leaves out part of the zone that queries still answer"
               % (v, "calling query_children" if vias is kids else "walk.op", fmt_path(bad)), b.where(tg[0]))


def rule_owner(ctx, F):
    """The difference set is recorded per owner name.  A child node's owner is its label in front of the owner its
    *parent* records under (WriteNode::update_child hands `(owner, diff)` on); built from anything else -- the zone
    apex, say -- every change two or more labels below the apex is recorded under a wrong name."""
    R = "C10.owner"
    ctx.floor(R, 2)
    cl = [b for p, b in F.bodies.items() if re.search(r"^zonetree::in_memory::write::WriteNode::update_child::\{closure#\d+\}$", p)
          and b.calls_matching(r"NameBuilder::<.*>::append_origin$")]
    if not ctx.anchor(R, "the closure of WriteNode::update_child that builds the child's owner name", len(cl) == 1):
        return
    b = cl[0]
    for bb, t in b.calls_matching(r"NameBuilder::<.*>::append_origin$"):
        tm = deep_strip(b.term_of_operand(t["args"][1]))
        roots = {s[1] for s in walk(tm) if s[0] == "arg"}
        calls = [s[1] for s in walk(tm) if s[0] == "call" and s[1] and not re.search(r"::(clone|as_ref|deref|borrow)$", s[1])]
        ctx.ob(R, b, "the child's owner ends with the owner its parent records under", roots == {2} and not calls,
               "update_child appends %s as origin of the child's owner name instead of the owner name that came with the parent's "
               "diff handle: the commit diff (and an IXFR served from it) names records below a non-apex node wrongly, so the "
               "difference applied to the old content does not give the new content" % show(tm)[:120], b.where(bb))
    for bb, t in b.calls_matching(r"NameBuilder::<.*>::append_label$"):
        tm = deep_strip(b.term_of_operand(t["args"][1]))
        roots = {s[1] for s in walk(tm) if s[0] == "arg"}
        ctx.ob(R, b, "the child's owner starts with the child's label", roots == {1},
               "update_child builds the child's owner name from %s, not from the label of the child (a captured value)"
               % show(tm)[:120], b.where(bb))


def rule_batch(ctx, F):
    """A record the batcher could not fit into the current message is not lost: where push_ref reports `NotPushed..`,
    try_push hands the full message to the callbacks and answers `Retry` (never a `Pushed..` result), and `push` answers
    `Retry` by pushing the same record again."""
    R = "C10.batch"
    ctx.floor(R, 2)
    bs = [b for p, b in F.bodies.items() if re.search(r"^net::server::batcher::CallbackBatcher::<.*>::try_push(::<.*>)?$", p)]
    if not ctx.anchor(R, "CallbackBatcher::try_push", len(bs) == 1):
        return
    b = bs[0]
    n = 0
    for bi in sorted(b.reachable_blocks()):
        for st in b.blocks[bi]["s"]:
            if st[0] == "=" and st[2][0] == "agg" and st[2][1][0] == "adt" and str(st[2][1][1]).endswith("batcher::PushResult"):
                arm = [o[1] for tm, o in outcome_facts(b, bi, F) if isinstance(o, tuple) and o[0] == "variant" and str(o[1]).startswith(("NotPushed", "Pushed"))]
                if not arm:
                    continue
                n += 1
                res = st[2][1][2]
                ok = not (arm[-1].startswith("NotPushed") and str(res).startswith("Pushed"))
                ctx.ob(R, b, "after %s the caller is told %s" % (arm[-1], res), ok,
                       "try_push answers %s although push_ref reported %s: the record that did not fit into the message is never "
                       "pushed into the next one -- every message boundary of a transfer loses a record" % (res, arm[-1]), b.where(bi))
    ctx.ob(R, b, "result arms found", n >= 2, "found %d" % n, nontrivial=False)
    ps = [pb for p, pb in F.bodies.items() if re.search(r"CallbackBatcher<.*> as net::server::batcher::ResourceRecordBatcher<.*>>::push(::<.*>)?$", p)]
    if ctx.anchor(R, "<CallbackBatcher as ResourceRecordBatcher>::push", len(ps) == 1):
        pb = ps[0]
        tries = pb.calls_matching(r"CallbackBatcher::<.*>::try_push(::<.*>)?$")
        again = False
        for bb, t in tries:
            if any(isinstance(o, tuple) and o[0] == "variant" and o[1] == "Retry" for tm, o in outcome_facts(pb, bb, F)):
                again = True
        ctx.ob(R, pb, "Retry makes push try the same record again", len(tries) >= 2 and again,
               "push does not call try_push a second time under the Retry result")


def rule_diffboth(ctx, F):
    """The difference set of an RRset that loses some records and gains others has both parts: in
    WriteNode::update_rrset the recording of the removed records and the recording of the added records are
    independent -- neither call is reached only on one outcome of the other part's emptiness test."""
    R = "C10.diffboth"
    ctx.floor(R, 2)
    bodies = [b for p, b in F.bodies.items() if re.search(r"^zonetree::in_memory::write::WriteNode::update_rrset", p)]
    sites = []
    for b in bodies:
        for bb, t in b.calls():
            m = re.search(r"InMemoryZoneDiffBuilder::(add|remove)$", t["fn"] or "")
            if m:
                sites.append((b, bb, m.group(1)))
    if not ctx.anchor(R, "diff.add / diff.remove in WriteNode::update_rrset", len(sites) >= 2):
        return
    for b, bb, kind in sites:
        tested = set()
        for tm, v in bool_facts(b, bb, F):
            d = deep_strip(tm)
            while d[0] == "un" and d[1] == "Not":
                d = deep_strip(d[2])
            if d[0] == "call" and re.search(r"::is_empty$", d[1] or "") and d[3]:
                tested.add(d[5] if len(d) > 5 else show(deep_strip(d[3][0]))[:60])    # one test per call site
        ctx.ob(R, b, "%s is recorded whatever the other part looks like" % ("the added part" if kind == "add" else "the removed part"), len(tested) <= 1,
               "update_rrset records the %s records only under a condition on *both* parts (%s): when an RRset loses one record and "
               "gains another in the same version only one half is reported, and the diff applied to the old zone does not give "
               "the new one" % ("added" if kind == "add" else "removed", "%d emptiness tests" % len(tested)), b.where(bb))


def rule_delall(ctx, F):
    """A full transfer first tells the consumer to discard what it has.  Whether the transfer *is* a full one can change
    while a record is processed (an IXFR answered AXFR-style is recognised at its second record), so the test
    `actual_xfr_type == Axfr` that guards the DeleteAllRecords update reads the field after the last place that
    assigns it -- a value read earlier says IXFR for the record at which the fallback is discovered, and DeleteAllRecords
    then follows the first addition."""
    R = "C10.delall"
    ctx.floor(R, 1)
    b = F.one_body(r"^net::xfr::protocol::interpreter::RecordProcessor::process_record$")
    if not ctx.anchor(R, "RecordProcessor::process_record", b):
        return
    dels = [bi for bi in b.reachable_blocks() for st in b.blocks[bi]["s"]
            if st[0] == "=" and st[2][0] == "agg" and st[2][1][0] == "adt" and "DeleteAllRecords" in str(st[2][1][2:3])]
    def is_type_field(pl):
        return any(isinstance(x, list) and x[0] == "." and x[2] == "actual_xfr_type" for x in pl[1:]) and pl[0] == 1
    stores = [bi for bi in b.reachable_blocks() for st in b.blocks[bi]["s"] if st[0] == "=" and len(st[1]) > 1 and is_type_field(st[1])]
    reads = []
    for bi in sorted(b.reachable_blocks()):
        t = b.blocks[bi]["t"]
        if t["k"] == "call" and re.search(r"PartialEq(<.*>)?::(eq|ne)$", t["fn"] or ""):
            if any(show(deep_strip(b.term_of_operand(a))).endswith("actual_xfr_type") for a in t["args"]):
                reads.append(bi)
    if not ctx.anchor(R, "DeleteAllRecords, the assignments of actual_xfr_type and its comparison in process_record",
                      bool(dels) and bool(stores) and bool(reads), b.where()):
        return
    for d in dels:
        guards = [r for r in reads if b.dominates(r, d)]
        ok = bool(guards)
        late = None
        for r in guards:
            for s_ in stores:
                if s_ in b.reach_from(r) and d in b.reach_from(s_) and s_ != r:
                    ok, late = False, s_
        ctx.ob(R, b, "the transfer type is tested after it was last assigned", ok,
               "process_record decides about DeleteAllRecords from a value of actual_xfr_type read before the match that can switch "
               "the transfer to AXFR (store at %s): for an IXFR answered with a full zone the first record is added before "
               "DeleteAllRecords arrives and is wiped by it" % (b.where(late) if late is not None else "?"), b.where(d))
