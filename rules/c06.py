"""C06 — presentation format round-trip (structural clauses).

C06.seq    per record type: the field order of `scan` equals the field order
           of `ZonefileFmt::fmt` (tokens written == tokens read).
C06.esc    the writer never prints raw an octet the zone-file reader treats
           specially: Label's Display raw set (all 256 octets enumerated) is
           disjoint from the reader's token delimiters.
C06.mn     class and record-type mnemonics are disjoint (the reader tries the
           record type first), and each table is an injective two-way map.
C06.block  every zone-file writer opens and closes groups symmetrically: `(`
           is written by begin_block exactly when `)` is written by end_block
           (both unconditionally, or both never).
C06.entry  convert_entry reads a token only after establishing that the entry
           has not ended (so an empty last field - `\\# 0`, an empty key -
           reads back as empty data instead of an error).
C06.sib    an enum that has both a Display and a zone-file writer writes
           something for a variant in both or in neither (the Display form is
           what the reader's `scan` was written against).
C06.label  the in-place reader accepts labels of up to exactly 63 octets (cap
           = start + 65 for the write cursor), like Label's own limit.
"""
import re

from mirlib import BranchFacts, strip, deep_strip, show, walk, const_value, iter_operands
from rulelib import bool_facts, cyclic_blocks, relations, return_assignments, underlying_calls
import sigs
import c03


def run(ctx):
    F = ctx.facts
    sigs.set_facts(F)
    ctx.extra["explanation"] = (
        "C06: scan-vs-fmt field order per record type, writer raw-octet set vs reader delimiter set over all "
        "256 octets, disjointness and injectivity of the class / record-type mnemonic tables, exact 63-octet label "
        "cap of the in-place reader. Round-trip equality, multi-line layouts and TXT/SVCB value escaping are not decided."
    )
    rule_seq(ctx, F)
    rule_esc(ctx, F)
    rule_mn(ctx, F)
    rule_label(ctx, F)
    rule_empty(ctx, F)
    rule_block(ctx, F)
    rule_entry(ctx, F)
    rule_sib(ctx, F)
    rule_svckey(ctx, F)
    rule_sym(ctx, F)
    rule_escread(ctx, F)
    rule_bititer(ctx, F)
    rule_charstr255(ctx, F)
    # written text reads back only if the reader's tokeniser counts groups the way the multi-line writer nests them and
    # the Base32 / Base64 readers accept every tail the writers produce (shared with C07 and C18)
    import c07
    import c18
    c07.rule_cat(ctx, F)
    c07.rule_ovf(ctx, F)    # every value a writer can print is read back: the integer readers overflow only beyond MAX
    c18.rule_tail(ctx, F)
    c18.rule_tab(ctx, F)    # binary fields are written and read through the Base16/32/64 alphabets
    c18.rule_encbits(ctx, F)  # and the encoders put the right bits into each symbol
    c03.rule_esc(ctx, F)    # what Label's Display leaves unescaped against the reader (shared with C03)


# ---------------------------------------------------------------------------

def scan_kind(t):
    fn = t["fn"] or ""
    last = sigs.last_seg(fn)
    if fn == "base::scan::Scan::scan":
        return "scan:%s" % (sigs.ty_short(t["targs"][0]) if t["targs"] else "?")
    if last == "scan" and "::" in fn:
        return "scan:%s" % sigs.ty_short(sigs.nogen(fn.rsplit("::", 1)[0]))
    if fn.startswith("base::scan::Scanner::") and last in (
            "scan_name", "scan_charstr", "scan_string", "scan_octets", "convert_token", "convert_entry", "scan_symbols",
            "scan_ascii_str", "scan_opt_unquoted_octets", "scan_entry_symbols", "scan_charstr_entry"):
        return "scanner:%s" % last
    return None


def fmt_tokens(F, im):
    """ordered field names written by <T as ZonefileFmt>::fmt (including its block closure)"""
    b = sigs.impl_fn(F, im, "fmt")
    if b is None:
        return None
    bodies = [b] + [cb for p, cb in F.bodies.items() if p.startswith(b.path + "::{closure")]
    out = []
    for cb in bodies:
        toks = []
        for bb in sorted(cb.reachable_blocks()):
            t = cb.blocks[bb]["t"]
            if t["k"] != "call" or not t["fn"]:
                continue
            last = sigs.last_seg(t["fn"])
            if last in ("write_token", "write_show") and len(t["args"]) >= 2:
                fp = _self_field(cb, cb.term_of_operand(t["args"][1]))
                toks.append((bb, fp))
            elif last == "fmt" and t["fn"].endswith("ZonefileFmt::fmt") and t["args"]:
                fp = _self_field(cb, cb.term_of_operand(t["args"][0]))
                if fp is not None:
                    toks.append((bb, fp))
        rpo = cb.rpo()
        toks.sort(key=lambda x: rpo.get(x[0], 1 << 30))
        out += [f for _, f in toks]
    return out


def _self_field(b, term):
    """first-level field of self a written value derives from (through closure capture #0 if in a closure)"""
    t = deep_strip(term)
    for _ in range(30):
        k = t[0]
        if k == "field":
            base = deep_strip(t[1])
            if base == ("arg", 1) and isinstance(t[2], str):
                return t[2]
            if base[0] == "field" and base[1] == ("arg", 1) and isinstance(base[2], int) and isinstance(t[2], str):
                return t[2]      # (*closure.capture).field
            t = base
        elif k == "call" and t[3]:
            g = sigs.GETTERS.get(t[1])
            a0 = deep_strip(t[3][0])
            if g and (a0 == ("arg", 1) or (a0[0] == "field" and a0[1] == ("arg", 1) and isinstance(a0[2], int))):
                return g
            t = a0
        elif k in ("cast", "downcast"):
            t = deep_strip(t[2] if k == "cast" else t[1])
        elif k == "idx":
            t = deep_strip(t[1])
        else:
            return None
    return None


def scan_field_order(F, b, adt):
    """ordered list of fields initialised from scan calls (through the constructor), or (None, reason)"""
    alts = []
    seen = set()
    for blocks, conds in sigs.success_paths(b, F):
        toks = []
        for bb in blocks:
            t = b.blocks[bb]["t"]
            if t["k"] == "call" and t["fn"]:
                k = scan_kind(t)
                if k is not None:
                    toks.append((k, bb))
        key = tuple(k for k, _ in toks)
        if key not in seen:
            seen.add(key)
            alts.append(toks)
    if len(alts) != 1:
        return None, "%d scan paths" % len(alts)
    toks = alts[0]
    call_to_field = {}
    ctor = False
    for bi in b.reachable_blocks():
        blk = b.blocks[bi]
        for st in blk["s"]:
            if st[0] == "=" and st[2][0] == "agg" and st[2][1][0] == "adt" and st[2][1][1] == adt:
                ctor = True
                for f, o in zip(st[2][1][3], st[2][2]):
                    tt = b.term_of_operand(o)
                    for cb in underlying_calls(tt) | {s[5] for s in walk(deep_strip(tt)) if s[0] == "call"}:
                        call_to_field.setdefault(cb, f)
        t = blk["t"]
        if t["k"] == "call" and t["fn"] and re.search(r"::(new|new_unchecked|new_impl)(::<.*>)?$", t["fn"]):
            ret_ty = b.locals[t["dest"][0]] if t["dest"] and len(t["dest"]) == 1 else ""
            if adt in ret_ty:
                fm = sigs.ctor_field_map(F, t["res"] or t["fn"])
                if fm:
                    ctor = True
                    for i, a in enumerate(t["args"]):
                        tt = b.term_of_operand(a)
                        for cb in underlying_calls(tt) | {s[5] for s in walk(deep_strip(tt)) if s[0] == "call"}:
                            if (i + 1) in fm:
                                call_to_field.setdefault(cb, fm[i + 1])
        if t["k"] == "call" and t["fn"] and re.search(r"Result::<.*>::map(::<.*>)?$", t["fn"]) and len(t["args"]) == 2 \
                and t["args"][1][0] == "k" and t["args"][1][3]:
            for cp in [p for p in F.bodies if sigs.nogen(p) == sigs.nogen(t["args"][1][3])]:
                fm = sigs.ctor_field_map(F, cp)
                if fm and 1 in fm:
                    ctor = True
                    tt = b.term_of_operand(t["args"][0])
                    for cb2 in underlying_calls(tt) | {s[5] for s in walk(deep_strip(tt)) if s[0] == "call"}:
                        call_to_field.setdefault(cb2, fm[1])
                    break
    if not ctor:
        return None, "constructor not recognised"
    out = []
    for k, bb in toks:
        f = call_to_field.get(bb)
        if f is not None and (not out or out[-1] != f):
            out.append(f)
    return out, ""


def rule_seq(ctx, F):
    R = "C06.seq"
    ctx.floor(R, 20)
    types = sigs.rdata_types(F)
    n = 0
    for adt in sorted(types):
        short = adt.split("::")[-1]
        zims = sigs.find_impl(F, adt, "base::zonefile_fmt::ZonefileFmt")
        scans = sigs.inherent_fn(F, adt, "scan")
        if not zims or len(scans) != 1:
            ctx.undecided_item(R, adt, "ZonefileFmt impls: %d, inherent scan fns: %d" % (len(zims), len(scans)))
            continue
        ftoks = fmt_tokens(F, zims[0])
        sfields, why = scan_field_order(F, scans[0], adt)
        if sfields is None:
            ctx.undecided_item(R, adt, "scan: %s" % why)
            continue
        if not ftoks or any(f is None for f in ftoks):
            ctx.undecided_item(R, adt, "fmt writes values not derived from a single field (%s)" % ftoks)
            continue
        if any(l for l in []):
            pass
        ff = []
        for f in ftoks:
            if not ff or ff[-1] != f:
                ff.append(f)
        n += 1
        ctx.ob(R, adt, "scan field order == fmt field order", sfields == ff,
               "%s: the zone-file writer emits fields %s but scan reads %s: the written text does not read back" % (short, ff, sfields),
               where=scans[0].where())
    ctx.call_sites += n


# ---------------------------------------------------------------------------

def reader_delimiters(F):
    """Characters for which Symbol::Char(c).is_word_char() is false (token delimiters / special characters)."""
    b = F.one_body(r"^base::scan::Symbol::is_word_char$")
    if b is None:
        return None

    def subj(tt):
        tt = deep_strip(tt)
        while tt[0] == "cast":
            tt = deep_strip(tt[2])
        return "as Char" in show(tt)
    parts = c03.byte_partition(b, F, subj)
    rets = {rb: kind for rb, si, kind, term in return_assignments(b)}
    rets_full = {rb: (kind, term) for rb, si, kind, term in return_assignments(b)}
    char_blocks = set()
    import json
    for bi, blk in enumerate(b.blocks):
        for st in blk["s"]:
            if st[0] == "=" and '"as", "Char"' in json.dumps(st[2]):
                char_blocks.add(bi)
    false_set = set()
    for octs, leaf, path in parts:
        blocks = list(path) + [leaf]
        if not (set(blocks) & char_blocks):
            continue
        hit = [x for x in blocks if x in rets]
        if not hit:
            continue
        kind, term = rets_full[hit[-1]]
        if kind == "false":
            false_set |= octs
        elif kind not in ("true",) and term is not None:
            tt = deep_strip(term)
            if tt[0] == "bin" and tt[1] in ("Ne", "Eq") and const_value(tt[3]) is not None and subj(tt[2]):
                k = const_value(tt[3])
                if tt[1] == "Ne":
                    false_set |= (octs & {k})
                else:
                    false_set |= (octs - {k})
    return false_set


def rule_esc(ctx, F):
    R = "C06.esc"
    ctx.floor(R, 2)
    w = F.one_body(r"^<base::name::label::Label as core::fmt::Display>::fmt$")
    if not ctx.anchor(R, "<Label as Display>::fmt", w):
        return
    raw = c03._writer_raw_set(w, F)
    delim = reader_delimiters(F)
    if raw is not None and not ctx.anchor(R, "octet classification of <Label as Display>::fmt (letters and digits printed raw)",
                                          set(b"abcxyzABCXYZ0189-_") <= raw, w.where()):
        return
    if raw is None or delim is None or not delim:
        ctx.ob(R, w, "shape", False, "writer/reader classifier shape not recognised")
        return
    ctx.ob(R, "base::scan::Symbol::is_word_char", "reader delimiter set", delim >= set(map(ord, " \t\r\n();\"")),
           "reader's non-word characters: %s" % sorted(chr(c) for c in delim))
    bad = sorted(raw & delim)
    ctx.ob(R, w, "label octets the reader treats as delimiters are escaped", not bad,
           "Label's Display prints %s unescaped, but the zone-file reader ends (or starts a comment / quoted string / "
           "group at) an unquoted token there: a name containing such an octet does not read back"
           % [chr(c) for c in bad])
    ctx.extra.setdefault("coverage", {})["reader_delimiters"] = sorted(chr(c) for c in delim)


# ---------------------------------------------------------------------------

def _mnemonics(F, ty_path):
    """byte-string constants (mnemonics) appearing in T::from_mnemonic / T::to_mnemonic"""
    out = {}
    for fn, real in (("from_mnemonic", "from_mnemonic"), ("to_mnemonic", "to_mnemonic_str")):
        b = F.body("%s::%s" % (ty_path, real))
        if b is None:
            continue
        s = set()
        for o in iter_operands(b):
            if o and o[0] == "k" and isinstance(o[2], list) and o[2] and all(isinstance(x, int) and 32 < x < 127 for x in o[2]) and len(o[2]) <= 16:
                s.add(bytes(o[2]).decode().upper())
            elif o and o[0] == "k" and isinstance(o[2], str) and 0 < len(o[2]) <= 16 and " " not in o[2]:
                s.add(o[2].upper())
        out[fn] = s
    return out


def rule_mn(ctx, F):
    R = "C06.mn"
    ctx.floor(R, 3)
    cls = _mnemonics(F, "base::iana::class::Class")
    rty = _mnemonics(F, "base::iana::rtype::Rtype")
    if not (ctx.anchor(R, "Class mnemonic tables", cls.get("from_mnemonic") or cls.get("to_mnemonic"))
            and ctx.anchor(R, "Rtype mnemonic tables", rty.get("from_mnemonic") or rty.get("to_mnemonic"))):
        return
    c_all = set().union(*cls.values())
    r_all = set().union(*rty.values())
    both = sorted(c_all & r_all)
    ctx.ob(R, "base::iana::class::Class", "no class mnemonic is also a record-type mnemonic", not both,
           "mnemonic(s) %s denote both a class and a record type: the zone-file reader tries the record type first, so a "
           "record of that class is misread" % both)
    for nm, tab in (("Class", cls), ("Rtype", rty)):
        if "from_mnemonic" in tab and "to_mnemonic" in tab:
            ctx.ob(R, "base::iana::%s" % nm, "to_mnemonic and from_mnemonic share one mnemonic set",
                   tab["from_mnemonic"] == tab["to_mnemonic"],
                   "%s: written but not read: %s; read but not written: %s"
                   % (nm, sorted(tab["to_mnemonic"] - tab["from_mnemonic"])[:6], sorted(tab["from_mnemonic"] - tab["to_mnemonic"])[:6]))
    ctx.extra.setdefault("coverage", {})["mnemonics"] = {"class": len(c_all), "rtype": len(r_all)}


# ---------------------------------------------------------------------------

def rule_label(ctx, F):
    R = "C06.label"
    ctx.floor(R, 2)
    b = F.body("zonefile::inplace::EntryScanner::<'_>::convert_label")
    if not ctx.anchor(R, "EntryScanner::convert_label", b):
        return
    # straight-line evaluation of the entry chain: *write as S + k
    env = {}
    mem = {"S": 1, 1: 0}
    bb = 0
    seen = set()
    while bb not in seen:
        seen.add(bb)
        blk = b.blocks[bb]
        for st in blk["s"]:
            if st[0] != "=":
                continue
            pl, rv = st[1], st[2]
            val = _eval(rv, env, mem)
            if pl == [2, "*"]:
                if val is not None:
                    mem = val
            elif len(pl) == 1:
                env[pl[0]] = val
        t = blk["t"]
        if t["k"] in ("assert", "goto") and t.get("t") is not None:
            bb = t["t"]
        else:
            break
    # the guards: comparisons of the write cursor (*write, the second parameter) with a local whose
    # value the straight-line prefix fixed relative to the entry cursor S.  Roles, not names.
    errs = {r[0] for r in return_assignments(b) if r[2] == "Err"}
    cyc = cyclic_blocks(b)
    payloads = []
    for bi in sorted(b.reachable_blocks()):
        t = b.blocks[bi]["t"]
        if t["k"] != "switch" or t["ty"] != "bool" or t["d"][0] not in ("c", "m"):
            continue
        for d in b.defs().get(t["d"][1][0], []):
            if d[0] != "stmt" or d[3][0] != "bin" or d[3][1] not in ("Ge", "Gt", "Le", "Lt"):
                continue
            op, lhs, rhs = d[3][1], d[3][2], d[3][3]

            def root(o):
                """('cursor',) | ('lin', value) | None for an operand local"""
                if o[0] not in ("c", "m"):
                    return None
                if o[1] == [2, "*"]:
                    return ("cursor",)
                if len(o[1]) != 1:
                    return None
                loc = o[1][0]
                for dd in b.defs().get(loc, []):
                    if dd[0] == "stmt" and dd[3][0] == "use" and dd[3][1][0] in ("c", "m"):
                        if dd[3][1][1] == [2, "*"]:
                            return ("cursor",)
                        if len(dd[3][1][1]) == 1 and env.get(dd[3][1][1][0]) is not None:
                            return ("lin", env[dd[3][1][1][0]])
                if env.get(loc) is not None:
                    return ("lin", env[loc])
                return None
            l, r = root(lhs), root(rhs)
            if l == ("cursor",) and r and r[0] == "lin":
                lim = r[1]
            elif r == ("cursor",) and l and l[0] == "lin":
                lim = l[1]
                op = {"Ge": "Le", "Gt": "Lt", "Le": "Ge", "Lt": "Gt"}[op]
            else:
                continue
            if lim.get("S") != 1 or bi not in cyc:
                continue
            # cursor OP lim ; which edge continues the loop?
            for s, lab in b.succs(bi):
                reach = b.reach_from(s)
                if bi not in reach:
                    continue   # leaves the loop (the error exit)
                truth = (lab != ("v", 0))
                # largest cursor value on the continuing edge
                k = lim.get(1, 0)
                if (op == "Ge" and not truth) or (op == "Lt" and truth):
                    mx = k - 1
                elif (op == "Gt" and not truth) or (op == "Le" and truth):
                    mx = k
                else:
                    continue
                payloads.append((bi, mx - 1))   # cursor - S - 1 (the length octet sits at S)
    ctx.ob(R, b, "both conversion loops bound the write cursor", len(payloads) >= 2,
           "expected a cursor guard in the in-place loop and in the copying loop of convert_label, found %d" % len(payloads))
    for n_, (bi, pay) in enumerate(sorted(payloads)):
        ctx.ob(R, b, "loop#%d admits label payloads of up to exactly 63 octets" % (n_ + 1), pay == 63,
               "convert_label continues with up to %d payload octets in a label (the write cursor may reach "
               "entry + %d): labels must be 1..=63 octets" % (pay, pay + 1), b.where(bi))


def _eval(rv, env, mem):
    k = rv[0]

    def opv(o):
        if o[0] == "k":
            return {1: o[2]} if isinstance(o[2], int) else None
        if o[0] in ("c", "m"):
            pl = o[1]
            if pl == [2, "*"]:
                return dict(mem)
            if len(pl) == 1:
                return env.get(pl[0])
            if len(pl) == 2 and isinstance(pl[1], list) and pl[1][0] == "." and pl[1][1] == 0:
                v = env.get(pl[0])
                return v
        return None
    if k == "use":
        return opv(rv[1])
    if k == "bin" and rv[1] in ("AddWithOverflow", "Add"):
        a, c = opv(rv[2]), opv(rv[3])
        if a is None or c is None:
            return None
        out = dict(a)
        for s, v in c.items():
            out[s] = out.get(s, 0) + v
        return out
    return None


# ---------------------------------------------------------------------------
# parentheses are written in pairs
# ---------------------------------------------------------------------------

def _token_sites(b, ch):
    """blocks of b that emit the literal character ch (format_args!(ch) / write_str / write_char)"""
    out = []
    for bi, t in b.calls():
        fn = t["fn"] or ""
        if re.search(r"fmt::Arguments::<'\w+>::(from_str|new|new_const)", fn) or fn.endswith("::write_str") or fn.endswith("::write_char"):
            for a in t["args"]:
                if a[0] == "k":
                    v = a[2]
                    if (isinstance(v, str) and ch in v) or (isinstance(v, list) and ord(ch) in v):
                        out.append(bi)
    return out


def rule_block(ctx, F):
    R = "C06.block"
    ctx.floor(R, 3)
    n = 0
    for im in F.impls:
        if im["trait"] != "base::zonefile_fmt::FormatWriter":
            continue
        bb_ = eb_ = None
        for it in im["items"]:
            if it["name"] == "begin_block":
                bb_ = F.bodies.get(it["path"])
            if it["name"] == "end_block":
                eb_ = F.bodies.get(it["path"])
        if bb_ is None or eb_ is None:
            continue
        n += 1

        def mode(b, ch):
            sites = _token_sites(b, ch)
            if not sites:
                return "never"
            oks = [r[0] for r in return_assignments(b) if r[2] == "Ok"] or list(b.return_blocks())
            # unconditional: every path from entry to a normal return passes a site
            reach = b.reach_from(0, removed_blocks=sites)
            if 0 in sites:
                return "always"
            errs = {r[0] for r in return_assignments(b) if r[2] == "Err"}
            passes = [rb for rb in oks if rb in reach]
            return "always" if not passes else "sometimes"
        mo, mc = mode(bb_, "("), mode(eb_, ")")
        ctx.ob(R, bb_, "`(` and `)` written under the same condition", mo == mc and mo != "sometimes",
               "impl FormatWriter for %s: begin_block writes `(` %s but end_block writes `)` %s: nested or repeated "
               "groups come out with unbalanced parentheses and the zone-file reader rejects the record"
               % (im["self_ty"], mo, mc))
    ctx.anchor(R, "impls of FormatWriter", n >= 3)


# ---------------------------------------------------------------------------
# an entry may end before the first converted token
# ---------------------------------------------------------------------------

def rule_entry(ctx, F):
    R = "C06.entry"
    ctx.floor(R, 1)
    bs = [b for p, b in F.bodies.items() if re.search(r"EntryScanner<'_> as base::scan::Scanner>::convert_entry$", p)]
    if not ctx.anchor(R, "<EntryScanner as Scanner>::convert_entry", len(bs) == 1):
        return
    b = bs[0]
    toks = [bb for bb, t in b.calls() if re.search(r"EntryScanner::<'_>::convert_one_token$|::convert_one_token$", t["fn"] or "")]
    if not ctx.anchor(R, "convert_one_token call in convert_entry", len(toks) >= 1, b.where()):
        return
    for i, bb in enumerate(toks):
        ok = any(tt[0] == "call" and (tt[1] or "").endswith("is_line_feed") and vv is False for tt, vv in bool_facts(b, bb, F))
        ctx.ob(R, b, "token#%d converted only while the entry has not ended" % (i + 1), ok,
               "convert_entry converts a token without first checking that the entry has not ended (no dominating "
               "is_line_feed() == false): an entry whose last field is empty (`\\# 0`, an empty key or digest) fails "
               "with 'unexpected end of entry' instead of yielding empty data", b.where(bb))


# ---------------------------------------------------------------------------
# Display and the zone-file writer agree, variant by variant, on whether
# anything is written
# ---------------------------------------------------------------------------

_WRITES = re.compile(r"::(write_fmt|write_str|write_char|write_token|write_show|write_comment|fmt|block|pad|display)$")


def _variant_writes(b, F):
    out = {}
    bf = BranchFacts(b, F)
    for sw in sorted(b.reachable_blocks()):
        t = b.blocks[sw]["t"]
        if t["k"] != "switch":
            continue
        for lab, (tt, vv) in bf.edge_facts(sw).items():
            if isinstance(vv, tuple) and vv[0] == "variant" and strip(tt)[0] == "arg":
                tgt = b.edge_target(sw, lab)
                r = b.reach_from(tgt)
                out[vv[1]] = any(b.blocks[x]["t"]["k"] == "call" and _WRITES.search(b.blocks[x]["t"]["fn"] or "") for x in r)
    return out


def rule_sib(ctx, F):
    R = "C06.sib"
    ctx.floor(R, 3)
    by = {}
    for im in F.impls:
        adt = im["self_adt"]
        if not adt or not adt.startswith(("rdata::", "base::")) or adt not in F.adts or len(F.adts[adt]["variants"]) < 2:
            continue
        if im["trait"] in ("core::fmt::Display", "base::zonefile_fmt::ZonefileFmt"):
            for it in im["items"]:
                if it["name"] == "fmt":
                    by.setdefault(adt, {})[im["trait"].split("::")[-1]] = F.bodies.get(it["path"])
    n = 0
    for adt, d in sorted(by.items()):
        if len(d) != 2 or not all(d.values()):
            continue
        a, z = _variant_writes(d["Display"], F), _variant_writes(d["ZonefileFmt"], F)
        if not a or not z:
            ctx.undecided_item(R, adt, "variant arms not recognised in Display / ZonefileFmt")
            continue
        n += 1
        diff = sorted(v for v in set(a) | set(z) if a.get(v) != z.get(v))
        ctx.ob(R, d["ZonefileFmt"], "Display and ZonefileFmt write for the same variants", not diff,
               "%s: variant(s) %s are written by %s but produce no token in %s: the zone-file text lacks a field the reader "
               "expects (or has one too many) and the record does not read back"
               % (adt.split("::")[-1], diff, "Display" if diff and a.get(diff[0]) else "ZonefileFmt",
                  "ZonefileFmt" if diff and a.get(diff[0]) else "Display"))
    ctx.anchor(R, "enums with both Display and ZonefileFmt", n >= 3)


# ---------------------------------------------------------------------------
# scan_name: no empty label inside a name
# ---------------------------------------------------------------------------

def rule_empty(ctx, F):
    """The zone-file reader assembles a name label by label in place and hands the octets to
    from_octets_unchecked.  convert_label reports `Some(true)` when it stopped at a dot; a label that
    ended where it began (W == S + 1, only the length octet) is empty.  Only the very first label may be
    empty (the root name `.`, which returns); on every path that goes on to the next label the label
    just converted must be known to be non-empty.  Decided over sample values of the running length W and
    its value S before the call (the comparisons involved are linear in W and S), not by matching text."""
    R = "C06.empty"
    ctx.floor(R, 2)
    b = F.body("<zonefile::inplace::EntryScanner<'_> as base::scan::Scanner>::scan_name")
    if not ctx.anchor(R, "EntryScanner::scan_name", b):
        return
    calls = [bi for bi, t in b.calls() if (t["fn"] or "").endswith("EntryScanner::<'_>::convert_label")]
    if not ctx.anchor(R, "scan_name -> convert_label (one call)", len(calls) == 1):
        return
    cb = calls[0]
    defs = b.defs()

    def ref_target(op, depth=0):
        """local a `&mut`-chain operand points to"""
        if op[0] not in ("c", "m") or len(op[1]) != 1 or depth > 4:
            return None
        for d in defs.get(op[1][0], []):
            if d[0] == "stmt" and d[3][0] == "ref":
                pl = d[3][2]
                if len(pl) == 1:
                    return pl[0]
                if len(pl) == 2 and pl[1] == "*":
                    return ref_target(("c", [pl[0]]), depth + 1)
        return None
    W = ref_target(b.blocks[cb]["t"]["args"][1])
    if not ctx.anchor(R, "the running length passed by &mut to convert_label", W is not None):
        return
    S = {st[1][0] for st in b.blocks[cb]["s"]
         if st[0] == "=" and len(st[1]) == 1 and st[2][0] == "use" and st[2][1][0] in ("c", "m") and st[2][1][1] == [W]}

    def ev(op, w, s, depth=0):
        if op[0] == "k":
            return op[2] if isinstance(op[2], int) and not isinstance(op[2], bool) else None
        if op[0] not in ("c", "m") or depth > 6:
            return None
        pl = op[1]
        if pl == [W]:
            return w
        if len(pl) == 1 and pl[0] in S:
            return s
        ds = defs.get(pl[0], [])
        if len(ds) != 1 or ds[0][0] != "stmt":
            return None
        rv = ds[0][3]
        if len(pl) == 2 and pl[1][0] == "." and pl[1][1] == 0 and rv[0] == "bin" and rv[1].endswith("WithOverflow"):
            a, c = ev(rv[2], w, s, depth + 1), ev(rv[3], w, s, depth + 1)
            if a is None or c is None:
                return None
            return a + c if rv[1].startswith("Add") else a - c if rv[1].startswith("Sub") else None
        if len(pl) != 1:
            return None
        if rv[0] == "use":
            return ev(rv[1], w, s, depth + 1)
        if rv[0] == "bin" and rv[1] in ("Add", "Sub"):
            a, c = ev(rv[2], w, s, depth + 1), ev(rv[3], w, s, depth + 1)
            if a is None or c is None:
                return None
            return a + c if rv[1] == "Add" else a - c
        return None

    CMP = {"Eq": lambda a, c: a == c, "Ne": lambda a, c: a != c, "Lt": lambda a, c: a < c, "Le": lambda a, c: a <= c,
           "Gt": lambda a, c: a > c, "Ge": lambda a, c: a >= c}

    def infeasible_edges(w, s):
        out = set()
        for bi in b.reachable_blocks():
            t = b.blocks[bi]["t"]
            if t["k"] != "switch" or t["ty"] != "bool" or t["d"][0] not in ("c", "m") or len(t["d"][1]) != 1:
                continue
            ds = defs.get(t["d"][1][0], [])
            if len(ds) != 1 or ds[0][0] != "stmt" or ds[0][3][0] != "bin" or ds[0][3][1] not in CMP:
                continue
            rv = ds[0][3]
            a, c = ev(rv[2], w, s), ev(rv[3], w, s)
            if a is None or c is None:
                continue
            val = 1 if CMP[rv[1]](a, c) else 0
            listed = [v for v, _ in t["v"]]
            for succ, lab in b.succs(bi):
                takes = (lab == ("v", val)) or (lab == ("o",) and val not in listed)
                if not takes:
                    out.add((bi, lab))
        return out

    # the edge on which convert_label reported "stopped at a dot"
    bf = BranchFacts(b, F)
    dot = []
    for bi in sorted(b.reachable_blocks()):
        if b.blocks[bi]["t"]["k"] != "switch":
            continue
        for lab, (tt, v) in bf.edge_facts(bi).items():
            s = show(deep_strip(tt))
            if v is True and "convert_label" in s and s.endswith(" as Some).0"):
                dot.append((bi, lab))
    if not ctx.anchor(R, "the `Some(true)` (stopped at a dot) edge of convert_label's result", len(dot) == 1):
        return
    start = b.edge_target(*dot[0])

    def continues(w, s):
        return cb in b.reach_from(start, removed_edges=infeasible_edges(w, s))
    empties = [(s_ + 1, s_) for s_ in (0, 1, 5, 100, 253)]
    fulls = [(s_ + 1 + n, s_) for s_, n in ((0, 1), (0, 63), (5, 1), (100, 7), (189, 63))]
    bad = [(w, s_) for w, s_ in empties if continues(w, s_)]
    ctx.ob(R, b, "an empty label never continues to the next label", not bad,
           "scan_name goes on to the next label after convert_label stopped at a dot with no octet in the label "
           "(running length %s after a label starting at %s): `a..b` becomes a name with a root label in the middle, "
           "built through from_octets_unchecked" % (bad[0] if bad else ("-", "-")), b.where(dot[0][0]),
           detail="sampled (length, label start) pairs: %s" % empties)
    lost = [(w, s_) for w, s_ in fulls if not continues(w, s_)]
    ctx.ob(R, b, "a non-empty label within the limits continues", not lost,
           "scan_name does not reach the next label after a non-empty label (running length %s after a label "
           "starting at %s): legal names are rejected" % (lost[0] if lost else ("-", "-")), b.where(dot[0][0]),
           detail="sampled pairs: %s" % fulls)


# ---------------------------------------------------------------------------
# SVCB parameters: the writer spells a key as the reader knows it; the reader's key alphabet
# ---------------------------------------------------------------------------

def _consts_of(b, F, depth=0):
    """string-like constants (str literals and format templates) a function writes, in block order"""
    out = []
    for bi in sorted(b.reachable_blocks()):
        for st in b.blocks[bi]["s"]:
            if st[0] == "=" and st[2][0] == "use" and st[2][1][0] == "k":
                o = st[2][1]
                if isinstance(o[2], str) and "str" in str(o[1]):
                    out.append(o[2])
                elif isinstance(o[2], list) and o[2] and all(isinstance(x, int) for x in o[2]):
                    out.append(bytes(x & 0xFF for x in o[2]).decode("latin-1"))
    return out


def rule_svckey(ctx, F):
    R = "C06.svckey"
    ctx.floor(R, 9)
    tb = F.body("base::iana::svcb::SvcParamKey::to_mnemonic_str")
    if not ctx.anchor(R, "SvcParamKey::to_mnemonic_str", tb):
        return
    # value -> mnemonic from the switch of the generated function
    table = {}
    t0 = tb.blocks[0]["t"]
    if t0["k"] == "switch":
        for v, tgt in t0["v"]:
            seen = set()
            x = tgt
            while x is not None and x not in seen and len(seen) < 6:
                seen.add(x)
                cs = [st[2][1][2] for st in tb.blocks[x]["s"] if st[0] == "=" and st[2][0] == "use" and st[2][1][0] == "k" and isinstance(st[2][1][2], str)]
                if cs:
                    table[v] = cs[0]
                    break
                tt = tb.blocks[x]["t"]
                x = tt.get("t") if tt["k"] in ("goto", "false", "falseunwind", "drop") else None
    if not ctx.anchor(R, "key mnemonic table", len(table) >= 8, tb.where()):
        return
    n = 0
    for p, b in sorted(F.bodies.items()):
        m = re.match(r"^<rdata::svcb::value::(\w+)(<.*>)? as rdata::svcb::params::SvcParamValue>::key$", p)
        if not m:
            continue
        ty = m.group(1)
        kv = None
        for bi, si, kind, term in return_assignments(b):
            cv = const_value(deep_strip(term)) if term is not None else None
            if cv is not None:
                kv = cv
        if kv is None or kv not in table:
            continue
        db = [x for q, x in F.bodies.items() if re.match(r"^<rdata::svcb::value::%s(<.*>)? as core::fmt::Display>::fmt$" % ty, q)]
        if not db:
            continue
        n += 1
        consts = _consts_of(db[0], F)
        want = table[kv]
        ctx.ob(R, db[0], "%s is written with the mnemonic of its key" % ty, any(want in c for c in consts),
               "Display of svcb::value::%s writes %s but the key %d is registered (and read) as `%s`: a record carrying this "
               "parameter is written in a form the reader answers with `unknown SvcParamKey`"
               % (ty, [c for c in consts if c.strip()][:2], kv, want))
    # the reader's key alphabet: a-z, 0-9, '-'
    sb = [x for q, x in F.bodies.items() if re.search(r"SvcParams<.*>::scan::allowed_key_charset$|svcb::params::.*allowed_key_charset$", q)]
    if ctx.anchor(R, "allowed_key_charset in SvcParams::scan", len(sb) == 1):
        import c03
        parts = c03.byte_partition(sb[0], F, lambda tt: deep_strip(tt) == ("arg", 1))
        ok_set = set()
        for octs, leaf, path in parts:
            blocks = list(path) + [leaf]
            # does this path return true?
            val = None
            for bb in blocks:
                for st in sb[0].blocks[bb]["s"]:
                    if st[0] == "=" and st[1] == [0] and st[2][0] == "use" and st[2][1][0] == "k":
                        val = st[2][1][2]
                    elif st[0] == "=" and st[1] == [0] and st[2][0] == "bin" and st[2][1] in ("Eq", "Ne"):
                        # the last operand of a `||` chain is returned as it is: `_0 = 0x2D == ch`
                        ks = [const_value(deep_strip(sb[0].term_of_operand(o))) for o in (st[2][2], st[2][3])]
                        k = next((x for x in ks if x is not None), None)
                        if k is not None:
                            val = ("eq", k) if st[2][1] == "Eq" else ("ne", k)
            if val in (1, True):
                ok_set |= octs
            elif isinstance(val, tuple):
                ok_set |= {o for o in octs if (o == val[1]) == (val[0] == "eq")}
        want = set(range(0x61, 0x7B)) | set(range(0x30, 0x3A)) | {0x2D}
        ctx.ob(R, sb[0], "the reader accepts exactly a-z, 0-9 and '-' in a key", ok_set == want,
               "SvcParams::scan accepts %s in a SvcParamKey; RFC 9460 2.1 allows a-z, 0-9 and '-' (missing: %s, extra: %s): "
               "keys such as `key9` or `key65529` that the writer produces cannot be read"
               % (_fmt_set(ok_set), _fmt_set(want - ok_set), _fmt_set(ok_set - want)))


def _fmt_set(s):
    return "".join(chr(c) if 0x21 <= c < 0x7F else "\\x%02x" % c for c in sorted(s)) or "-"


# ---------------------------------------------------------------------------
# the writers' octet -> symbol choice against the reader (all 256 octets)
# ---------------------------------------------------------------------------

def _char_set(b, F):
    """octets for which a `fn(ch: u8) -> Symbol` returns Symbol::Char(ch)"""
    parts = c03.byte_partition(b, F, lambda tt: deep_strip(tt) == ("arg", 1))
    if not parts:
        return None
    out = set()
    for octs, leaf, path in parts:
        blocks = list(path) + [leaf]
        kinds = [st[2][1][2] for bb in blocks for st in b.blocks[bb]["s"]
                 if st[0] == "=" and st[1] == [0] and st[2][0] == "agg" and st[2][1][0] == "adt" and str(st[2][1][1]).endswith("scan::Symbol")]
        if kinds and kinds[-1] == "Char":
            out |= octs
    return out


def rule_sym(ctx, F):
    R = "C06.sym"
    ctx.floor(R, 4)
    delim = reader_delimiters(F)
    if not ctx.anchor(R, "reader delimiter set (Symbol::is_word_char)", bool(delim)):
        return
    plain = set(range(0x21, 0x7F)) - set(delim) - {0x5C}
    for fn, what, allowed in (
        ("from_octet", "outside quotes", plain),
        ("quoted_from_octet", "inside a quoted string", set(range(0x20, 0x7F)) - {0x22, 0x5C}),
    ):
        b = F.one_body(r"^base::scan::Symbol::%s$" % fn)
        if not ctx.anchor(R, "Symbol::%s" % fn, b):
            continue
        cs = _char_set(b, F)
        if not ctx.anchor(R, "octet classification of Symbol::%s" % fn, cs is not None and set(b"abcxyz0189") <= cs, b.where()):
            continue
        bad = cs - allowed
        ctx.ob(R, b, "%s writes as plain characters only what the reader takes as such" % fn, not bad,
               "Symbol::%s leaves %s unescaped; %s the reader treats them as delimiters, grouping, comment start or as invalid: "
               "the written text does not read back" % (fn, _fmt_set(bad), what))
        ctx.ob(R, b, "%s does not escape more than it has to" % fn, len(allowed - cs) <= 8, nontrivial=False,
               detail="escaped although plain for the reader: %s" % _fmt_set(allowed - cs))


def rule_escread(ctx, F):
    """RFC 1035 5.1: `\\X` where X is any character other than a digit.  Both readers of escape sequences
    (Symbol::from_chars for text, Symbol::from_slice_index for octets) accept as a simple escape exactly the printable
    ASCII characters that are not digits -- the blank included, which every writer emits as `\\ `."""
    R = "C06.sym"
    want = set(range(0x20, 0x7F)) - set(range(0x30, 0x3A))
    for fn in ("from_chars", "from_slice_index"):
        bs = [b for p, b in F.bodies.items() if re.match(r"^base::scan::Symbol::%s(::<.*>)?$" % fn, p)]
        if not ctx.anchor(R, "Symbol::%s" % fn, len(bs) == 1):
            continue
        b = bs[0]
        # the value that becomes SimpleEscape(..)
        subj = None
        site = None
        for bi in sorted(b.reachable_blocks()):
            for st in b.blocks[bi]["s"]:
                if st[0] == "=" and st[2][0] == "agg" and st[2][1][0] == "adt" and str(st[2][1][1]).endswith("scan::Symbol") and "SimpleEscape" in str(st[2][1]):
                    subj = deep_strip(b.term_of_operand(st[2][2][0]))
                    site = bi
        if not ctx.anchor(R, "SimpleEscape construction in Symbol::%s" % fn, subj is not None, b.where()):
            continue
        def core(x):
            """the character itself: conversions (`u8::try_from(ch)`, `.map_err(..)?`, casts) peeled off"""
            for _ in range(12):
                x = deep_strip(x)
                if x[0] == "cast":
                    x = x[2]
                elif x[0] == "call" and re.search(r"try_from$|From<.*>::from$|::from$|::into$|::map_err$|Try(<.*>)?::branch$", x[1] or "") and x[3]:
                    x = x[3][0]
                elif x[0] == "field" and str(x[2]) == "0" and deep_strip(x[1])[0] == "downcast" and deep_strip(x[1])[2] in ("Continue", "Ok") :
                    x = deep_strip(x[1])[1]
                else:
                    break
            return deep_strip(x)
        s0 = core(subj)
        parts = c03.byte_partition(b, F, lambda tt: core(tt) == s0)
        if not ctx.anchor(R, "octet classification of the simple escape in Symbol::%s" % fn, bool(parts), b.where(site)):
            continue
        got = set()
        for octs, leaf, path in parts:
            if site in list(path) + [leaf]:
                got |= set(octs)
        ctx.ob(R, b, "%s takes `\\X` as a simple escape for exactly the printable non-digit characters" % fn, got == want,
               "Symbol::%s accepts a simple escape for %s and refuses it for %s (expected: 0x20..=0x7E without the digits): text "
               "that the writers produce (a blank is written `\\ `) is refused, or the two readers disagree about the same text"
               % (fn, _fmt_set(got - want) or "nothing extra", _fmt_set(want - got) or "nothing"), b.where(site))


# ---------------------------------------------------------------------------
# the type list of NSEC / NSEC3 is written from an iterator that looks at every bit
# ---------------------------------------------------------------------------

def rule_bititer(ctx, F):
    """RtypeBitmapIter::advance moves a (window, octet, bit) cursor to the next set bit.  Every position the
    cursor takes has to be *examined*: no way round the loop from one increment of the bit index to the next
    goes past the test of the bit the cursor then points at (whatever else happens in between -- octet
    wrap, window switch).  `new` is the sibling for the very first position: it advances only after it has
    looked at bit 0 of octet 0."""
    from rulelib import on_every_cycle
    R = "C06.bititer"
    ctx.floor(R, 2)
    b = F.one_body(r"^rdata::dnssec::RtypeBitmapIter::<'a>::advance$")
    if not ctx.anchor(R, "RtypeBitmapIter::advance", b):
        return

    def field_of(pl):
        for pr in pl[1:]:
            if isinstance(pr, list) and pr[0] == ".":
                return pr[2] if pr[2] is not None else pr[1]
        return None
    incs, tests = [], []
    for bi in sorted(b.reachable_blocks()):
        if b.blocks[bi].get("c"):
            continue
        for st in b.blocks[bi]["s"]:
            if st[0] != "=":
                continue
            if field_of(st[1]) == "bit" and st[1][0] == 1:
                tm = deep_strip(b.term_of_rvalue(st[2]))
                if tm[0] == "bin" and tm[1].startswith("Add"):
                    incs.append(bi)
            if st[2][0] == "bin" and st[2][1] == "BitAnd":
                tm = deep_strip(b.term_of_rvalue(st[2]))
                if any(s[0] == "bin" and s[1] in ("Shr", "ShrUnchecked") and const_value(deep_strip(s[2])) == 0x80 for s in walk(tm)):
                    tests.append(bi)
    if not ctx.anchor(R, "bit increment and bit test in RtypeBitmapIter::advance", len(incs) == 1 and len(tests) == 1, b.where()):
        return
    ctx.ob(R, b, "every position the cursor reaches is tested before the cursor moves on", on_every_cycle(b, incs[0], tests[0]),
           "RtypeBitmapIter::advance can go from one increment of the bit index to the next without testing the bit in "
           "between (a way round the loop that skips `data[octet] & (0x80 >> bit)`): a set bit at that position -- e.g. the "
           "first bit of a later window, types 256, 512, ... -- is never reported, so NSEC / NSEC3 type lists are written "
           "without it", b.where(incs[0]))
    nb = F.one_body(r"^rdata::dnssec::RtypeBitmapIter::<'a>::new$")
    if not ctx.anchor(R, "RtypeBitmapIter::new", nb):
        return
    adv = [bb for bb, _ in nb.calls_matching(r"RtypeBitmapIter::<'a>::advance$|RtypeBitmapIter::<.*>::advance$")]
    ok = bool(adv)
    for bb in adv:
        tested = False
        for tm, v in bool_facts(nb, bb, F):
            s = deep_strip(tm)
            if any(x[0] == "bin" and x[1] == "BitAnd" and const_value(deep_strip(x[3])) == 0x80 for x in walk(s)):
                tested = True
        ok = ok and tested
    ctx.ob(R, nb, "the first position is tested before the first advance", ok,
           "RtypeBitmapIter::new advances without having looked at bit 0 of the first octet (type 0 of the first window)",
           nb.where(adv[0]) if adv else nb.where())


def rule_charstr255(ctx, F):
    """A character string holds up to 255 octets.  convert_charstr marks the position `latest` = first content octet + 255
    and refuses a string whose write cursor goes *past* it; both of its loops (the in-place fast one and the copying
    one) make that test with `>` -- a `>=` in one of them refuses a 255-octet string that takes that loop (one with an
    escape in it, or any string behind the first of a long TXT value), which the writer produces."""
    R = "C06.charstr255"
    ctx.floor(R, 2)
    b = F.one_body(r"^zonefile::inplace::EntryScanner::<'_>::convert_charstr$")
    if not ctx.anchor(R, "EntryScanner::convert_charstr", b):
        return
    # `latest`: the local assigned (deref of the write cursor) + 255
    latest = set()
    for bi in b.reachable_blocks():
        for st in b.blocks[bi]["s"]:
            if st[0] == "=" and len(st[1]) == 1 and st[2][0] == "use" and st[2][1][0] in ("c", "m") and len(st[2][1][1]) == 2:
                src = st[2][1][1][0]
                for d in b.defs().get(src, []):
                    if d[0] == "stmt" and d[3][0] == "bin" and d[3][1].startswith("Add") and const_value(deep_strip(b.term_of_operand(d[3][3]))) == 255:
                        latest.add(st[1][0])
    hits = []
    for bi in sorted(b.reachable_blocks()):
        env = {}
        for st in b.blocks[bi]["s"]:
            if st[0] != "=" or len(st[1]) != 1:
                continue
            rv = st[2]
            if rv[0] == "use" and rv[1][0] in ("c", "m"):
                env[st[1][0]] = rv[1][1]
            if rv[0] == "bin" and rv[1] in ("Gt", "Ge", "Lt", "Le", "Eq", "Ne"):
                pls = []
                for o in (rv[2], rv[3]):
                    pl = o[1] if o[0] in ("c", "m") else None
                    if pl is not None and len(pl) == 1 and pl[0] in env:
                        pl = env[pl[0]]
                    pls.append(pl)
                def is_latest(pl):
                    return pl is not None and len(pl) == 1 and pl[0] in latest
                def is_write(pl):
                    return pl is not None and len(pl) >= 2 and "*" in pl and pl[0] == 2
                if is_write(pls[0]) and is_latest(pls[1]):
                    hits.append((bi, rv[1]))
                elif is_latest(pls[0]) and is_write(pls[1]):
                    hits.append((bi, {"Gt": "Lt", "Lt": "Gt", "Ge": "Le", "Le": "Ge"}.get(rv[1], rv[1])))
    if not ctx.anchor(R, "`latest` (= first content octet + 255) and the guards against it in convert_charstr", bool(latest) and len(hits) >= 2, b.where()):
        return
    for n, (bi, op) in enumerate(hits):
        ctx.ob(R, b, "loop#%d admits 255 octets of content" % (n + 1), op == "Gt",
               "convert_charstr refuses the string when the write cursor is `%s` the 255-octet mark (its sibling loop: past it): a "
               "character string of exactly 255 octets that goes through this loop -- the writer produces them -- is rejected as "
               "too long" % {"Ge": "at or past", "Lt": "before", "Le": "at or before", "Eq": "at"}.get(op, op), b.where(bi))
