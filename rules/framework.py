"""Obligation bookkeeping, known-findings handling, evidence writing."""
import json
import os
import re
import time

VERIF = os.path.dirname(os.path.dirname(os.path.abspath(__file__)))
KNOWN = os.path.join(VERIF, "known_findings.txt")
EVID = os.path.join(VERIF, "evidence")

SENTENCE = (
    "Static analysis over rustc MIR/HIR of /repo's current tree; decides the listed "
    "structural clauses, not the behaviour."
)


class Ob:
    __slots__ = ("rule", "fn", "site", "ok", "msg", "where", "nontrivial", "detail")

    def __init__(self, rule, fn, site, ok, msg, where, nontrivial, detail):
        self.rule = rule
        self.fn = fn
        self.site = site
        self.ok = ok
        self.msg = msg
        self.where = where
        self.nontrivial = nontrivial
        self.detail = detail

    @property
    def key(self):
        return "%s|%s|%s" % (self.rule, self.fn, self.site)

    def as_json(self):
        return {
            "rule": self.rule,
            "fn": self.fn,
            "site": self.site,
            "where": self.where,
            "ok": self.ok,
            "msg": self.msg,
            "detail": self.detail,
        }


class Ctx:
    def __init__(self, prop, facts, tier="quick", config="all"):
        self.prop = prop
        self.facts = facts
        self.tier = tier
        self.config = config
        self.obs = []
        self.undecided = []
        self.notes = []
        self.rule_floor = {}
        self.functions = set()
        self.call_sites = 0
        self.extra = {}

    # -- recording -------------------------------------------------------
    def ob(self, rule, fn, site, ok, msg="", where="", nontrivial=True, detail=None):
        """Record one obligation.  `fn` is a def-path (or type path), `site` a
        semantic site descriptor (never a line number)."""
        if hasattr(fn, "path"):
            if not where:
                where = fn.where()
            fn = fn.path
        self.obs.append(Ob(rule, fn, site, bool(ok), msg, where, nontrivial, detail))
        self.functions.add(fn)
        return bool(ok)

    def anchor(self, rule, what, found, where=""):
        """An entity a rule is anchored on must exist (fail closed)."""
        if not found:
            self.obs.append(
                Ob("anchor-missing", what, rule, False,
                   "anchor not found in the current tree (renamed, removed or no longer compiled): "
                   "rule %s cannot be evaluated" % rule, where, True, None))
            return False
        return True

    def floor(self, rule, expected_min):
        self.rule_floor[rule] = expected_min

    def undecided_item(self, rule, what, reason):
        self.undecided.append({"rule": rule, "what": what, "reason": reason})

    def note(self, s):
        self.notes.append(s)

    # -- finishing -------------------------------------------------------
    def finish(self, wall_s, seed=0, extra_obs_ok=True):
        # floors: a rule matching fewer sites than confirmed by hand went vacuous
        counts = {}
        for o in self.obs:
            counts[o.rule] = counts.get(o.rule, 0) + 1
        for rule, mn in self.rule_floor.items():
            n = counts.get(rule, 0)
            if n < mn:
                self.obs.append(
                    Ob("instance-vanished", rule, "floor", False,
                       "rule %s matched %d site(s), fewer than the %d confirmed on the pinned tree "
                       "(the protected construct was removed or is no longer recognised)" % (rule, n, mn),
                       "", True, None))
        known = load_known(self.prop)
        viol = [o for o in self.obs if not o.ok]
        new = []
        kf = []
        seen_keys = set()
        for o in viol:
            if o.key in known:
                if o.key not in seen_keys:
                    kf.append((o, known[o.key]))
                    seen_keys.add(o.key)
            else:
                new.append(o)
        return viol, new, kf

    def evidence(self, wall_s, seed, viol, new, kf, checker_cmd):
        per_rule = {}
        for o in self.obs:
            d = per_rule.setdefault(o.rule, {"found": 0, "discharged": 0})
            d["found"] += 1
            if o.ok:
                d["discharged"] += 1
        for r, mn in self.rule_floor.items():
            per_rule.setdefault(r, {"found": 0, "discharged": 0})["expected_min"] = mn
        keys = set()
        nontriv = set()
        for o in self.obs:
            keys.add(o.key)
            if o.nontrivial:
                nontriv.add(o.key)
        samples = []
        seen_rules = set()
        for o in self.obs:
            if o.rule not in seen_rules and o.ok:
                seen_rules.add(o.rule)
                samples.append(o.as_json())
        for o in viol[:10]:
            samples.append(o.as_json())
        ev = {
            "property_id": self.prop,
            "tier": self.tier,
            "seed": seed,
            "level": "other",
            "coverage": {
                "explanation": SENTENCE + " " + self.extra.get("explanation", ""),
                "obligations": len(self.obs),
                "discharged": sum(1 for o in self.obs if o.ok),
                "evaluations": len(self.obs),
                "distinct_nontrivial": len(nontriv),
                "rule": "one obligation = one rule instance at one program site (function, call "
                        "site, field, type or constant) of the current tree; distinct = distinct "
                        "(rule, function, site) key; non-trivial = the discharge needed a CFG/"
                        "dataflow/signature fact (not a mere presence test)",
                "samples": samples[:40],
                "checker_cmd": checker_cmd,
                "trusted_base": [
                    "rustc nightly front end, type checker, MIR builder, const evaluator",
                    "Instance::try_resolve for callee resolution",
                    "/verif/driver (domain-facts) serialisation",
                    "hand-frozen tables in /verif/rules (each line carries its reason)",
                ],
                "bodies_analysed": len(self.facts.bodies) if self.facts else 0,
                "functions_in_scope": len(self.functions),
                "call_sites_matched": self.call_sites,
                "rule_instances": per_rule,
                "undecided": self.undecided,
                "known_findings": [o.key for o, _ in kf],
                "feature_config": self.config,
                "notes": self.notes,
                "exhaustive": False,
            },
            "assumptions": [
                "the analysed feature configuration(s) cover the code the property anchors in",
                "dominance/separation on the MIR CFG over-approximates feasible paths",
            ] + self.extra.get("assumptions", []),
            "wall_s": round(wall_s, 2),
            "violations": len(new),
        }
        for k, v in self.extra.get("coverage", {}).items():
            ev["coverage"][k] = v
        return ev


def load_known(prop):
    out = {}
    if not os.path.exists(KNOWN):
        return out
    rx = re.compile(r"^finding:\s+property=(\S+)\s+key=(.*?)\s+::\s+(.*)$")
    with open(KNOWN) as fh:
        for line in fh:
            m = rx.match(line.strip())
            if m and m.group(1) == prop:
                out[m.group(2)] = m.group(3)
    return out


def report(ctx, new, kf, replay_path):
    lines = []
    for o, what in kf:
        lines.append("KNOWN-FINDING: property=%s key=%s :: %s" % (ctx.prop, o.key, what))
    for o in new:
        lines.append("%s fn=%s" % (o.where or "?", o.fn))
        lines.append("  rule=%s instance=%s: %s" % (o.rule, o.site, o.msg))
        if o.detail:
            lines.append("  detail: %s" % (o.detail if isinstance(o.detail, str) else json.dumps(o.detail)))
    if new:
        lines.append("VIOLATION property=%s replay=%s" % (ctx.prop, replay_path))
    return lines
