"""C01 — reading any octet string as a message is total (structural clauses).

C01.ptr   every site where a decoded compression pointer becomes the next
          read position is behind a *strict* backward guard against the
          *current* position, re-evaluated on every loop iteration.
C01.loop  every CFG cycle of the name walkers passes a bounded-progress
          guard (length accumulate+cap, or the strict pointer guard).
C01.fuse  section iterators write their count on every Some(..) path
          (decrement on Ok, fuse on Err).
C01.sub   record data is parsed from a sub-parser limited to RDLENGTH and the
          trailing-data check dominates Ok; skip advances by the parsed rdlen.
C01.ts    ParsedName / ParsedNameIter typestate: who may construct, who may
          write pos/name_len.
C01.ovf   no checked narrow-int arithmetic on wire-controlled counts/lengths
          without a dominating bound.
C01.txt   zero-length TXT data is accepted from the wire: no accessor of Txt
          reads octet 0 (or slices from 1) without first establishing that it
          exists, unless every constructor establishes non-emptiness.
C01.arr   a range into a fixed-size buffer whose end derives from message
          octets is dominated by a bound <= the buffer's length.
C01.skip  ParsedName::skip accepts uncompressed names of exactly the lengths
          ParsedName::parse accepts (a message reads the same whether a
          record is skipped or parsed).
C01.window the type-bitmap validator accepts exactly the windows the unchecked
          iterator can walk (1..=32 bitmap octets, window inside the data).
C01.rematch an `unreachable!()` in the arm of a second `match` on a value that
          an earlier `match` has already classified is really unreachable:
          with the value sets of the earlier arms carried along the paths, no
          path reaches it (wire-derived selector: IPSECKEY gateway type).
C01.lossy a loop that prints octets as lossy UTF-8 advances by the error
          length only when there is one (`Utf8Error::error_len()` is `None`
          for a sequence cut short by the end of the data: the loop must end).
C01.clone a hand-written `Clone` of an iterator over a message copies every
          field from `self` (a literal in its place changes what the clone
          yields).
C01.panic no explicit panic macro whose controlling value is wire-derived in
          functions reachable from the read-side entry points; typed unwraps
          of parse results are dominated by a discharging fact or audited.
"""
import re

from mirlib import BranchFacts, strip, deep_strip, show, walk, const_value
from rulelib import (
    bool_facts, canon_nobb, control_terms, cyclic_blocks, dominating_edges, facts_at, fmt_path, leaf_def_blocks,
    interval_of, must_pass, on_every_cycle, outcome_facts, relation_edges, relations, return_assignments,
    succeeded_calls, failed_calls, upper_bounds,
)

POINTER_VARIANTS = {
    # enum variants whose payload is a decoded compression pointer (reason: the only two decoders
    # of the 0b11 label type in the established codec)
    "Compressed": "base::name::parsed::LabelType::Compressed(usize)",
    "Pointer": "base::name::label::SplitLabelError::Pointer(u16)",
}


# pointer followers that rely on the ParsedName typestate instead of a guard: they only ever see
# octets that parse_ref has already walked (constructors/writers are restricted by C01.ts)
TRUSTING = {
    "base::name::parsed::ParsedName::<Octs>::split_first": "operates on a ParsedName validated by parse_ref (C01.ts)",
    "base::name::parsed::ParsedName::<Octs>::parent": "operates on a ParsedName validated by parse_ref (C01.ts)",
}


def run(ctx):
    F = ctx.facts
    ctx.extra["explanation"] = (
        "C01: strict-backward pointer guards with per-iteration freshness, bounded-progress guard on "
        "every cycle of the name walkers, fused section iterators, RDLENGTH sub-parser confinement, "
        "ParsedName typestate, narrow-int overflow on wire counts, wire-controlled explicit panics "
        "and typed unwraps on the read path. Absence of all panics (bounds checks in core/octseq, "
        "usize arithmetic) and termination of every rdata parser loop are not decided."
    )
    rule_ptr(ctx, F)
    rule_loop(ctx, F)
    rule_fuse(ctx, F)
    rule_fuse_wrapper(ctx, F)
    rule_ptrmask(ctx, F)
    rule_lensub(ctx, F)
    rule_sub(ctx, F)
    rule_ts(ctx, F)
    rule_ovf(ctx, F)
    rule_panic(ctx, F)
    rule_rematch(ctx, F)
    rule_lossy(ctx, F)
    rule_clone(ctx, F)
    rule_window(ctx, F)
    rule_txt(ctx, F)
    rule_arr(ctx, F)
    rule_skip(ctx, F)
    rule_handloop(ctx, F)
    rule_hintelem(ctx, F)
    rule_printer(ctx, F)
    # "whatever is returned as a name or record can itself be ... compared and displayed without failure":
    # the flat-slice shortcut of ParsedName is sound only if its `compressed` flag is (shared with C03), and
    # displaying NSEC3 / DS / key data goes through the base16/32/64 encoders (shared with C18)
    import c03
    import c18
    c03.rule_flag(ctx, F)
    c18.rule_enc(ctx, F)


# ---------------------------------------------------------------------------
# pointer follow sites
# ---------------------------------------------------------------------------

def _is_pointer_term(t):
    for s in walk(t):
        if s[0] == "downcast" and s[2] in POINTER_VARIANTS:
            return True
    return False


def _follow_sites(b):
    """[(bb, kind, value_operand, cursor_desc)] where a pointer-derived value
    becomes the next read position."""
    out = []
    for bi in sorted(b.reachable_blocks()):
        blk = b.blocks[bi]
        for st in blk["s"]:
            if st[0] == "=" and len(st[1]) > 1 and st[2][0] == "use":
                tgt = deep_strip(b.term_of_place(st[1]))
                if tgt[0] == "field" and tgt[1] == ("arg", 1) and tgt[2] in ("start", "pos"):
                    v = b.term_of_operand(st[2][1])
                    if _is_pointer_term(v):
                        out.append((bi, "assign self.%s" % tgt[2], st[2][1], ("field", tgt[2])))
        t = blk["t"]
        if t["k"] == "call" and (t["fn"] or "").endswith("Parser::<'_, Octs>::seek") or (
                t["k"] == "call" and re.search(r"octseq::(parse::)?Parser::<.*>::seek$", t["fn"] or "")):
            v = b.term_of_operand(t["args"][1])
            if _is_pointer_term(v):
                out.append((bi, "Parser::seek", t["args"][1], ("parser", t["args"][0])))
    return out


def rule_ptr(ctx, F):
    R = "C01.ptr"
    ctx.floor(R, 4)
    scope = [b for p, b in F.bodies.items()
             if (p.startswith("base::name::") or p.startswith("<base::name::")) and "::test" not in p]
    nsites = 0
    for b in scope:
        for (bi, kind, vop, cursor) in _follow_sites(b):
            nsites += 1
            if b.path in TRUSTING:
                ctx.ob(R, b, "%s (typestate-trusting)" % kind, True, nontrivial=False, where=b.where(bi),
                       detail=TRUSTING[b.path])
                continue
            v = deep_strip(b.term_of_operand(vop))
            vleaves = _phi_leaves(v)
            # candidate guards: dominating strict relations  X < B  with X one of the pointer leaves
            rels = relation_edges(b, bi, F)
            found = None
            why = "no dominating guard compares the pointer with the current position"
            for (x, rel, bound, edge) in rels:
                if not any(canon_nobb(x) == canon_nobb(l) for l in vleaves + [v]):
                    continue
                kind_b, slack = _cursor_bound(b, bound, cursor)
                if kind_b is None:
                    why = "guard bound %s is not the current read position" % show(bound)
                    continue
                # accepted  =>  ptr < bound (strict) with bound <= position of the pointer itself
                strict = (rel == "<" and slack >= 0) or (rel == "<=" and slack >= 1)
                if not strict:
                    why = ("guard %s %s %s is not strict: a pointer to itself (or forward) is followed"
                           % (show(x), rel, show(bound)))
                    continue
                found = (x, rel, bound, edge)
                break
            ok = found is not None
            ctx.ob(R, b, "%s strict backward" % kind, ok, why, b.where(bi),
                   detail=("%s %s %s" % (show(found[0]), found[1], show(found[2]))) if found else None)
            if not found:
                continue
            # freshness: the guard and the position it reads are re-evaluated on every cycle through the site
            gsw = found[3][0]
            fresh_blocks = {gsw}
            sw_term = b.blocks[gsw]["t"]
            cmp_defs = b.defs().get(sw_term["d"][1][0], []) if sw_term["d"][0] in ("c", "m") else []
            for d in cmp_defs:
                if d[0] == "stmt" and d[3][0] == "bin":
                    for o in (d[3][2], d[3][3]):
                        if canon_nobb(b.term_of_operand(o)) == canon_nobb(found[2]):
                            lb = leaf_def_blocks(b, o)
                            fresh_blocks |= lb if lb else {d[1]}
            stale = [fb for fb in sorted(fresh_blocks) if not on_every_cycle(b, bi, fb)]
            ctx.ob(R, b, "%s guard fresh per iteration" % kind, not stale,
                   "the guard (or the position it compares against, evaluated in bb%s) is not re-evaluated on "
                   "every loop iteration that follows a pointer: a later pointer is checked against a stale "
                   "limit and a pointer cycle is followed forever" % stale, b.where(bi))
    ctx.call_sites += nsites
    # trusting sites: decode a pointer without a guard, relying on the ParsedName typestate (C01.ts)
    g = F.body("base::name::parsed::ParsedNameIter::<'a>::get_label")
    ctx.anchor(R, "ParsedNameIter::get_label (typestate-trusting pointer follower)", g)


def _phi_leaves(t):
    t = deep_strip(t)
    if t[0] == "phi":
        out = []
        for a in t[2]:
            out += _phi_leaves(a)
        return out
    if t[0] == "cast":
        return [t] + _phi_leaves(t[2])
    return [t]


def _cursor_bound(b, bound, cursor):
    """Is `bound` the current read position (kind, slack)?  slack = how far
    below the pointer's own position the bound lies (>= 0 means a strict `<`
    against it excludes the pointer's own offset)."""
    bound = deep_strip(bound)
    if cursor[0] == "field":
        if bound == ("field", ("arg", 1), cursor[1]):
            return "field", 0
        return None, None
    # parser cursor: pos(parser) - K where the pointer occupied the two octets before pos
    k = 0
    t = bound
    if t[0] == "bin" and t[1] == "Sub" and const_value(t[3]) is not None:
        k = const_value(t[3])
        t = deep_strip(t[2])
    if t[0] == "call" and re.search(r"Parser::<.*>::pos$", t[1] or ""):
        p_arg = deep_strip(t[3][0])
        want = deep_strip(b.term_of_operand(cursor[1]))
        if canon_nobb(p_arg) == canon_nobb(want):
            return "parser", k - 2
    return None, None


# ---------------------------------------------------------------------------
# bounded progress on every cycle of the name walkers
# ---------------------------------------------------------------------------

LOOP_SCOPE = [
    # (body regex, human name)
    (r"^base::name::parsed::ParsedName::<&'a Octs>::parse_ref$", "ParsedName::parse_ref"),
    (r"^base::name::parsed::ParsedName::<\(\)>::skip$", "ParsedName::skip"),
    (r"^<base::name::label::SliceLabelsIter<'a> as core::iter::Iterator>::next$", "SliceLabelsIter::next"),
]
NAME_CAP = 256  # accepted accumulated length must stay < 256 (255-octet names)


def _len_guards(b, F):
    """Switch blocks that cap an accumulating length local: the local is
    assigned `self + x` somewhere and the switch's passing edge bounds it by a
    constant <= NAME_CAP."""
    acc_locals = set()
    for bi in b.reachable_blocks():
        for st in b.blocks[bi]["s"]:
            if st[0] == "=" and len(st[1]) == 1 and st[2][0] == "use" and st[2][1][0] in ("c", "m"):
                src = st[2][1][1]
                # _2 = move _40.0  where _40 = AddWithOverflow(_2, x)
                if len(src) == 2 and isinstance(src[1], list) and src[1][0] == "." and src[1][1] == 0:
                    for d in b.defs().get(src[0], []):
                        if d[0] == "stmt" and d[3][0] == "bin" and d[3][1] == "AddWithOverflow":
                            a = d[3][2]
                            if a[0] in ("c", "m") and a[1] == [st[1][0]]:
                                acc_locals.add(st[1][0])
    guards = {}
    for bi in b.reachable_blocks():
        t = b.blocks[bi]["t"]
        if t["k"] != "switch" or t["ty"] != "bool":
            continue
        pred = strip(b.term_of_operand(t["d"]), calls=False)
        if pred[0] != "bin" or pred[1] not in ("Lt", "Le", "Gt", "Ge"):
            continue
        # find the comparison statement to see raw locals
        dl = t["d"][1][0] if t["d"][0] in ("c", "m") else None
        for d in b.defs().get(dl, []):
            if d[0] != "stmt" or d[3][0] != "bin":
                continue
            for side, other in ((d[3][2], d[3][3]), (d[3][3], d[3][2])):
                if side[0] in ("c", "m") and len(side[1]) == 1:
                    root = side[1][0]
                    # follow one copy
                    for dd in b.defs().get(root, []):
                        if dd[0] == "stmt" and dd[3][0] == "use" and dd[3][1][0] in ("c", "m") and len(dd[3][1][1]) == 1:
                            root = dd[3][1][1][0]
                    k = const_value(b.term_of_operand(other))
                    if root not in acc_locals and k is not None:
                        # the sum is computed first (in the loop or in an inlined helper) and stored back afterwards
                        from rulelib import accumulator_of
                        al = accumulator_of(b.term_of_operand(side))
                        if al is not None:
                            acc_locals.add(al)
                            root = al
                    if root in acc_locals and k is not None:
                        # bound established on the continuing edge
                        op = d[3][1]
                        if side is d[3][3]:
                            op = {"Lt": "Gt", "Le": "Ge", "Gt": "Lt", "Ge": "Le"}[op]
                        # continuing edge = the one on which the loop goes on (not the Err return)
                        cap = {"Ge": k, "Gt": k + 1, "Lt": k, "Le": k + 1}[op]
                        guards[bi] = (root, cap)
    return guards


def rule_loop(ctx, F):
    R = "C01.loop"
    ctx.floor(R, 3)
    for rx, name in LOOP_SCOPE:
        b = F.one_body(rx)
        if not ctx.anchor(R, name, b):
            continue
        progress = set()
        caps = []
        lg = _len_guards(b, F)
        for bi, (loc, cap) in lg.items():
            if cap <= NAME_CAP:
                progress.add(bi)
            caps.append(cap)
        # strict pointer guards established by C01.ptr for this body
        for (bi, kind, vop, cursor) in _follow_sites(b):
            v = deep_strip(b.term_of_operand(vop))
            for (x, rel, bound, edge) in relation_edges(b, bi, F):
                if any(canon_nobb(x) == canon_nobb(l) for l in _phi_leaves(v) + [v]):
                    kb, slack = _cursor_bound(b, bound, cursor)
                    if kb is not None and ((rel == "<" and slack >= 0) or (rel == "<=" and slack >= 1)):
                        if all(on_every_cycle(b, bi, edge[0]) for _ in (0,)):
                            progress.add(edge[0])
        cyc = cyclic_blocks(b, removed=progress)
        ctx.ob(R, b, "every cycle passes a bounded-progress guard", not cyc,
               "a loop in %s can iterate without passing the name-length cap (<= 255) or a strict backward "
               "pointer guard: blocks on an unguarded cycle: %s (length caps found: %s)"
               % (name, sorted(cyc)[:8], sorted(caps)))


# ---------------------------------------------------------------------------
# fused section iterators
# ---------------------------------------------------------------------------

FUSE_FNS = [
    "<base::message::QuestionSection<'a, Octs> as core::iter::Iterator>::next",
    "<base::message::RecordSection<'a, Octs> as core::iter::Iterator>::next",
    "base::message::RecordSection::<'a, Octs>::skip_next",
]


def rule_fuse(ctx, F):
    R = "C01.fuse"
    ctx.floor(R, 9)
    for p in FUSE_FNS:
        b = F.body(p)
        if not ctx.anchor(R, p, b):
            continue
        # writes to self.count
        writes = {}
        for bi in b.reachable_blocks():
            for st in b.blocks[bi]["s"]:
                if st[0] == "=" and len(st[1]) > 1:
                    tgt = deep_strip(b.term_of_place(st[1]))
                    if tgt == ("field", ("arg", 1), "count"):
                        writes[bi] = deep_strip(b.term_of_rvalue(st[2]))
        somes = [r for r in return_assignments(b) if r[2] == "Some"]
        ctx.anchor(R, "Some(..) returns of %s" % p, len(somes) >= 2, b.where())
        for i, (rb, si, kind, term) in enumerate(somes):
            inner = deep_strip(term[2][0]) if term and term[0] == "agg" else None
            is_err = inner is not None and inner[0] == "agg" and inner[1][:3] == ("adt", "core::result::Result", "Err")
            ok, pth = must_pass(b, 0, [rb], list(writes))
            # the write on this path must be of the right kind
            good = False
            what = ""
            for wb, wt in writes.items():
                if not b.dominates(wb, rb):
                    continue
                if is_err:
                    good = wt[0] == "agg" and wt[1][:3] == ("adt", "core::result::Result", "Err")
                    what = "self.count = Err(err)"
                else:
                    # Ok(count - 1)
                    good = (wt[0] == "agg" and wt[1][:3] == ("adt", "core::result::Result", "Ok")
                            and deep_strip(wt[2][0])[0] == "bin" and deep_strip(wt[2][0])[1] == "Sub"
                            and const_value(deep_strip(wt[2][0])[3]) == 1)
                    what = "self.count = Ok(count - 1)"
            ctx.ob(R, b, "%s arm updates count" % ("Err" if is_err else "Ok"), ok and good,
                   "a path returning Some(%s) does not perform `%s`: the iterator would yield the same "
                   "item/error forever (e.g. `while section.next().is_some() {}` in Message::answer hangs)"
                   % ("Err" if is_err else "Ok", what), b.where(rb))
        # entry guard: items are only produced while count is Ok(n) with n > 0
        calls = [bb for bb, t in b.calls() if t["fn"] and re.search(r"Question<.*>::parse$|ParsedRecord::<.*>::(parse|skip)$|::parse$|::skip$", t["fn"])]
        okg = False
        for cb in calls:
            for (x, rel, y) in relations(b, cb, F):
                if rel == "<" and const_value(x) == 0 and "count" in show(y):
                    okg = True
        ctx.ob(R, b, "parse only while count > 0", okg,
               "the section iterator must only parse while the remaining count is Ok(n), n > 0")


def _maybe_bits(t, depth=0):
    """bits that may be set in an unsigned value built from octets with masks, shifts and ORs; None if unknown"""
    t = deep_strip(t)
    if depth > 30:
        return None
    cv = const_value(t)
    if cv is not None and isinstance(cv, int):
        return cv
    k = t[0]
    if k == "idx":
        return 0xFF                      # an element of an octet slice
    if k in ("field", "downcast", "deref", "ref"):
        return _maybe_bits(t[1], depth + 1)
    if k == "cast":
        inner = _maybe_bits(t[2], depth + 1)
        m = re.match(r"^u(8|16|32|64|size)$", str(t[3]) if len(t) > 3 else "")
        if inner is None:
            return None
        return inner & ((1 << (64 if not m or m.group(1) == "size" else int(m.group(1)))) - 1)
    if k == "call":
        fn = t[1] or ""
        if re.search(r"::(parse_u8|peek_u8)$", fn):
            return 0xFF
        if re.search(r"Try::branch$|::(from|into|unwrap|expect|clone)$", fn) and t[3]:
            return _maybe_bits(t[3][0], depth + 1)
        if re.search(r"u16>::from_be_bytes$|<impl u16>::from_be_bytes$|u16::from_be_bytes$", fn) and t[3]:
            a = deep_strip(t[3][0])
            if a[0] == "agg" and len(a[2]) == 2:
                hi, lo = _maybe_bits(a[2][0], depth + 1), _maybe_bits(a[2][1], depth + 1)
                if hi is not None and lo is not None:
                    return ((hi & 0xFF) << 8) | (lo & 0xFF)
            return 0xFFFF
        return None
    if k == "bin":
        op = t[1].replace("WithOverflow", "").replace("Unchecked", "")
        a, c = _maybe_bits(t[2], depth + 1), _maybe_bits(t[3], depth + 1)
        if op == "BitAnd":
            if a is None and c is None:
                return None
            return (a if a is not None else (1 << 64) - 1) & (c if c is not None else (1 << 64) - 1)
        if a is None or c is None:
            return None
        if op in ("BitOr", "BitXor"):
            return a | c
        if op == "Shl" and const_value(deep_strip(t[3])) is not None:
            return a << const_value(deep_strip(t[3]))
        if op == "Shr" and const_value(deep_strip(t[3])) is not None:
            return a >> const_value(deep_strip(t[3]))
        if op == "Add":
            return (1 << (a + c).bit_length()) - 1
        return None
    return None


def rule_ptrmask(ctx, F):
    """A compression pointer is the low 14 bits of two octets.  Every place of the established codec that turns the
    two octets into an offset (`LabelType::Compressed(..)`) can produce exactly the bits 0x3FFF -- a decoder that
    masks differently (10 bits, 13 bits, 16 bits) disagrees with its siblings for some offsets, and walks that mix
    them (parse with one, parent / split_first with the other) leave the name."""
    R = "C01.ptrmask"
    ctx.floor(R, 2)
    n = 0
    for p, b in sorted(F.bodies.items()):
        if p.startswith(("new::", "<new::")) or "::test" in p:
            continue
        for bi in sorted(b.reachable_blocks()):
            for st in b.blocks[bi]["s"]:
                if st[0] == "=" and st[2][0] == "agg" and st[2][1][0] == "adt" and str(st[2][1][1]).endswith("name::parsed::LabelType") \
                        and "Compressed" in str(st[2][1][2]) and st[2][2]:
                    n += 1
                    tm = b.term_of_operand(st[2][2][0])
                    bits = _maybe_bits(tm)
                    ctx.ob(R, b, "pointer value has exactly 14 bits", bits == 0x3FFF,
                           "%s builds a compression pointer whose possible bits are %s (from %s), not 0x3fff: it resolves some "
                           "pointers to another offset than the other decoders of the same octets do"
                           % (p.split("::")[-2] + "::" + p.split("::")[-1], "unknown (shape not recognised)" if bits is None else hex(bits), show(deep_strip(tm))[:120]),
                           b.where(bi))
    ctx.call_sites += n


SUB_AUDIT = [
    (r"^base::name::absolute::Name::<Octs>::into_relative$", "a Name is never empty: it ends with the root label (typestate, C03)"),
    (r"^base::rdata::compose_prefixed$", "two length octets were appended to the target a few lines above (C02.prefix)"),
]


def rule_lensub(ctx, F, R="C01.lensub"):
    """`x.len() - k` with a constant k wraps (release) or panics (debug, and the slice index that follows) when the
    slice is shorter than k: in the wire and record-data code every such subtraction lies behind a branch that
    establishes `len >= k` for that very slice, or is audited with the invariant it relies on.  (Display of a record
    evaluates such code for whatever octets the record was parsed from.)"""
    ctx.floor(R, 4)
    n = 0
    for p, b in sorted(F.bodies.items()):
        if not re.match(r"^<?(rdata|base)::", p) or "::test" in p or "builder" in p.lower():
            continue
        for bi in sorted(b.reachable_blocks()):
            if b.blocks[bi].get("c"):
                continue
            for st in b.blocks[bi]["s"]:
                if not (st[0] == "=" and st[2][0] == "bin" and st[2][1] == "SubWithOverflow"):
                    continue
                x = deep_strip(b.term_of_operand(st[2][2]))
                k = const_value(deep_strip(b.term_of_operand(st[2][3])))
                if k is None or not ((x[0] == "call" and (x[1] or "").endswith("::len")) or x[0] == "len"):
                    continue
                n += 1
                why = next((w for rx, w in SUB_AUDIT if re.search(rx, p)), None)
                if why:
                    ctx.ob(R, b, "len - %d#%d" % (k, n), True, where=b.where(bi), nontrivial=False, detail="audited: " + why)
                    continue
                lo, hi, excl = interval_of(b, bi, lambda tt: canon_nobb(tt) == canon_nobb(x), F)
                ctx.ob(R, b, "len - %d behind len >= %d" % (k, k), lo is not None and lo >= k,
                       "%s computes %s - %d where the branches in front of it only establish a length of at least %s: for a shorter "
                       "value the subtraction wraps / panics (a %d-octet field parsed from the wire is enough)"
                       % (p.split("::")[-1], show(x)[:60], k, lo, (lo if lo is not None else 0)), b.where(bi))
    ctx.call_sites += n


def rule_fuse_wrapper(ctx, F):
    """MessageIter walks the three record sections through an Option<RecordSection>.  When moving on to the next
    section fails, the error it yields has to be the last thing it yields: every `Some(Err(..))` built in its
    `next` lies behind a change of `self.inner` (`take()` or an assignment) -- otherwise the failed section stays
    in place and `Message::iter()` returns the same error for ever."""
    R = "C01.fuse"
    b = F.body("<base::message::MessageIter<'a, Octs> as core::iter::Iterator>::next")
    if not ctx.anchor(R, "<MessageIter as Iterator>::next", b):
        return
    changes = []
    for bi in b.reachable_blocks():
        if b.blocks[bi].get("c"):
            continue
        for st in b.blocks[bi]["s"]:
            if st[0] == "=" and len(st[1]) > 1:
                tgt = deep_strip(b.term_of_place(st[1]))
                if tgt == ("field", ("arg", 1), "inner"):
                    changes.append(bi)
        t = b.blocks[bi]["t"]
        if t["k"] == "call" and re.search(r"Option::<.*>::(take|replace)$", t["fn"] or "") and t["args"]:
            tm = deep_strip(b.term_of_operand(t["args"][0]))
            if tm == ("field", ("arg", 1), "inner"):
                changes.append(bi)
    sites = []
    for rb, si, kind, term in return_assignments(b):
        if kind == "Some" and term is not None and term[0] == "agg":
            inner = deep_strip(term[2][0]) if term[2] else None
            if inner is not None and inner[0] == "agg" and inner[1][:3] == ("adt", "core::result::Result", "Err"):
                sites.append(rb)
    if not ctx.anchor(R, "Some(Err(..)) built in MessageIter::next and its state changes", len(sites) >= 1 and len(changes) >= 1, b.where()):
        return
    for rb in sites:
        ok, pth = must_pass(b, 0, [rb], changes)
        ctx.ob(R, b, "an error from moving to the next section ends the iteration", ok,
               "MessageIter::next returns Some(Err(..)) on a path that leaves self.inner as it was (%s): the section whose "
               "successor could not be parsed stays current, and every further call yields the same error -- "
               "`msg.iter().filter_map(Result::ok).count()` never returns" % fmt_path(pth), b.where(rb))


# ---------------------------------------------------------------------------
# RDLENGTH sub-parser
# ---------------------------------------------------------------------------

def rule_sub(ctx, F):
    R = "C01.sub"
    ctx.floor(R, 8)
    for fn, callee_rx in (
        ("parse_into_record", r"ParseRecordData::parse_rdata$"),
        ("parse_into_any_record", r"ParseAnyRecordData::parse_any_rdata$"),
    ):
        bs = F.find_bodies(r"^base::record::RecordHeader::<base::name::parsed::ParsedName<Octs>>::%s$" % fn)
        if not ctx.anchor(R, "RecordHeader::%s" % fn, len(bs) == 1):
            continue
        b = bs[0]
        cs = b.calls_matching(callee_rx)
        if not ctx.anchor(R, "rdata parse call in %s" % fn, len(cs) == 1, b.where()):
            continue
        cbb, ct = cs[0]
        parg = deep_strip(b.term_of_operand(ct["args"][1]))
        # must be the Ok payload of parser.parse_parser(self.rdlen as usize)
        ok = False
        sub_call = None
        for s in walk(parg):
            if s[0] == "call" and re.search(r"Parser::<.*>::parse_parser$", s[1] or ""):
                a0 = deep_strip(s[3][0])
                a1 = deep_strip(s[3][1])
                ok = (a0 == ("arg", 2) and a1[0] == "cast" and deep_strip(a1[2]) == ("field", ("arg", 1), "rdlen"))
                sub_call = s
        ctx.ob(R, b, "rdata parsed from parse_parser(self.rdlen)", ok and parg != ("arg", 2),
               "record data must be parsed from a sub-parser limited to RDLENGTH octets, not from the "
               "message parser (found parser argument %s)" % show(parg), b.where(cbb))
        if sub_call is not None:
            ctx.ob(R, b, "sub-parser creation checked", sub_call[5] in succeeded_calls(b, cbb, F),
                   "parse_parser(rdlen) result must be checked before use", b.where(cbb))
        # Ok return dominated by the trailing-data check on the same sub-parser
        for i, (rb, si, kind, term) in enumerate([r for r in return_assignments(b) if r[2] == "Ok"]):
            good = False
            for t, v in bool_facts(b, rb, F):
                # Gt(remaining(sub), 0) == False   (possibly under `res.is_some() &&`)
                if t[0] == "bin" and t[1] in ("Gt", "Ne") and const_value(t[3]) == 0 and v is False:
                    r = deep_strip(t[2])
                    if r[0] == "call" and re.search(r"Parser::<.*>::remaining$", r[1] or ""):
                        good = True
                if t[0] == "bin" and t[1] == "Eq" and const_value(t[3]) == 0 and v is True:
                    r = deep_strip(t[2])
                    if r[0] == "call" and re.search(r"Parser::<.*>::remaining$", r[1] or ""):
                        good = True
            if not good:
                # accept the `is_some() && remaining > 0` conjunction: every path to Ok avoiding the
                # Err return either has remaining == 0 or res is None
                rem_sw = [bi for bi in b.reachable_blocks() if b.blocks[bi]["t"]["k"] == "switch"
                          and "remaining" in show(deep_strip(b.term_of_operand(b.blocks[bi]["t"]["d"])))]
                for sw in rem_sw:
                    ef = BranchFacts(b, F).edge_facts(sw)
                    bad_edges = [(sw, lab) for lab, (tt, vv) in ef.items()
                                 if deep_strip(tt)[0] == "bin" and deep_strip(tt)[1] == "Gt" and vv is True]
                    if bad_edges and b.path_avoiding(bad_edges[0][0], {rb}, removed_edges=[]) is not None:
                        tgt = b.edge_target(*bad_edges[0])
                        if rb not in b.reach_from(tgt):
                            good = True
            ctx.ob(R, b, "ok-exit#%d trailing-data check" % i, good,
                   "Ok must not be reachable when the RDLENGTH sub-parser still has unparsed octets",
                   b.where(rb))
    # ParsedRecord::parse / skip advance by the parsed rdlen (checked)
    for fn in ("parse", "skip"):
        bs = F.find_bodies(r"^base::record::ParsedRecord::<'a, Octs>::%s$" % fn)
        if not ctx.anchor(R, "ParsedRecord::%s" % fn, len(bs) == 1):
            continue
        b = bs[0]
        adv = b.calls_matching(r"Parser::<.*>::advance$")
        ok = False
        for bb, t in adv:
            a = deep_strip(b.term_of_operand(t["args"][1]))
            src = [s for s in walk(a) if (s[0] == "call" and re.search(r"rdlen$|parse_rdlen$", s[1] or ""))
                   or (s[0] == "field" and s[2] == "rdlen")]
            if src:
                oks = [r for r in return_assignments(b) if r[2] == "Ok"]
                ok = all(bb in succeeded_calls(b, r[0], F) for r in oks) and bool(oks)
        ctx.ob(R, b, "advance(rdlen) checked", ok,
               "ParsedRecord::%s must advance the parser by exactly the parsed RDLENGTH and fail when "
               "the message is shorter" % fn)


# ---------------------------------------------------------------------------
# typestate
# ---------------------------------------------------------------------------

TS_CONSTRUCTORS = {
    # functions allowed to build a ParsedName value, with the invariant they establish
    "base::name::parsed::ParsedName::<&'a Octs>::parse_ref": "after the two-phase walk",
    "base::name::parsed::ParsedName::<Octs>::ref_octets": "re-wrap of a ParsedName",
    "base::name::parsed::ParsedName::<&'a Octs>::deref_octets": "re-wrap of a ParsedName",
    "<base::name::parsed::ParsedName<Octs> as core::convert::From<base::name::absolute::Name<Octs>>>::from":
        "from a validated flat Name (pos 0, compose_len)",
    "<base::name::parsed::ParsedName<Octs> as core::clone::Clone>::clone": "derived clone",
    "base::name::parsed::ParsedName::<&'a Octs>::parse_ref::{closure": "",
}
TS_WRITERS = {
    "base::name::parsed::ParsedName::<Octs>::split_first",
    "base::name::parsed::ParsedName::<Octs>::parent",
}


def rule_ts(ctx, F):
    R = "C01.ts"
    ctx.floor(R, 5)
    ADT = "base::name::parsed::ParsedName"
    n = 0
    for p, b in F.bodies.items():
        for bi in b.reachable_blocks():
            for st in b.blocks[bi]["s"]:
                if st[0] == "=" and st[2][0] == "agg" and st[2][1][0] == "adt" and st[2][1][1] == ADT:
                    n += 1
                    allowed = any(p == k or p.startswith(k) for k in TS_CONSTRUCTORS)
                    ctx.ob(R, b, "constructs ParsedName", allowed,
                           "ParsedName{..} built outside the validated constructors: the unchecked label "
                           "iterator (ParsedNameIter::get_label) trusts pos/name_len", b.where(bi))
                if st[0] == "=" and len(st[1]) > 1:
                    # field writes to a ParsedName's pos / name_len
                    base_ty = b.locals[st[1][0]]
                    names = [pr[2] for pr in st[1][1:] if isinstance(pr, list) and pr[0] == "."]
                    if names and names[-1] in ("pos", "name_len") and ADT in base_ty and "ParsedNameIter" not in base_ty:
                        n += 1
                        ctx.ob(R, b, "writes ParsedName.%s" % names[-1], p in TS_WRITERS,
                               "ParsedName.%s written outside split_first/parent" % names[-1], b.where(bi))
    # parse_ref: both Ok returns carry the walked length / position
    b = F.body("base::name::parsed::ParsedName::<&'a Octs>::parse_ref")
    if ctx.anchor(R, "ParsedName::parse_ref", b):
        oks = [r for r in return_assignments(b) if r[2] == "Ok"]
        ctx.ob(R, b, "two validated exits", len(oks) == 2,
               "parse_ref is expected to return Ok from the uncompressed and the compressed walk only")
    # ParsedNameIter is only created from a ParsedName's own fields
    for bb_b, bb, t in F.callers_of(r"^base::name::parsed::ParsedNameIter::<'a>::new$"):
        args = [deep_strip(bb_b.term_of_operand(a)) for a in t["args"]]
        ok = (len(args) == 3 and args[1] == ("field", ("arg", 1), "pos") and args[2] == ("field", ("arg", 1), "name_len"))
        ctx.ob(R, bb_b, "ParsedNameIter::new(self.pos, self.name_len)", ok,
               "ParsedNameIter must be created from a validated ParsedName's own pos/name_len", bb_b.where(bb))
        n += 1
    ctx.call_sites += n


# ---------------------------------------------------------------------------
# narrow overflow on wire counts
# ---------------------------------------------------------------------------

WIRE_COUNT = re.compile(
    r"(HeaderCounts::(qdcount|ancount|nscount|arcount|adcount|zocount|prcount|upcount)$"
    r"|ParsedRecord::<.*>::rdlen$|RecordHeader::<.*>::rdlen$|Parser::<.*>::parse_u(8|16|16_be|32|32_be)$"
    r"|<u(8|16|32) as base::wire::Parse<.*>>::parse$)"
)
OVF_SCOPE = ("base::message::", "<base::message::", "base::record::", "<base::record::", "base::question::",
             "<base::question::", "base::header::", "<base::header::", "base::opt::", "<base::opt::",
             "base::name::parsed::", "<base::name::parsed::", "base::dig_printer", "<base::dig_printer",
             "net::xfr::protocol::", "<net::xfr::protocol::")


def rule_ovf(ctx, F):
    R = "C01.ovf"
    ctx.floor(R, 1)
    n = 0
    for p, b in F.bodies.items():
        if not p.startswith(OVF_SCOPE) or "::test::" in p:
            continue
        for bi in sorted(b.reachable_blocks()):
            t = b.blocks[bi]["t"]
            if t["k"] != "assert" or t["msg"][0] != "overflow":
                continue
            op = t["msg"][1]
            a, c = b.term_of_operand(t["msg"][2]), b.term_of_operand(t["msg"][3])
            ty = _operand_ty(b, t["msg"][2])
            if ty not in ("u8", "u16", "u32"):
                continue
            wire = [x for x in (a, c) if _wire_rooted(x)]
            if not wire:
                continue
            n += 1
            # discharged by a dominating constant bound on the wire operand, or a Sub guarded by ordering
            w = deep_strip(wire[0])
            ok = False
            if op == "Add":
                other = const_value(c) if wire[0] is a else const_value(a)
                ubs = upper_bounds(b, bi, lambda tt: canon_nobb(tt) == canon_nobb(w), F)
                mx = {"u8": 1 << 8, "u16": 1 << 16, "u32": 1 << 32}[ty]
                if other is not None and ubs and min(u[0] for u in ubs) - 1 + other < mx:
                    ok = True
            elif op == "Sub":
                for (x, rel, y) in relations(b, bi, F):
                    if canon_nobb(y) == canon_nobb(deep_strip(a)) and canon_nobb(x) == canon_nobb(deep_strip(c)):
                        ok = True
                    if const_value(c) is not None and canon_nobb(y) == canon_nobb(deep_strip(a)) and const_value(x) is not None and const_value(x) + (1 if rel == "<" else 0) >= const_value(c):
                        ok = True
            ctx.ob(R, b, "%s on %s wire value" % (op, ty), ok,
                   "checked %s %s on a value read from the message (%s) without a dominating bound: "
                   "panics (debug) or wraps (release) for extreme header counts/lengths"
                   % (ty, op, show(w)), b.where(bi))
    ctx.call_sites += n
    # positive control for the zero-count case: canonical_name iterates an inclusive range over ancount
    b = F.one_body(r"^base::message::Message::<Octs>::canonical_name$")
    if ctx.anchor(R, "Message::canonical_name", b):
        has_range = any(st[0] == "=" and st[2][0] == "agg" and "RangeInclusive" in str(st[2][1]) for blk in b.blocks for st in blk["s"]) \
            or bool(b.calls_matching(r"RangeInclusive::<.*>::new$"))
        cnt = [bb for bb, t in b.calls() if t["fn"] and t["fn"].endswith("HeaderCounts::ancount")]
        ctx.ob(R, b, "CNAME loop bounded by ancount (inclusive range, no +1)", has_range and bool(cnt),
               "canonical_name must bound its CNAME-chain loop by 0..=ANCOUNT")


def _operand_ty(b, op):
    if op[0] in ("c", "m") and len(op[1]) == 1:
        return b.locals[op[1][0]]
    if op[0] == "k":
        return op[1]
    return None


def _wire_rooted(t):
    for s in walk(deep_strip(t)):
        if s[0] == "call" and s[1] and WIRE_COUNT.search(s[1]):
            return True
    return False


# ---------------------------------------------------------------------------
# explicit panics on wire-derived values + typed unwraps
# ---------------------------------------------------------------------------

ENTRY_ROOTS = re.compile(
    r"^(base::message::Message::<Octs>::|<base::message::|base::message::(QuestionSection|RecordSection|RecordIter|"
    r"AnyRecordIter|MessageIter)|base::record::ParsedRecord::|<base::record::ParsedRecord|base::question::Question::|"
    r"base::name::parsed::ParsedName::|<base::name::parsed::ParsedName|base::opt::|<base::opt::|"
    r"base::dig_printer|<base::dig_printer|net::xfr::protocol::interpreter::XfrResponseInterpreter::interpret_response|"
    r"net::xfr::protocol::iterator::|<net::xfr::protocol::iterator::)"
)
PANIC_MACROS = {"unreachable", "panic", "todo", "unimplemented", "assert", "assert_eq", "assert_ne"}
WIRE_ACCESSORS = re.compile(
    r"(Message::<.*>::(qtype|first_question|sole_question|opt|opcode|rcode)$|Header::(opcode|rcode|qr|tc|aa|rd|ra|ad|cd|id)$"
    r"|HeaderCounts::\w+count$|ParsedRecord::<.*>::(rtype|class|ttl|rdlen)$|Question::<.*>::(qtype|qclass|qname)$"
    r"|Parser::<.*>::(parse_u8|parse_u16_be|parse_u32_be|peek|remaining)$|Record::<.*>::(rtype|class)$)"
)
PARSE_ERR = re.compile(r"(base::wire::ParseError|octseq::(parse::)?ShortInput|base::wire::FormError|ShortMessage|"
                       r"base::name::parsed::ParsedDnameError|base::name::label::SplitLabelError)")

# typed unwrap/expect sites that rely on an invariant established elsewhere
UNWRAP_AUDIT = {
    ("base::message::QuestionSection::<'a, Octs>::new", "advance"):
        "Message typestate: a Message always holds >= 12 octets (C01.ts / F-WHO on from_octets_unchecked)",
    ("base::name::parsed::ParsedName::<Octs>::parser", "advance"):
        "ParsedName typestate: pos lies inside octets (established by parse_ref)",
    ("base::name::parsed::ParsedName::<Octs>::split_first", "peek"):
        "ParsedName typestate: the name was walked by parse_ref, name_len > 1 is checked first",
    ("base::name::parsed::ParsedName::<Octs>::split_first", "seek"):
        "ParsedName typestate: pointer targets were validated by parse_ref",
    ("base::name::parsed::ParsedName::<Octs>::parent", "peek"):
        "ParsedName typestate: the name was walked by parse_ref, name_len > 1 is checked first",
    ("base::name::parsed::ParsedName::<Octs>::parent", "seek"):
        "ParsedName typestate: pointer targets were validated by parse_ref",
    ("<base::dig_printer::DigPrinter<'_, Octs> as core::fmt::Display>::fmt", "answer"):
        "re-walk of the question section that the loop just above iterated without error (it returns "
        "early on the first invalid question); QuestionSection is Copy",
    ("<base::dig_printer::DigPrinter<'_, Octs> as core::fmt::Display>::fmt", "next_section"):
        "re-walk (skip) of a record section that the loop just above parsed without error (early return "
        "on the first invalid record); skip accepts whatever parse accepts",
}

# explicit panic macros under a wire-derived branch that are documented preconditions of
# *mutating* APIs (not read-side operations)
MACRO_AUDIT = {
    "base::header::HeaderCounts::dec_arcount": "documented panic of a &mut self count mutator (builder/TSIG "
                                               "strip path: callers decrement only after finding a record)",
}


def rule_panic(ctx, F):
    R = "C01.panic"
    ctx.floor(R, 3)
    # reachability from the read-side entry points (over-approximate: trait fan-out by name)
    cg = F.call_graph()
    roots = [p for p in F.bodies if ENTRY_ROOTS.search(p) and "::test::" not in p]
    ctx.anchor(R, "read-side entry points", len(roots) >= 100)
    seen = set(roots)
    work = list(roots)
    by_res = F.bodies
    while work:
        p = work.pop()
        for c in cg.get(p, ()):
            if c in by_res and c not in seen:
                seen.add(c)
                work.append(c)
        # closures of p
    for p in list(F.bodies):
        b = F.bodies[p]
        if b.root and b.root in seen and p not in seen:
            seen.add(p)
    scope = [F.bodies[p] for p in seen if not p.startswith(("new::", "<new::")) and "::test::" not in p
             and F.bodies[p].file.startswith("src/")]
    ctx.note("C01.panic: %d bodies reachable from %d read-side roots" % (len(scope), len(roots)))
    n_macro = n_unwrap = 0
    seen_keys = {}
    for b in scope:
        for bi in sorted(b.reachable_blocks()):
            t = b.blocks[bi]["t"]
            if t["k"] != "call":
                continue
            fn = t["fn"] or ""
            x = t.get("x") or []
            # --- P2 explicit panic macros
            if re.search(r"core::panicking::(panic|panic_fmt|unreachable_display|panic_explicit|assert_failed)", fn) and x:
                macros = [m for m in x if m in PANIC_MACROS]
                if not macros or "debug_assert" in x or any(m.startswith("debug_assert") for m in x):
                    continue
                # controlling values: terms of all dominating switch facts
                ctrl = []
                for tt in control_terms(b, bi, F):
                    for s in walk(deep_strip(tt)):
                        if s[0] == "call" and s[1] and WIRE_ACCESSORS.search(s[1]):
                            ctrl.append(s[1])
                if not ctrl:
                    continue
                n_macro += 1
                if b.path in MACRO_AUDIT:
                    ctx.ob(R, b, "%s! (audited)" % macros[0], True, nontrivial=False, where=b.where(bi),
                           detail=MACRO_AUDIT[b.path])
                    continue
                k = (b.path, macros[0])
                seen_keys[k] = seen_keys.get(k, 0) + 1
                ctx.ob(R, b, "%s!#%d on wire value" % (macros[0], seen_keys[k]), False,
                       "%s!() is reached under a branch on a value read from the message (%s): hostile input "
                       "panics instead of producing an error" % (macros[0], sorted(set(c.split('::')[-1] for c in ctrl))),
                       b.where(bi))
            # --- P1 typed unwrap / expect on parse results
            if re.search(r"core::result::Result::<.*>::(unwrap|expect)$", fn):
                recv_ty = t["targs"]
                if len(recv_ty) >= 2 and PARSE_ERR.search(recv_ty[1]):
                    n_unwrap += 1
                    recv = deep_strip(b.term_of_operand(t["args"][0]))
                    src = next((s for s in walk(recv) if s[0] == "call"), None)
                    sname = (src[1].split("::")[-1] if src else "?")
                    key = (b.path, sname)
                    audited = key in UNWRAP_AUDIT
                    k2 = (b.path, "unwrap", sname)
                    seen_keys[k2] = seen_keys.get(k2, 0) + 1
                    ctx.ob(R, b, "unwrap of %s#%d" % (sname, seen_keys[k2]), audited,
                           "unwrap/expect on a parse result (error type %s) in code reachable from the "
                           "read-side API: malformed input panics" % recv_ty[1].split("::")[-1], b.where(bi),
                           nontrivial=False, detail=UNWRAP_AUDIT.get(key))
    ctx.call_sites += n_macro + n_unwrap
    ctx.extra.setdefault("coverage", {})["panic_scope_bodies"] = len(scope)


# ---------------------------------------------------------------------------
# validator / unchecked-reader agreement: NSEC type-bitmap windows
# ---------------------------------------------------------------------------

def rule_window(ctx, F):
    """RtypeBitmapIter (new/advance) indexes data[0] of every window and steps
    by the stored length without checks; it is only ever built from a
    validated RtypeBitmap.  The validator's loop must therefore accept a
    window only if 1 <= bitmap length <= 32 (3 <= len+2 <= 34) and the
    window fits the remaining data."""
    R = "C01.window"
    ctx.floor(R, 3)
    b = F.one_body(r"^rdata::dnssec::RtypeBitmap::<Octs>::from_octets$")
    if not ctx.anchor(R, "RtypeBitmap::from_octets", b):
        return
    steps = []
    for bb, t in b.calls_matching(r"ops::Index<core::ops::RangeFrom<usize>>>::index$|Index<.*RangeFrom.*>::index$"):
        rng = deep_strip(b.term_of_operand(t["args"][1]))
        if rng[0] == "agg" and str(rng[1][1]).endswith("RangeFrom"):
            steps.append((bb, deep_strip(rng[2][0])))
    if not ctx.anchor(R, "window step data = &data[len..] in RtypeBitmap::from_octets", len(steps) == 1, b.where()):
        return
    bb, ln = steps[0]
    shape = (ln[0] == "bin" and ln[1] == "Add" and const_value(ln[3]) == 2)
    ctx.ob(R, b, "window length = data[1] + 2", shape,
           "window step is no longer the length octet plus the two header octets (found %s)" % show(ln), b.where(bb))
    lo, hi, excl = interval_of(b, bb, lambda tt: canon_nobb(tt) == canon_nobb(ln), F)
    if shape:
        # len = (unsigned octet) + 2  >= 2 by construction
        base = 2
        if lo is None or lo < base:
            lo = base
        while lo in excl:
            lo += 1
    ctx.ob(R, b, "accepted window length within [3, 34]", lo is not None and hi is not None and lo >= 3 and hi <= 34,
           "the validator accepts window lengths in [%s, %s]; the unchecked RtypeBitmapIter needs at least one "
           "bitmap octet (len >= 3: an empty window makes it index out of bounds) and RFC 4034 allows at most "
           "32 (len <= 34)" % (lo, hi), b.where(bb))
    ctx.ob(R, b, "every window length in [3, 34] is accepted", lo is not None and hi is not None and lo <= 3 and hi >= 34,
           "the validator accepts window lengths in [%s, %s] only: RFC 4034 4.1.2 allows 1 to 32 bitmap octets per window "
           "(3 <= len <= 34) and RtypeBitmapBuilder writes such windows -- a bitmap the library composes itself (a type "
           "whose low octet is 248..255 fills the 32nd bitmap octet) is refused when parsed back" % (lo, hi), b.where(bb))
    fits = False
    for (x, rel, y) in relations(b, bb, F):
        # len <= data.len()
        if rel == "<=" and canon_nobb(x) == canon_nobb(ln) and y[0] == "call" and (y[1] or "").endswith("::len"):
            fits = True
    ctx.ob(R, b, "window fits remaining data", fits,
           "the validator must reject a window longer than the remaining octets", b.where(bb))
    # the Ok exit is only reached from the loop head (all windows consumed)
    # and the unchecked iterator is built only from RtypeBitmap values
    mk = F.callers_of(r"^rdata::dnssec::RtypeBitmapIter::<'a>::new$")
    bad = [cb.path for cb, cbb, ct in mk if not re.search(r"RtypeBitmap(<|::<)", cb.path)]
    ctx.ob(R, "rdata::dnssec::RtypeBitmapIter::new", "only built from a validated RtypeBitmap", bool(mk) and not bad,
           "RtypeBitmapIter::new called from outside RtypeBitmap: %s" % bad)


# ---------------------------------------------------------------------------
# validator / parser agreement: TXT data is never empty
# ---------------------------------------------------------------------------

def rule_txt(ctx, F):
    """TXT data from the wire may be empty (RDLENGTH 0 is accepted by
    Txt::parse, and the repository's zone-file tests rely on that), while
    Txt::from_octets and TxtBuilder never produce an empty value.  So either
    every constructor establishes non-emptiness, or no accessor may touch
    octet 0 (or slice from 1) without first establishing that there is one.
    Decided per accessor: every constant-index access to the value's octets
    is dominated by a fact that the octets are non-empty (a Some(..) edge of
    first()/split_first()/get(), or a length comparison)."""
    R = "C01.txt"
    ctx.floor(R, 3)
    T = r"^rdata::rfc1035::txt::"
    # (1) does the wire parser guarantee non-emptiness?
    parse_nonempty = False
    b = F.one_body(T + r"Txt::<Octs>::parse$")
    if ctx.anchor(R, "Txt::parse", b):
        oks = [r for r in return_assignments(b) if r[2] == "Ok"]
        ctx.anchor(R, "Ok return of Txt::parse", bool(oks), b.where())

        def is_len(tt):
            s = deep_strip(tt)
            return s[0] == "call" and re.search(r"Parser::<.*>::remaining$|::len$", s[1] or "") and s[3] \
                and deep_strip(s[3][0])[0] == "arg"
        parse_nonempty = bool(oks)
        for rb, si, kind, term in oks:
            lo, hi, excl = interval_of(b, rb, is_len, F)
            ne = (lo is not None and lo >= 1) or 0 in (excl or ())
            parse_nonempty = parse_nonempty and ne
    ctx.note("C01.txt: Txt::parse %s zero-length TXT data" % ("rejects" if parse_nonempty else "accepts"))
    # (2) accessors: constant-index accesses to the octets
    n = 0
    for p, x in sorted(F.bodies.items()):
        if not re.match(T + r"Txt::<", p) or "::test" in p or x.kind != "AssocFn":
            continue
        sites = []
        for bi in sorted(x.reachable_blocks()):
            t = x.blocks[bi]["t"]
            if t["k"] == "assert" and t["msg"][0] == "bounds":
                idx = const_value(x.term_of_operand(t["msg"][2]))
                arr = deep_strip(x.term_of_operand(t["msg"][1]))
                if idx is not None:
                    sites.append((bi, "octet [%d]" % idx, idx + 1))
            if t["k"] == "call" and re.search(r"ops::Index(Mut)?::index(_mut)?$", t["fn"] or "") and len(t["targs"]) > 1 \
                    and "RangeFrom" in t["targs"][1]:
                rng = deep_strip(x.term_of_operand(t["args"][1]))
                if rng[0] == "agg" and const_value(rng[2][0]) not in (None, 0):
                    sites.append((bi, "slice [%d..]" % const_value(rng[2][0]), const_value(rng[2][0])))
        for bi, what, need in sites:
            n += 1
            guarded = parse_nonempty
            why = "every constructor establishes non-emptiness" if parse_nonempty else ""
            if not guarded:
                for subj, o in outcome_facts(x, bi, F):
                    s = deep_strip(subj)
                    if o == "success" and s[0] == "call" and re.search(r"::(first|split_first|get|first_mut|split_first_mut)$", s[1] or ""):
                        guarded = True
                        why = "dominated by a Some(..) edge of %s" % s[1].split("::")[-1]
                lo, hi, excl = interval_of(x, bi, lambda tt: deep_strip(tt)[0] == "call" and (deep_strip(tt)[1] or "").endswith("::len"), F)
                if lo is not None and lo >= need:
                    guarded = True
                    why = "dominated by len >= %d" % lo
                for tt, vv in bool_facts(x, bi, F):
                    if tt[0] == "call" and (tt[1] or "").endswith("is_empty") and vv is False:
                        guarded = True
                        why = "dominated by !is_empty()"
            ctx.ob(R, x, "%s guarded#%d" % (what, n), guarded,
                   "%s reads %s of the TXT data without establishing that it exists, and Txt::parse accepts "
                   "zero-length TXT record data from the wire: the accessor panics on such a record"
                   % (p.split("::")[-1], what), x.where(bi), detail=why)
    ctx.ob(R, "rdata::rfc1035::txt::Txt", "accessors scanned", True, nontrivial=False,
           detail="%d constant-index accesses in Txt's methods" % n)
    # (3) the slice validator and the builder keep producing non-empty values
    b = F.one_body(T + r"Txt::<\[u8\]>::check_slice$")
    if ctx.anchor(R, "Txt::check_slice", b):
        ok = False
        for rb, si, kind, term in return_assignments(b):
            if kind == "Err":
                for tt, vv in bool_facts(b, rb, F):
                    if tt[0] == "call" and (tt[1] or "").endswith("is_empty") and vv is True:
                        ok = True
        ctx.ob(R, b, "slice validator rejects empty data", ok,
               "Txt::check_slice no longer rejects the empty slice")
    bs = [x for p, x in F.bodies.items() if re.match(T + r"TxtBuilder::<Builder>::finish$", p)]
    if ctx.anchor(R, "TxtBuilder::finish", len(bs) == 1):
        b = bs[0]
        ok = False
        for bb, t in b.calls_matching(r"::is_empty$"):
            for sw in b.reachable_blocks():
                tsw = b.blocks[sw]["t"]
                if tsw["k"] != "switch":
                    continue
                d = deep_strip(b.term_of_operand(tsw["d"]))
                if d[0] == "call" and d[5] == bb:
                    for s, lab in b.succs(sw):
                        ef = BranchFacts(b, F).edge_facts(sw).get(lab)
                        if ef and ef[1] is True:
                            apps = [ab for ab, at in b.calls_matching(r"append_slice$") if ab in b.reach_from(s)]
                            ok = ok or bool(apps)
        ctx.ob(R, b, "builder pads an empty TXT with an empty string", ok,
               "TxtBuilder::finish must not freeze an empty buffer into a Txt")


# ---------------------------------------------------------------------------
# wire-derived ranges into fixed-size buffers
# ---------------------------------------------------------------------------

WIRE_VALUE = re.compile(r"Parser::<.*>::(parse_u8|parse_i8|parse_u16_be|parse_u32_be|parse_u64_be|peek|remaining)$")


def _array_len_of(b, t):
    """N when the term is (a ref/unsizing of) a local of type [T; N]"""
    for s in walk(t):
        if s[0] == "repeat" and isinstance(s[2], int):
            return s[2]
        if s[0] == "cast" and len(s) > 4 and isinstance(s[4], str):
            m = re.match(r"^(?:&(?:mut )?)?\[[^;\]]+; (\d+)\]$", s[4])
            if m:
                return int(m.group(1))
        if s[0] in ("local", "arg"):
            m = re.match(r"^(?:&(?:mut )?)?\[[^;\]]+; (\d+)\]$", b.locals[s[1]])
            if m:
                return int(m.group(1))
    return None


def rule_arr(ctx, F):
    R = "C01.arr"
    ctx.floor(R, 2)
    n = 0
    seen = {}
    for p, b in F.bodies.items():
        if not b.file.startswith("src/") or "::test" in p or p.startswith(("new::", "<new::")):
            continue
        for bi, t in b.calls():
            fn = t["fn"] or ""
            if not re.search(r"ops::Index(Mut)?::index(_mut)?$", fn) or len(t["targs"]) < 2:
                continue
            m = re.match(r"^\[[^;\]]+; (\d+)\]$", t["targs"][0])
            if not m or "Range" not in t["targs"][1]:
                continue
            N = int(m.group(1))
            rng = deep_strip(b.term_of_operand(t["args"][1]))
            if rng[0] != "agg":
                continue
            kind = str(rng[1][1])
            ends = []
            if kind.endswith("RangeTo"):
                ends = [(rng[2][0], 0)]
            elif kind.endswith("RangeToInclusive"):
                ends = [(rng[2][0], 1)]
            elif kind.endswith("::Range"):
                ends = [(rng[2][1], 0)]
            elif kind.endswith("RangeFrom"):
                ends = [(rng[2][0], 0)]
            elif kind.endswith("RangeInclusive"):
                continue
            for e, plus in ends:
                e = deep_strip(e)
                if not any(s[0] == "call" and s[1] and WIRE_VALUE.search(s[1]) for s in walk(e)):
                    continue
                n += 1
                best = None
                for (x, rel, y) in relations(b, bi, F):
                    if canon_nobb(deep_strip(x)) != canon_nobb(e):
                        continue
                    k = const_value(y)
                    if k is None:
                        yy = deep_strip(y)
                        if yy[0] == "call" and (yy[1] or "").endswith("::len") and yy[3]:
                            k = _array_len_of(b, yy[3][0])
                    if k is None:
                        continue
                    hi = k - 1 if rel == "<" else k if rel == "<=" else None
                    if hi is not None:
                        best = hi if best is None else min(best, hi)
                key = (p, kind.split("::")[-1])
                seen[key] = seen.get(key, 0) + 1
                ctx.ob(R, b, "%s into [_; %d]#%d" % (kind.split("::")[-1], N, seen[key]), best is not None and best + plus <= N,
                       "a range ending at %s (read from the message) indexes a %d-element buffer, but the dominating "
                       "guards only establish %s: out-of-bounds panic on hostile input"
                       % (show(e)[:80], N, ("<= %d" % best) if best is not None else "no bound"), b.where(bi))
    ctx.call_sites += n


def rule_skip(ctx, F):
    import c03
    R = "C01.skip"
    ctx.floor(R, 1)
    sb = F.one_body(r"^base::name::parsed::ParsedName::<\(\)>::skip$")
    pb = F.body("base::name::parsed::ParsedName::<&'a Octs>::parse_ref")
    if not (ctx.anchor(R, "ParsedName::skip", sb) and ctx.anchor(R, "ParsedName::parse_ref", pb)):
        return
    caps = c03._caps(pb, F)
    pmax = (max(v for _, v in caps.values()) + 1) if caps else None
    smax = c03.skip_max_total(sb, F)
    ctx.ob(R, sb, "skip and parse accept the same maximum name length", pmax is not None and smax == pmax,
           "ParsedName::skip accepts uncompressed names of up to %s octets but ParsedName::parse up to %s: a record "
           "that parses is rejected (or vice versa) when the section is skipped over, so two traversals of one "
           "message disagree" % (smax, pmax))


# ---------------------------------------------------------------------------
# unreachable!() behind a second match on the same value
# ---------------------------------------------------------------------------

def rule_rematch(ctx, F):
    from rulelib import flow_states
    R = "C01.rematch"
    ctx.floor(R, 1)
    n = 0
    for p, b in sorted(F.bodies.items()):
        if p.startswith(("new::", "<new::")) or "::test" in p or not re.match(r"^<?(rdata|base)::", p):
            continue
        sites = [bi for bi in b.reachable_blocks()
                 if b.blocks[bi]["t"]["k"] == "call" and re.search(r"core::panicking::", b.blocks[bi]["t"]["fn"] or "")
                 and "unreachable" in (b.blocks[bi]["t"].get("x") or [])]
        if not sites:
            continue
        # only functions that switch twice on one integer value
        bf = BranchFacts(b, F)
        keys = {}
        for sw in b.reachable_blocks():
            if b.blocks[sw]["t"]["k"] != "switch":
                continue
            for lab, fv in bf.edge_facts(sw).items():
                tm, v = fv
                if isinstance(v, tuple) and v[0] in ("eq", "ne"):
                    keys.setdefault(str(canon_nobb(deep_strip(tm))), set()).add(sw)
        twice = {k for k, s in keys.items() if len(s) >= 2}
        if not twice:
            continue

        def on_call(bb, term, st):
            return st

        def on_edge(bb, lab, fact, st):
            if st == "DEAD" or fact is None:
                return st
            tm, v = fact
            if not (isinstance(v, tuple) and v[0] in ("eq", "ne")):
                return st
            k = str(canon_nobb(deep_strip(tm)))
            if k not in twice:
                return st
            cur = dict(st)
            c = cur.get(k)
            if v[0] == "eq":
                if c is not None and ((c[0] == "eq" and c[1] != v[1]) or (c[0] == "ne" and v[1] in c[1])):
                    return "DEAD"
                cur[k] = ("eq", v[1])
            else:
                vals = frozenset(v[1]) if isinstance(v[1], (tuple, list, set, frozenset)) else frozenset([v[1]])
                if c is not None and c[0] == "eq":
                    if c[1] in vals:
                        return "DEAD"
                else:
                    cur[k] = ("ne", (c[1] if c else frozenset()) | vals)
            return tuple(sorted(cur.items()))

        def on_block(bb, st):
            """remember which variant a local Option/Result was last given as a whole"""
            if st == "DEAD":
                return st
            cur = dict(st)
            ch = False
            for s in b.blocks[bb]["s"]:
                if s[0] != "=" or len(s[1]) != 1:
                    continue
                k = "var:%d" % s[1][0]
                rv = s[2]
                if rv[0] == "agg" and rv[1][0] == "adt" and rv[1][1] in ("core::option::Option", "core::result::Result"):
                    cur[k] = ("eq", rv[1][2]); ch = True
                elif rv[0] == "use" and rv[1][0] in ("c", "m") and len(rv[1][1]) == 1 and ("var:%d" % rv[1][1][0]) in cur:
                    cur[k] = cur["var:%d" % rv[1][1][0]]; ch = True
                elif k in cur:
                    del cur[k]; ch = True
            return tuple(sorted(cur.items())) if ch else st

        _on_edge0 = on_edge

        def on_edge(bb, lab, fact, st):
            st = _on_edge0(bb, lab, fact, st)
            if st == "DEAD" or fact is None:
                return st
            tm, v = fact
            if isinstance(v, tuple) and v[0] == "variant":
                # switch on the discriminant of a local whose variant this path has fixed
                for s in b.blocks[bb]["s"]:
                    if s[0] == "=" and s[2][0] == "discr" and s[2][1] and len(s[2][1]) == 1:
                        c = dict(st).get("var:%d" % s[2][1][0])
                        if c is not None and c[1] != v[1]:
                            return "DEAD"
            return st

        at = flow_states(b, F, (), on_call, on_edge, on_block=on_block)
        if at is None:
            ctx.undecided_item(R, p, "state exploration exceeded its budget")
            continue
        for bi in sites:
            sts = at.get(bi, set())
            # the site must sit behind one of the repeated selectors
            ctrl = {str(canon_nobb(deep_strip(tt))) for tt in control_terms(b, bi, F)}
            if not (ctrl & twice):
                continue
            n += 1
            live = [s for s in sts if s != "DEAD"]
            ctx.ob(R, b, "unreachable!() behind the second match is not reachable", not live,
                   "%s: the unreachable!() in the second match on the same value can be reached -- an arm of the first match lets "
                   "a value through that the second match does not handle: that value, read from the message, panics the parser"
                   % p.split("::")[-1], b.where(bi))
    ctx.call_sites += n


# ---------------------------------------------------------------------------
# lossy UTF-8 loops
# ---------------------------------------------------------------------------

def rule_lossy(ctx, F):
    R = "C01.lossy"
    ctx.floor(R, 2)
    n = 0
    for p, b in sorted(F.bodies.items()):
        if "::test" in p or not b.file.startswith("src/"):
            continue
        sites = [(bb, tt) for bb, tt in b.calls() if re.search(r"Utf8Error::error_len$", tt["fn"] or "")]
        if not sites:
            continue
        cyc = cyclic_blocks(b)
        for bb, tt in sites:
            if bb not in cyc:
                continue
            n += 1
            dest = tt.get("dest")
            matched = False
            defaulted = None
            if dest and len(dest) == 1:
                d0 = dest[0]
                for bi in b.reachable_blocks():
                    for st in b.blocks[bi]["s"]:
                        if st[0] == "=" and st[2][0] == "discr" and st[2][1] and st[2][1][0] == d0:
                            matched = True
                    t2 = b.blocks[bi]["t"]
                    if t2["k"] == "call" and any(a[0] in ("c", "m") and a[1][0] == d0 for a in t2["args"]) and \
                            re.search(r"Option::<.*>::(unwrap_or|unwrap_or_default|unwrap_or_else|map_or)$", t2["fn"] or ""):
                        defaulted = (t2["fn"] or "").split("::")[-1]
            ok = matched and defaulted is None
            if ok:
                # the None edge leaves the loop
                bf = BranchFacts(b, F)
                ok = False
                for sw in b.reachable_blocks():
                    if b.blocks[sw]["t"]["k"] != "switch":
                        continue
                    for lab, (tm, v) in bf.edge_facts(sw).items():
                        if isinstance(v, tuple) and v == ("variant", "None") and any(s[0] == "call" and (s[1] or "").endswith("Utf8Error::error_len") for s in walk(tm)):
                            tgt = b.edge_target(sw, lab)
                            ok = tgt not in cyclic_blocks(b, removed=()) or not (bb in b.reach_from(tgt))
            ctx.ob(R, b, "the loop ends when the invalid sequence has no length", ok,
                   "%s advances its lossy-UTF-8 loop by `error_len()%s`: for a sequence cut short by the end of the data "
                   "error_len() is None, the slice does not shrink and the loop prints U+FFFD for ever"
                   % (p.split("::")[-1] if "fmt" not in p.split("::")[-1] else re.sub(r" as .*", "", p).lstrip("<").split("::")[-1] + "::fmt",
                      (".%s(..)" % defaulted) if defaulted else ""), b.where(bb))
    ctx.call_sites += n


# ---------------------------------------------------------------------------
# hand-written Clone of message iterators
# ---------------------------------------------------------------------------

def rule_clone(ctx, F):
    R = "C01.clone"
    ctx.floor(R, 50)
    n = 0
    for p, b in sorted(F.bodies.items()):
        m = re.match(r"^<(base::(message|question|record|opt|name)[\w:]*)(<.*>)? as core::clone::Clone>::clone$", p)
        if not m or "::test" in p:
            continue
        if any("automatically_derived" in str(x) or x == "derive" for x in (b.r.get("x") or [])):
            continue
        for bi in b.reachable_blocks():
            for st in b.blocks[bi]["s"]:
                if st[0] == "=" and st[1] == [0] and st[2][0] == "agg" and st[2][1][0] == "adt":
                    adt = F.adts.get(st[2][1][1])
                    fields = None
                    if adt and adt.get("variants"):
                        fields = adt["variants"][0].get("fields")
                    for fi, op in enumerate(st[2][2]):
                        tm = deep_strip(b.term_of_operand(op))
                        fname = None
                        if fields and fi < len(fields):
                            fname = fields[fi]["name"] if isinstance(fields[fi], dict) else fields[fi]
                        if tm[0] == "k" or (tm[0] == "agg" and not tm[2]):
                            # a literal: fine only for zero-sized markers
                            ty = (fields[fi].get("ty") if fields and fi < len(fields) and isinstance(fields[fi], dict) else "") or ""
                            if "PhantomData" in ty or "PhantomData" in show(tm) or fname == "marker":
                                continue
                            n += 1
                            ctx.ob(R, b, "field %s of the clone comes from self" % (fname or fi), False,
                                   "%s::clone sets field `%s` to the literal %s instead of copying it: the clone of an iterator "
                                   "yields different items than the original (a message traversed twice gives two results)"
                                   % (m.group(1).split("::")[-1], fname or fi, show(tm)), b.where(bi))
                        else:
                            n += 1
                            ctx.ob(R, b, "field %s of the clone comes from self" % (fname or fi),
                                   any(s == ("arg", 1) for s in walk(tm)),
                                   "%s::clone builds field `%s` from %s, not from self" % (m.group(1).split("::")[-1], fname or fi, show(tm)[:60]),
                                   b.where(bi))
    ctx.call_sites += n


# ---------------------------------------------------------------------------
# loops that drive a section by hand
# ---------------------------------------------------------------------------

def rule_handloop(ctx, F):
    """A loop that steps a RecordSection and throws the step's result away (`let _ = section.next()`) can only end
    through what it reads from the section's `count`.  After a record fails to parse the count is Err and every further
    step is a no-op, so such a loop has to leave on `count = Err(_)`; without that edge one malformed record in the
    additional section makes the call spin for ever."""
    R = "C01.handloop"
    ctx.floor(R, 1)
    n = 0
    for p, b in sorted(F.bodies.items()):
        if "::test" in p or not re.match(r"^<?base::message::", p):
            continue
        cyc = cyclic_blocks(b)
        if not cyc:
            continue
        bf = None
        for bb, t in b.calls():
            if bb not in cyc:
                continue
            fn = t.get("res") or t["fn"] or ""
            if not re.search(r"RecordSection<.*> as core::iter::Iterator>::next$|RecordSection::<.*>::skip_next$", fn):
                continue
            loop = {x for x in cyc if bb in b.reach_from(x) and x in b.reach_from(bb)}
            used = False
            for sw in loop:
                tsw = b.blocks[sw]["t"]
                if tsw["k"] == "switch":
                    if any(x[0] == "call" and x[5] == bb for x in walk(b.term_of_operand(tsw["d"]))):
                        used = True
            if used:
                continue
            n += 1
            bf = bf or BranchFacts(b, F)
            leaves = False
            for sw in loop:
                tsw = b.blocks[sw]["t"]
                if tsw["k"] != "switch":
                    continue
                for lab, (tm, v) in bf.edge_facts(sw).items():
                    tm = deep_strip(tm)
                    if not (tm[0] == "field" and tm[2] == "count"):
                        continue
                    is_err = v == ("variant", "Err") or (isinstance(v, tuple) and v[0] == "notvariant" and "Ok" in v[1] and "Err" not in v[1])
                    if is_err and b.edge_target(sw, lab) not in loop:
                        # the edge must not come back
                        if not (b.reach_from(b.edge_target(sw, lab)) & loop):
                            leaves = True
            ctx.ob(R, b, "a loop that discards the section step leaves when the section's count is Err", leaves,
                   "%s steps a RecordSection in a loop, ignores what the step returns, and has no exit for `count = Err(_)`: "
                   "after a record that does not parse every further step does nothing, and the call never returns"
                   % p.split("::")[-1], b.where(bb))
    ctx.call_sites += n


def rule_hintelem(ctx, F):
    """A list-valued SVCB parameter is checked to be a whole number of elements of the type its iterator parses:
    the `COMPOSE_LEN` in `check_slice` is that of the iterator's item.  (The iterator `expect`s each element to parse.)"""
    R = "C01.hintelem"
    ctx.floor(R, 3)
    n = 0
    for p, b in sorted(F.bodies.items()):
        m = re.match(r"^rdata::svcb::value::(\w+)::<\[u8\]>::check_slice$", p)
        if not m:
            continue
        for bb, t in b.calls():
            if not (t["fn"] or "").endswith("is_multiple_of"):
                continue
            ks = [x for a in t["args"][1:] for x in walk(deep_strip(b.term_of_operand(a))) if x[0] == "k" and "COMPOSE_LEN" in (x[3] or "")]
            it = F.one_body(r"^<rdata::svcb::value::%sIter<.*> as core::iter::Iterator>::next$" % m.group(1))
            if not ks or it is None:
                continue
            n += 1
            item = re.match(r"^core::option::Option<(.*)>$", it.locals[0])
            elem = re.match(r"^<(.*) as base::wire::Compose>::COMPOSE_LEN$", ks[0][3]) or re.match(r"^([\w:]+)::COMPOSE_LEN$", ks[0][3])
            ok = bool(item and elem and item.group(1) == elem.group(1))
            ctx.ob(R, b, "%s: the length is a multiple of the size of what the iterator parses" % m.group(1), ok,
                   "%s::check_slice accepts lengths that are a multiple of %s, but %sIter parses (and expects to succeed) %s elements: "
                   "a value of, say, 4 octets passes the check and the iterator panics on it"
                   % (m.group(1), ks[0][3], m.group(1), item.group(1) if item else it.locals[0]), b.where(bb))
    ctx.call_sites += n


def rule_printer(ctx, F):
    """DigPrinter walks the four sections and `unwrap`s each step to the next section.  That is sound only because a
    record that does not parse ends the output: once an item of a section is Err, no later `answer()` / `next_section()`
    (which re-skips the records of the section and fails on the same record) is reached."""
    R = "C01.printer"
    ctx.floor(R, 4)
    b = F.one_body(r"^<base::dig_printer::DigPrinter<.*> as core::fmt::Display>::fmt$")
    if not ctx.anchor(R, "DigPrinter::fmt", b):
        return
    bf = BranchFacts(b, F)
    steps = {bb for bb, t in b.calls() if re.search(r"(QuestionSection::<.*>::answer|RecordSection::<.*>::next_section)$", t["fn"] or "")}
    n = 0
    for sw in sorted(b.reachable_blocks()):
        if b.blocks[sw]["t"]["k"] != "switch":
            continue
        for lab, (tm, v) in sorted(bf.edge_facts(sw).items(), key=str):
            if v != ("variant", "Err"):
                continue
            calls = [x[1] or "" for x in walk(tm) if x[0] == "call"]
            if not any(c.endswith("Iterator::next") for c in calls) or not any(re.search(r"Message::<.*>::question$", c) for c in calls) \
                    or any(re.search(r"::opt$", c) for c in calls):
                continue
            n += 1
            after = b.reach_from(b.edge_target(sw, lab)) & steps
            ctx.ob(R, b, "an unparsable item of a section ends the output #%d" % n, not after,
                   "DigPrinter::fmt goes on to the next section (block %s) after an item of a section failed to parse: the step "
                   "skips the same records again, fails on the same one, and its result is unwrapped -- printing a truncated "
                   "message panics" % sorted(after)[:3], b.where(sw))
    ctx.ob(R, b, "four section loops found", n == 4, "found %d section loops with an Err arm in DigPrinter::fmt" % n, nontrivial=False)
