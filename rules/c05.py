"""C05 — record data survives compose/parse; lengths exact (structural clauses).

C05.sig    per rdata type: parse field order/kinds == compose field
           order/kinds; compressing compose == plain compose except name kind;
           canonical compose == plain compose except the lower-cased names.
C05.lower  the set of names lower-cased in the canonical form equals the
           RFC 4034 6.2 list as amended by RFC 6840 5.1 (frozen table below).
C05.rdlen  rdlen(false) == sum of what compose_rdata writes: constant part =
           sum of the fixed field widths, variable part = the same fields.
C05.push   the incremental builders of length-limited data (Opt::push_raw_option,
           SvcParamsBuilder::push_raw) bound what they *append* -- header
           included -- and leave the value as it was when an append fails:
           every failure exit after the first append passes a truncate to the
           length saved before it.
C05.varlen for enums that are written variant by variant (IpseckeyGateway) the
           length announced for a variant equals what the composer writes for
           it: nothing -> 0, an A / AAAA payload -> 4 / 16, a name -> its
           compose_len.
C05.mask   ClientSubnet's host-bit mask: for all 256 octet values and all 7
           partial prefix lengths the guard that reports "host bits were
           set" holds exactly when the masking store changes the octet (the
           guard and the mask are two spellings of one condition; evaluated
           over the finite domain, nothing is run).
C05.forge  unchecked-constructor audit for the length-limited wrappers
           (Nsec3Salt, OwnerHash, CaaTag; at most 255 octets): every call of
           their unsafe constructors is validator-dominated, a re-wrap, behind
           a length bound, or audited (same rule as C03.forge).
C05.disp   each type's parse_rdata / rtype() use its own RTYPE, RTYPE equals
           the IANA number, RTYPEs are pairwise distinct, the enum dispatchers
           call the same-named method in every arm, unknown types fall back to
           the opaque carrier.
"""
import re

from mirlib import strip, deep_strip, show, walk, const_value, const_defs
from rulelib import return_assignments
import sigs

# RFC 4034 section 6.2 (names in RDATA that are lower-cased in canonical form), minus NSEC per
# RFC 6840 section 5.1; only the types this crate implements.  key: ADT short name -> fields
RFC4034_6_2 = {
    "Ns": {"nsdname"}, "Md": {"madname"}, "Mf": {"madname"}, "Cname": {"cname"},
    "Soa": {"mname", "rname"}, "Mb": {"madname"}, "Mg": {"madname"}, "Mr": {"newname"},
    "Ptr": {"ptrdname"}, "Minfo": {"rmailbx", "emailbx"}, "Mx": {"exchange"}, "Rp": {"mbox", "txt"},
    "Naptr": {"replacement"}, "Srv": {"target"}, "Dname": {"dname"}, "Rrsig": {"signer_name"},
}

IANA_RTYPE = {
    "A": 1, "Ns": 2, "Md": 3, "Mf": 4, "Cname": 5, "Soa": 6, "Mb": 7, "Mg": 8, "Mr": 9, "Null": 10,
    "Ptr": 12, "Hinfo": 13, "Minfo": 14, "Mx": 15, "Txt": 16, "Rp": 17, "Aaaa": 28, "Srv": 33,
    "Naptr": 35, "Dname": 39, "Opt": 41, "Ds": 43, "Sshfp": 44, "Ipseckey": 45, "Rrsig": 46, "Nsec": 47,
    "Dnskey": 48, "Nsec3": 50, "Nsec3param": 51, "Tlsa": 52, "Cds": 59, "Cdnskey": 60,
    "Openpgpkey": 61, "Zonemd": 63, "Caa": 257, "Tsig": 250,
}

VAR_KINDS = ("name:", "octets", "CharStr:", "Nsec3Salt:", "OwnerHash:", "RtypeBitmap:", "CaaTag:", "SvcParams:",
             "IpseckeyGateway:")


def run(ctx):
    F = ctx.facts
    ctx.extra["explanation"] = (
        "C05: per record type, the field order and codec kinds of parse / compose_rdata (plain and "
        "compressing) / compose_canonical_rdata / rdlen are extracted from MIR (resolved callees, field "
        "identities) and must agree; canonical lower-casing equals the RFC 4034 6.2 + RFC 6840 5.1 table; "
        "RTYPE constants equal IANA numbers. Value equality after a round-trip is not decided."
    )
    types = sigs.rdata_types(F)
    ctx.anchor("C05.sig", "rdata types (impl ComposeRecordData)", len(types) >= 30)
    ctx.floor("C05.sig", 110)
    ctx.floor("C05.lower", 33)
    ctx.floor("C05.rdlen", 60)
    ctx.floor("C05.disp", 100)
    widths = _width_table(F)
    for adt in sorted(types):
        _check_type(ctx, F, adt, types[adt], widths)
    rule_disp(ctx, F, types)
    rule_push(ctx, F)
    rule_mask(ctx, F)
    rule_varlen(ctx, F)
    import c03
    c03.rule_forge(ctx, F, R="C05.forge",
                   validated=("rdata::nsec3::Nsec3Salt", "rdata::nsec3::OwnerHash", "rdata::caa::CaaTag"),
                   len_limit={"rdata::nsec3::Nsec3Salt": 255, "rdata::nsec3::OwnerHash": 255, "rdata::caa::CaaTag": 255},
                   audit=[
                       (r"^rdata::nsec3::(Nsec3Salt|OwnerHash)::<Octs>::parse(::\{closure#0\})?$",
                        "the length comes from a single length octet (parse_u8) and parse_octets(len) is checked: at most 255 octets"),
                       (r"^<rdata::nsec3::Nsec3Salt<Octs> as core::str::FromStr>::from_str$", "the `-` arm builds the empty salt from an empty builder"),
                       (r"^rdata::nsec3::(Nsec3Salt|OwnerHash)::<.*>::(empty|from_octets)$", "checked constructor / constant"),
                   ], floor=6, min_ctors=3)
    for adt, rb, ok, names in sigs.rdlen_compress_agreement(F):
        ctx.ob("C05.rdlen", adt, "no announced length when names are compressed", ok,
               "%s::rdlen(compress = true) announces a length although compose_rdata compresses %s on a compressing "
               "target: the advertised RDLENGTH differs from the octets written" % (adt.split("::")[-1], names), where=rb.where())
    rule_fwd(ctx, F)
    rule_conv(ctx, F)
    rule_optlen(ctx, F)
    rule_txtroom(ctx, F)
    # the reader of a variable-layout field accepts exactly what its writer can produce (shared rules)
    import c01
    import c11
    c01.rule_window(ctx, F)     # NSEC/NSEC3 type bitmap: every window of 1..=32 bitmap octets, nothing else
    c11.rule_time48(ctx, F)     # TSIG 48-bit times: into_octets and from_slice use the same bit layout
    import c04
    c04.rule_fold(ctx, F)       # the canonical form lower-cases exactly the ASCII letters (Label::compose_canonical)
    import c13
    c13.rule_split(ctx, F)      # type bitmap: window / octet / bit of a type number (RFC 4034 4.1.2)


PUSHERS = [
    # (body regex, field holding the octets, octets of per-item header the length check must include)
    (r"^base::opt::Opt::<Octs>::push_raw_option$", "octets", 4, r"LongOptData::check_len$"),
    (r"^rdata::svcb::params::SvcParamsBuilder::<Octs>::push_raw$", "octets", 4, None),
]


def _const_sum(t):
    """sum of the integer constants in a chain of additions (checked / saturating / plain)"""
    t = deep_strip(t)
    cv = const_value(t)
    if cv is not None:
        return cv
    if t[0] == "cast":
        return _const_sum(t[2])
    if t[0] == "bin" and t[1].startswith("Add"):
        return _const_sum(t[2]) + _const_sum(t[3])
    if t[0] == "call" and t[1] and re.search(r"::(saturating_add|checked_add|wrapping_add)$", t[1]) and len(t[3]) == 2:
        return _const_sum(t[3][0]) + _const_sum(t[3][1])
    if t[0] == "call" and t[1] and re.search(r"::(unwrap|expect|from|into|unwrap_or)$", t[1]) and t[3]:
        return _const_sum(t[3][0])
    return 0


def rule_push(ctx, F):
    from rulelib import must_pass, fmt_path, failed_calls
    R = "C05.push"
    ctx.floor(R, 3)
    for rx, field, hdr, check_rx in PUSHERS:
        b = F.one_body(rx)
        if not ctx.anchor(R, rx, b):
            continue
        name = b.path.split("::")[-1]
        appends = [bb for bb, t in b.calls()
                   if re.search(r"::(compose|append_slice|call_once|compose_option|compose_value)$", t["fn"] or "")
                   and any(field in show(deep_strip(b.term_of_operand(a))) for a in t["args"])]
        if not ctx.anchor(R, "appends in %s" % name, len(appends) >= 2, b.where()):
            continue
        first = min(appends, key=lambda x: (not all(b.dominates(x, y) for y in appends if y != x), x))
        # (a) the bound counts the item header
        if check_rx:
            cks = [(bb, t) for bb, t in b.calls() if re.search(check_rx, t["fn"] or "")]
            if ctx.anchor(R, "length check in %s" % name, len(cks) == 1, b.where()):
                cs = _const_sum(b.term_of_operand(cks[0][1]["args"][0]))
                ctx.ob(R, b, "the length check counts the %d-octet item header" % hdr, cs == hdr,
                       "%s checks `current length + item length` (constant part %d) but appends %d more octets of item header: "
                       "the data can grow past its limit and computing its length later panics" % (name, cs, hdr), b.where(cks[0][0]))
        # (b) rollback
        truncs = [bb for bb, t in b.calls() if re.search(r"::truncate$", t["fn"] or "")]
        errs = sorted({r[0] for r in return_assignments(b) if r[2] == "Err" and (r[0] in b.reach_from(first))})
        bad = None
        for e in errs:
            # failure exits that come after an append
            if not any(a in failed_calls(b, e, F) or a in b.reach_from(0) and e in b.reach_from(a) for a in appends):
                continue
            ok, path = must_pass(b, first, [e], truncs) if truncs else (False, None)
            if not ok:
                bad = e
                break
        ctx.ob(R, b, "a failed append leaves the value as it was", bad is None and bool(errs),
               "%s can return an error after it has appended part of an item without truncating back to the length it started "
               "from: the value keeps a half-written item (the next push or a later parse of the composed data fails or "
               "panics)" % name, b.where(bad) if bad is not None else b.where())


def _eval(t, env):
    """value of a small integer expression over the bindings in env (keyed by the printed sub-term)"""
    s = show(deep_strip(t))
    if s in env:
        return env[s]
    t = deep_strip(t)
    cv = const_value(t)
    if cv is not None:
        return cv
    if t[0] == "cast":
        return _eval(t[2], env)
    if t[0] == "bin":
        a, c = _eval(t[2], env), _eval(t[3], env)
        if a is None or c is None:
            return None
        op = t[1].replace("WithOverflow", "").replace("Unchecked", "")
        try:
            return {"Add": a + c, "Sub": a - c, "Mul": a * c, "BitAnd": a & c, "BitOr": a | c, "BitXor": a ^ c,
                    "Shl": (a << c) if 0 <= c < 64 else None, "Shr": (a >> c) if 0 <= c < 64 else None,
                    "Rem": a % c if c else None, "Div": a // c if c else None,
                    "Lt": a < c, "Le": a <= c, "Gt": a > c, "Ge": a >= c, "Eq": a == c, "Ne": a != c}.get(op)
        except TypeError:
            return None
    if t[0] == "call" and t[1] and t[3]:
        x = _eval(t[3][0], env)
        if x is None:
            return None
        m = re.search(r"<impl u(\d+)>::(trailing_zeros|leading_zeros|count_ones)$", t[1])
        if m:
            w = int(m.group(1))
            if m.group(2) == "trailing_zeros":
                return w if x == 0 else (x & -x).bit_length() - 1
            if m.group(2) == "leading_zeros":
                return w - x.bit_length()
            return bin(x).count("1")
    return None


def rule_mask(ctx, F):
    from rulelib import facts_at
    R = "C05.mask"
    ctx.floor(R, 1)
    b = F.one_body(r"^base::opt::subnet::apply_bit_mask$")
    if not ctx.anchor(R, "subnet::apply_bit_mask", b):
        return
    # the masking store: buf[p] = buf[p] & (0xff << (8 - bits))
    site = None
    for bi in sorted(b.reachable_blocks()):
        for st in b.blocks[bi]["s"]:
            if st[0] == "=" and len(st[1]) >= 2 and st[2][0] == "bin" and st[2][1] == "BitAnd":
                site = (bi, st)
    if not ctx.anchor(R, "the masking store in apply_bit_mask", site is not None, b.where()):
        return
    bi, st = site
    old = b.term_of_operand(st[2][2])
    new = b.term_of_rvalue(st[2])
    xkey = show(deep_strip(old))
    guards = [(tt, v) for tt, v, _ in facts_at(b, bi, F) if isinstance(v, bool) and "trailing_zeros" in show(deep_strip(tt)) or
              (isinstance(v, bool) and xkey in show(deep_strip(tt)))]
    rems = sorted({show(s) for tt, _ in guards for s in walk(deep_strip(tt)) if s[0] == "bin" and s[1] == "Rem"}, key=len)
    if not ctx.anchor(R, "guard of the masking store over the octet and the partial prefix length", bool(guards) and bool(rems), b.where(bi)):
        return
    bkey = rems[0]
    bad = []
    undecided = False
    for bits in range(1, 8):
        for x in range(256):
            env = {xkey: x, bkey: bits}
            g = True
            for tt, v in guards:
                val = _eval(tt, env)
                if val is None:
                    undecided = True
                    continue
                g = g and (bool(val) == v)
            nv = _eval(new, env)
            if nv is None:
                undecided = True
                continue
            changes = (nv & 0xFF) != x
            if g != changes:
                bad.append((x, bits, g, changes))
    if undecided and not bad:
        ctx.undecided_item(R, "apply_bit_mask", "guard or mask expression not evaluable")
        return
    ctx.ob(R, b, "the host-bits guard holds exactly when the mask changes the octet", not bad,
           "apply_bit_mask: for octet 0x%02x and a prefix ending %d bits into it the guard says %s but masking %s the octet: "
           "ClientSubnet::parse rejects a valid prefix (or accepts set host bits)"
           % ((bad[0][0], bad[0][1], "modified" if bad[0][2] else "unmodified", "changes" if bad[0][3] else "does not change") if bad else (0, 0, "", "")),
           b.where(bi), detail="1792 (octet, bits) pairs evaluated, %d disagree" % len(bad))


FIXED_PAYLOAD = {"rdata::rfc1035::a::A": 4, "rdata::aaaa::Aaaa": 16}


def _per_variant(b, F, classify):
    """{variant: classify(blocks reachable from the variant's arm before the arms join)} for a `match self`"""
    from mirlib import BranchFacts
    bf = BranchFacts(b, F)
    out = {}
    for sw in sorted(b.reachable_blocks()):
        if b.blocks[sw]["t"]["k"] != "switch":
            continue
        ef = bf.edge_facts(sw)
        arms = {lab: v[1][1] for lab, v in ef.items() if isinstance(v[1], tuple) and v[1][0] == "variant" and deep_strip(v[0]) == ("arg", 1)}
        if len(arms) < 2:
            continue
        tgts = {lab: b.edge_target(sw, lab) for lab in arms}
        reach = {lab: b.reach_from(tgts[lab]) for lab in arms}
        for lab, var in arms.items():
            others = set().union(*[reach[l2] for l2 in arms if l2 != lab])
            out[var] = classify(sorted(reach[lab] - others))
        break
    return out


def rule_varlen(ctx, F):
    R = "C05.varlen"
    ctx.floor(R, 4)
    for adt in ("rdata::ipseckey::IpseckeyGateway",):
        lb = F.one_body("^" + re.escape(adt) + r"::<N>::rdlen$")
        cb = F.one_body("^" + re.escape(adt) + r"::<N>::compose_rdata(::<.*>)?$") or \
            next((x for q, x in F.bodies.items() if q.startswith("<" + adt) and q.endswith("::compose_rdata")), None)
        if cb is None:
            cands = [x for q, x in F.bodies.items() if adt.split("::")[-1] in q and re.search(r"::compose_rdata(::<.*>)?$", q) and "Ipseckey<" not in q]
            cb = cands[0] if cands else None
        if not ctx.anchor(R, "%s::rdlen and ::compose_rdata" % adt, lb is not None and cb is not None):
            continue

        def len_of(blocks):
            for bb in blocks:
                for st in lb.blocks[bb]["s"]:
                    if st[0] == "=" and st[1] == [0] and st[2][0] == "use" and st[2][1][0] == "k" and isinstance(st[2][1][2], int):
                        return st[2][1][2]
                tt = lb.blocks[bb]["t"]
                if tt["k"] == "call" and (tt["fn"] or "").endswith("::compose_len"):
                    return "compose_len"
            return None

        def written(blocks):
            out = []
            for bb in blocks:
                tt = cb.blocks[bb]["t"]
                if tt["k"] != "call" or not tt["fn"]:
                    continue
                m = None
                for nm in (tt.get("res"), tt.get("full"), tt["fn"]):
                    m = m or (re.match(r"^<(.+?) as base::rdata::ComposeRecordData>::compose_rdata", nm) if nm else None)
                if m:
                    out.append(FIXED_PAYLOAD.get(re.sub(r"<.*$", "", m.group(1)), "?" + m.group(1)))
                elif re.search(r"ToName>?::compose(::<.*>)?$|ToLabelIter>?::compose(::<.*>)?$", tt.get("full") or tt["fn"]):
                    out.append("compose_len")
                elif tt["fn"].endswith("::append_slice"):
                    out.append("?append_slice")
            return out
        lens = _per_variant(lb, F, len_of)
        outs = _per_variant(cb, F, written)
        if not ctx.anchor(R, "per-variant arms of %s" % adt, len(lens) >= 3 and set(lens) == set(outs), lb.where()):
            continue
        for var in sorted(lens):
            w = outs[var]
            want = 0 if not w else (w[0] if len(w) == 1 else None)
            ctx.ob(R, lb, "rdlen of the %s variant equals what is written" % var, want is not None and lens[var] == want,
                   "%s::rdlen announces %s for the %s variant but compose_rdata writes %s: the RDLENGTH of the record is wrong and "
                   "the next record in the message is misread" % (adt.split("::")[-1], lens[var], var, w or "nothing"))


def _width_table(F):
    w = dict(sigs.INT_SIZES)
    for p, c in F.consts.items():
        if p.endswith("::COMPOSE_LEN") and isinstance(c.get("value"), int):
            owner = p[: -len("::COMPOSE_LEN")]
            m = re.match(r"^<(.*) as base::wire::Compose>$", owner)
            if m:
                owner = m.group(1)
            w[sigs.ty_short(re.sub(r"::<.*$", "", owner))] = c["value"]
    # single-field integer newtypes without a COMPOSE_LEN constant take the width of their field
    for p, a in F.adts.items():
        nm = p.split("::")[-1]
        if nm in w or a["kind"] != "Struct" or len(a["variants"]) != 1:
            continue
        fs = a["variants"][0]["fields"]
        if len(fs) == 1 and fs[0]["ty"] in sigs.INT_SIZES:
            w[nm] = sigs.INT_SIZES[fs[0]["ty"]]
    # RFC 8945 4.2: Time Signed is a 48 bit field (Time48 wraps a u64, so not derivable from the type)
    w["Time48"] = 6
    return w


def _plain(toks):
    return [(f, k) for f, k, l in toks]


def _is_var(kind):
    return kind.startswith(VAR_KINDS)


def _name_norm(k):
    return "name" if k.startswith("name:") else k


def _check_type(ctx, F, adt, im, widths):
    short = adt.split("::")[-1]
    cb = sigs.impl_fn(F, im, "compose_rdata")
    kb = sigs.impl_fn(F, im, "compose_canonical_rdata")
    rb = sigs.impl_fn(F, im, "rdlen")
    if cb is None or kb is None or rb is None:
        ctx.undecided_item("C05.sig", adt, "ComposeRecordData items not found")
        return
    t_alts, f_alts, cc = sigs.compose_split(cb, F)
    if len(f_alts) != 1 or len(t_alts) != 1:
        ctx.undecided_item("C05.sig", adt, "compose_rdata has %d/%d alternative signatures" % (len(t_alts), len(f_alts)))
        return
    plain = _plain(f_alts[0][1])
    comp = _plain(t_alts[0][1])
    loops = any(l for _, _, l in f_alts[0][1])
    if not plain:
        ctx.undecided_item("C05.sig", adt, "no field tokens recognised in compose_rdata")
        return
    # -- compress vs plain
    ok = len(plain) == len(comp) and all(
        pf == cf and (pk == ck or (pk == "name:plain" and ck == "name:compress")) for (pf, pk), (cf, ck) in zip(plain, comp))
    ctx.ob("C05.sig", adt, "compressing compose == plain compose (names aside)", ok,
           "%s::compose_rdata writes different fields when the target compresses: %s vs %s" % (short, comp, plain),
           where=cb.where())
    if any(k == "name:compress" for _, k in plain):
        ctx.ob("C05.sig", adt, "no compression without can_compress", False,
               "%s::compose_rdata compresses a name on the non-compressing path" % short, where=cb.where())
    # -- canonical vs plain
    k_alts = sigs.compose_tokens(kb, F)
    if len(k_alts) != 1:
        ctx.undecided_item("C05.sig", adt, "compose_canonical_rdata has %d alternatives" % len(k_alts))
    else:
        canon = _plain(k_alts[0][1])
        same = len(canon) == len(plain) and all(
            cf == pf and (ck == pk or (pk == "name:plain" and ck == "name:lower")) for (cf, ck), (pf, pk) in zip(canon, plain))
        ctx.ob("C05.sig", adt, "canonical compose == plain compose (lower-casing aside)", same,
               "%s: canonical form %s differs from the uncompressed wire form %s by more than lower-casing"
               % (short, canon, plain), where=kb.where())
        lowered = {f for f, k in canon if k == "name:lower"}
        want = RFC4034_6_2.get(short, set())
        ctx.ob("C05.lower", adt, "lower-cased names == RFC 4034 6.2 / RFC 6840 5.1", lowered == want,
               "%s: canonical form lower-cases %s, the RFCs list %s" % (short, sorted(lowered), sorted(want)),
               where=kb.where())
        if any(k == "name:compress" for _, k in canon):
            ctx.ob("C05.lower", adt, "canonical form never compresses", False,
                   "%s::compose_canonical_rdata compresses a name" % short, where=kb.where())
    # -- parse vs compose
    pbs = sigs.inherent_fn(F, adt, "parse")
    if len(pbs) != 1:
        ctx.undecided_item("C05.sig", adt, "%d inherent parse functions" % len(pbs))
    else:
        pf, why = sigs.parse_field_order(pbs[0], F, adt)
        if pf is None:
            ctx.undecided_item("C05.sig", adt, "parse: %s" % why)
        elif loops or any(l for _, _, l in pf):
            ctx.undecided_item("C05.sig", adt, "codec contains a loop")
        else:
            # drop length prefixes on both sides
            c = [(f, k) for f, k in plain if not k.startswith("len:")]
            p = []
            for i, (f, k, l) in enumerate(pf):
                if k.startswith("int:") and i + 1 < len(pf) and pf[i + 1][0] == f and pf[i + 1][1] == "octets":
                    continue
                p.append((f, k))
            cfields = [f.split(".")[0] for f, k in c]
            pfields = [f for f, k in p]
            ctx.ob("C05.sig", adt, "parse field order == compose field order", cfields == pfields,
                   "%s: parse reads fields %s but compose_rdata writes %s" % (short, pfields, cfields),
                   where=pbs[0].where())
            if cfields == pfields:
                bad = []
                for (cf, ck), (pf_, pk) in zip(c, p):
                    if not _kind_compat(ck, pk, widths):
                        bad.append((cf, ck, pk))
                ctx.ob("C05.sig", adt, "parse kinds == compose kinds", not bad,
                       "%s: field codec mismatch (field, compose kind, parse kind): %s" % (short, bad),
                       where=pbs[0].where())
    # -- rdlen
    summ, why = sigs.rdlen_summands(rb, F)
    if summ is None:
        ctx.undecided_item("C05.rdlen", adt, why)
        return
    if any(s[0] == "other" for s in summ):
        ctx.undecided_item("C05.rdlen", adt, "unrecognised summand %s" % [s for s in summ if s[0] == "other"])
        return
    var_r = sorted(s[1].split(".")[0] for s in summ if s[0] in ("clen", "len", "sub"))
    var_c = sorted(f.split(".")[0] for f, k in plain if _is_var(k))
    ctx.ob("C05.rdlen", adt, "variable-length fields counted == written", var_r == var_c,
           "%s::rdlen counts variable-length fields %s but compose_rdata writes %s: the advertised RDLENGTH "
           "differs from the octets written" % (short, var_r, var_c), where=rb.where())
    const_r = sum(s[1] for s in summ if s[0] == "const")
    const_c = 0
    unknown = []
    for f, k in plain:
        if _is_var(k):
            continue
        wv = _fixed_width(k, widths)
        if wv is None:
            unknown.append((f, k))
        else:
            const_c += wv
    if unknown:
        ctx.undecided_item("C05.rdlen", adt, "width of %s unknown" % unknown)
    else:
        ctx.ob("C05.rdlen", adt, "fixed part == sum of fixed field widths", const_r == const_c,
               "%s::rdlen adds %d fixed octets but compose_rdata writes %d (%s)"
               % (short, const_r, const_c, [(f, k) for f, k in plain if not _is_var(k)]), where=rb.where())


def _fixed_width(kind, widths):
    if kind.startswith("len:"):
        return widths.get(kind[4:], None) if kind[4:] != "arr" else None
    if kind.startswith("int:be:"):
        return widths.get(kind[7:])
    if kind.startswith("fixed:"):
        return int(kind[6:])
    if kind.startswith("int:"):
        return widths.get(kind[4:])
    if ":" in kind:
        return widths.get(kind.split(":")[0])
    return None


def _kind_compat(ck, pk, widths):
    if ck.startswith("name:"):
        return pk == "name"
    if ck == pk:
        return True
    cbase = ck.split(":")
    pbase = pk.split(":")
    if cbase[0] == "int" and pbase[0] == "int":
        a, b = cbase[-1], pbase[-1]
        return a == b or (widths.get(a) is not None and widths.get(a) == widths.get(b))
    if cbase[0] == "fixed" and pbase[0] == "int":
        return True
    if cbase[0] == pbase[0]:
        return True  # X:compose vs X:parse
    if cbase[0] == "int" and len(pbase) == 2 and pbase[1] == "parse":
        # an int-enum written as its integer value, parsed through its own parse
        w1 = widths.get(cbase[-1])
        w2 = widths.get(pbase[0])
        return w1 is not None and w1 == w2
    if pbase[0] == "int" and len(cbase) == 2 and cbase[1] == "compose":
        w1 = widths.get(pbase[-1])
        w2 = widths.get(cbase[0])
        return w1 is not None and w1 == w2
    if cbase[0] == "octets" and pbase[0] == "int":
        return False
    return False


# ---------------------------------------------------------------------------

def rule_disp(ctx, F, types):
    R = "C05.disp"
    seen_vals = {}
    for adt in sorted(types):
        short = adt.split("::")[-1]
        # RTYPE constant
        consts = [(p, c) for p, c in F.consts.items()
                  if re.match("^" + re.escape(adt) + r"(::<.*>)?::RTYPE$", p)]
        if short in IANA_RTYPE:
            ok = len(consts) >= 1 and all(c["value"] == IANA_RTYPE[short] for _, c in consts)
            ctx.ob(R, adt, "RTYPE == IANA %d" % IANA_RTYPE[short], ok,
                   "%s::RTYPE evaluates to %s, IANA assigns %d" % (short, [c["value"] for _, c in consts], IANA_RTYPE[short]))
            for _, c in consts[:1]:
                seen_vals.setdefault(c["value"], []).append(short)
        # parse_rdata compares against the type's own RTYPE
        for im in sigs.find_impl(F, adt, "base::rdata::ParseRecordData"):
            b = sigs.impl_fn(F, im, "parse_rdata")
            if b is None:
                continue
            used = {d for d in const_defs(b) if d.endswith("::RTYPE")}
            own = {u for u in used if re.sub(r"::<.*>", "", u.replace("::RTYPE", "")) == adt}
            if used:
                ctx.ob(R, adt, "parse_rdata tests its own RTYPE", used == own,
                       "%s::parse_rdata compares the record type with %s" % (short, sorted(used)), where=b.where())
        for im in sigs.find_impl(F, adt, "base::rdata::RecordData"):
            b = sigs.impl_fn(F, im, "rtype")
            if b is None:
                continue
            used = {d for d in const_defs(b) if d.endswith("::RTYPE")}
            own = {u for u in used if re.sub(r"::<.*>", "", u.replace("::RTYPE", "")) == adt}
            if used:
                ctx.ob(R, adt, "rtype() returns its own RTYPE", used == own,
                       "%s::rtype returns %s" % (short, sorted(used)), where=b.where())
    dups = {v: n for v, n in seen_vals.items() if len(n) > 1}
    ctx.ob(R, "rdata types", "RTYPE constants pairwise distinct", not dups,
           "several types share one RTYPE: %s" % dups)
    # enum dispatchers: every arm of X::method calls inner.method
    for enum in ("rdata::ZoneRecordData", "rdata::AllRecordData"):
        ims = sigs.find_impl(F, enum, "base::rdata::ComposeRecordData")
        if not ctx.anchor(R, "%s: ComposeRecordData" % enum, len(ims) == 1):
            continue
        nvar = len(F.adts[enum]["variants"]) if enum in F.adts else 0
        for meth in ("rdlen", "compose_rdata", "compose_canonical_rdata"):
            b = sigs.impl_fn(F, ims[0], meth)
            if b is None:
                continue
            callees = [t["fn"].split("::")[-1] for _, t in b.calls() if t["fn"] and "ComposeRecordData::" in t["fn"]]
            ok = len(callees) == nvar and set(callees) == {meth}
            ctx.ob(R, enum, "%s dispatches every variant to inner.%s" % (meth, meth), ok,
                   "%s::%s: %d variants, %d inner calls, callee names %s" % (enum, meth, nvar, len(callees), sorted(set(callees))),
                   where=b.where())
        # unknown fallback in parse
        for tr, fn in (("base::rdata::ParseRecordData", "parse_rdata"), ("base::rdata::ParseAnyRecordData", "parse_any_rdata")):
            for im in sigs.find_impl(F, enum, tr):
                b = sigs.impl_fn(F, im, fn)
                if b is None:
                    continue
                fb = [t for _, t in b.calls() if t["fn"] and "UnknownRecordData" in (t["fn"] + str(t["targs"])) and "parse" in t["fn"]]
                deleg = [t for _, t in b.calls() if t["fn"] and t["fn"].endswith("parse_any_rdata")]
                ctx.ob(R, enum, "%s falls back to UnknownRecordData" % fn, bool(fb) or bool(deleg),
                       "%s::%s has no opaque fallback for unknown record types" % (enum, fn), where=b.where())
    # the opaque carrier copies remaining() octets and writes them back verbatim
    ub = F.one_body(r"^base::rdata::UnknownRecordData::<Octs>::parse_rdata$") or F.one_body(r"UnknownRecordData<.*> as base::rdata::ParseAnyRecordData.*parse_any_rdata$")
    cands = [b for p, b in F.bodies.items() if "UnknownRecordData" in p and p.endswith("parse_any_rdata")]
    if ctx.anchor(R, "UnknownRecordData::parse_any_rdata", cands):
        b = cands[0]
        rem = b.calls_matching(r"Parser::<.*>::remaining$")
        po = b.calls_matching(r"Parser::<.*>::parse_octets$")
        ok = False
        if rem and po:
            a = deep_strip(b.term_of_operand(po[0][1]["args"][1]))
            ok = a[0] == "call" and (a[1] or "").endswith("remaining")
        ctx.ob(R, b, "opaque data = all remaining RDATA octets", ok,
               "unknown record data must take exactly parser.remaining() octets")


# ---------------------------------------------------------------------------
# forwarding impls (&T, &mut T, Box<T>, Rc<T>, Arc<T>, ...) keep the method
# ---------------------------------------------------------------------------

def rule_fwd(ctx, F):
    """An impl of a codec trait for a pointer-like wrapper of a generic T
    forwards each method to the same-named method of T.  (A copy-paste slip
    `compose_canonical_rdata -> (*self).compose_rdata` loses the canonical
    form only for data used through a reference.)"""
    R = "C05.fwd"
    ctx.floor(R, 9)
    n = 0
    for im in F.impls:
        tr = im["trait"]
        if not tr or not re.match(r"^(base|rdata|zonefile)::", tr):
            continue
        for it in im["items"]:
            b = F.bodies.get(it["path"])
            if b is None:
                continue
            for bi, t in b.calls():
                if t.get("trait") != tr or not t["targs"] or not t["args"] or not t["fn"]:
                    continue
                if not re.match(r"^[A-Z][A-Za-z0-9]*$", t["targs"][0].replace("&", "").replace("mut ", "").strip()):
                    continue
                if deep_strip(b.term_of_operand(t["args"][0])) != ("arg", 1):
                    continue
                n += 1
                callee = t["fn"].split("::")[-1]
                ctx.ob(R, b, "forwards to the same method", callee == it["name"],
                       "impl %s for %s: %s forwards to %s of the wrapped type" % (tr.split("::")[-1], im["self_ty"], it["name"], callee),
                       b.where(bi), nontrivial=False)
    ctx.call_sites += n


CONVERTERS = re.compile(r"::(convert_octets|flatten|try_octets_from|octets_from|flatten_into|try_flatten_into|to_owned|into_owned)(::<.*>)?$")


def rule_conv(ctx, F):
    """Record data changes its octets / name type (convert_octets, flatten, OctetsFrom ..) without changing its value:
    in every such conversion of a record-data type, each field of the value built comes from the field of the same
    name of the source -- whether the result is a struct literal or goes through a constructor whose parameter-to-
    field map is read from the constructor's own body."""
    R = "C05.conv"
    ctx.floor(R, 150)
    n = 0
    for p, b in sorted(F.bodies.items()):
        if "::test" in p or not re.match(r"^<?rdata::", p) or not CONVERTERS.search(p.split("::{closure")[0]):
            continue
        if "{closure" in p:
            continue
        targets = []     # (block, [(dst field, term)])
        for bi in sorted(b.reachable_blocks()):
            if b.blocks[bi].get("c"):
                continue
            for st in b.blocks[bi]["s"]:
                if st[0] == "=" and st[2][0] == "agg" and st[2][1][0] == "adt" and str(st[2][1][1]).startswith("rdata::") \
                        and len(st[2][1]) > 3 and st[2][1][3] and len(st[2][1][3]) >= 2:
                    targets.append((bi, [(f, b.term_of_operand(o)) for f, o in zip(st[2][1][3], st[2][2])]))
            t = b.blocks[bi]["t"]
            if t["k"] == "call" and t["fn"] and re.search(r"^rdata::.*::(new|new_unchecked|new_impl)(::<.*>)?$", t["fn"]) and len(t["args"]) >= 2:
                fm = sigs.ctor_field_map(F, t["res"] or t["fn"])
                if fm:
                    targets.append((bi, [(fm[i + 1], b.term_of_operand(a)) for i, a in enumerate(t["args"]) if (i + 1) in fm]))
        for bi, pairs in targets:
            for dst, tm in pairs:
                srcs = set()
                for s_ in walk(deep_strip(tm)):
                    if s_[0] == "field":
                        base = deep_strip(s_[1])
                        while base[0] in ("deref", "ref"):
                            base = deep_strip(base[1])
                        if base[0] == "arg" and not str(s_[2]).isdigit():
                            srcs.add(str(s_[2]))
                if not srcs:
                    continue
                n += 1
                ctx.ob(R, b, "field %s <- %s" % (dst, "/".join(sorted(srcs))), srcs == {str(dst)},
                       "%s builds field `%s` of the converted value from field(s) %s of the source: the conversion changes the "
                       "value (two fields of the same type swapped or one used twice) although it should only change the octets / "
                       "name type" % (p, dst, sorted(srcs)), b.where(bi))
    ctx.call_sites += n


def rule_optlen(ctx, F):
    """EDNS option parts announce what they write: where a type's `compose` appends octets it holds (a slice of one of
    its fields), its `compose_len` is computed from the length of that field -- a constant stands for one size only
    (a 16-octet server cookie) while the type admits others (8..=32), and the OPTION-LENGTH written in front then
    differs from the octets that follow."""
    R = "C05.optlen"
    ctx.floor(R, 1)
    n = 0
    for p, lb in sorted(F.bodies.items()):
        m = re.match(r"^(base::opt::[\w:]+?(::<[^>]*>)?)::compose_len$", p)
        if not m or "::test" in p:
            continue
        cb = F.bodies.get(m.group(1) + "::compose") or next((b for q, b in F.bodies.items() if q.startswith(m.group(1) + "::compose::<")), None)
        if cb is None:
            continue
        fields = set()
        for bb, t in cb.calls():
            if re.search(r"OctetsBuilder::append_slice$", t["fn"] or "") and len(t["args"]) >= 2:
                tm = deep_strip(cb.term_of_operand(t["args"][1]))
                for s_ in walk(tm):
                    if s_[0] == "field" and deep_strip(s_[1]) in (("arg", 1), ("deref", ("arg", 1))):
                        fields.add(str(s_[2]))
        if not fields:
            continue
        n += 1
        rets = [deep_strip(t) for _, _, _, t in return_assignments(lb) if t is not None]
        calls = [deep_strip(lb.term_of_operand(a)) for _, t in lb.calls() if re.search(r"::len$", t["fn"] or "") for a in t["args"][:1]]
        measured = set()
        for tm in rets + calls:
            for s_ in walk(tm):
                if s_[0] == "field" and deep_strip(s_[1]) in (("arg", 1), ("deref", ("arg", 1))):
                    measured.add(str(s_[2]))
        ctx.ob(R, lb, "compose_len measures what compose writes", fields <= measured,
               "%s::compose appends its field(s) %s but compose_len does not look at %s: for values of another size the length "
               "announced in front of the option differs from the octets written (an 8-octet server cookie makes the OPT record "
               "unparsable, a 32-octet one leaves 16 octets to be read as a further option)"
               % (m.group(1).split("::")[-1], sorted(fields), sorted(fields - measured)), lb.where())
    ctx.call_sites += n


def _lin2(t):
    """{'start': a, 'len': b, 1: c} for a term linear in the open string's start index and the buffer length"""
    t = deep_strip(t)
    cv = const_value(t)
    if cv is not None and isinstance(cv, int):
        return {1: cv}
    if t[0] == "call" and (t[1] or "").endswith("::len"):
        return {"len": 1}
    if t[0] in ("field", "downcast") and "start" in show(t):
        return {"start": 1}
    if t[0] == "cast":
        return _lin2(t[2])
    if t[0] == "bin" and t[1].replace("WithOverflow", "") in ("Add", "Sub"):
        a, c = _lin2(t[2]), _lin2(t[3])
        if a is None or c is None:
            return None
        sg = 1 if t[1].startswith("Add") else -1
        out = dict(a)
        for k, v in c.items():
            out[k] = out.get(k, 0) + sg * v
        return out
    return None


def rule_txtroom(ctx, F):
    """TxtBuilder keeps the index of the length octet of the character string it is filling.  The room left in that
    string is 255 minus its content so far, i.e. 256 + start - len as a linear form: the value append_slice
    compares the new data with and splits it at is exactly that (an off-by-one closes a string at 254 octets under a
    length octet of 255, and the finished TXT data no longer parses)."""
    R = "C05.txtroom"
    ctx.floor(R, 1)
    bs = [b for p, b in F.bodies.items() if re.search(r"^rdata::rfc1035::txt::TxtBuilder::<Builder>::append_slice$", p)]
    if not ctx.anchor(R, "TxtBuilder::append_slice", len(bs) == 1):
        return
    b = bs[0]
    n = 0
    for bb, t in b.calls():
        if re.search(r"<impl \[T\]>::split_at$", t["fn"] or ""):
            n += 1
            lin = _lin2(b.term_of_operand(t["args"][1]))
            ok = lin is not None and {k: v for k, v in lin.items() if v} == {"start": 1, "len": -1, 1: 256}
            ctx.ob(R, b, "room left in the open string = 256 + start - len", ok,
                   "TxtBuilder::append_slice computes the room left in the open character string as %s (must be 256 + start - "
                   "len: 255 octets of content behind the length octet at `start`)" % (lin,), b.where(bb))
    ctx.ob(R, b, "split point found", n >= 1, "no split_at in append_slice", nontrivial=False)
