"""C17 — RFC 1982 serial arithmetic.

C17.tree   full decision tree of <Serial as PartialOrd>::partial_cmp against
           the RFC 1982 table (finite set of orderings the function itself
           distinguishes; nothing is executed).
C17.add    Serial::add wraps and is guarded by other <= 2^31-1.
C17.deleg  Timestamp ordering delegates to Serial; no total order (Ord) for
           Serial/Timestamp; equality is plain integer equality.
C17.use    serial numbers / signature times are never ordered or subtracted
           as raw integers outside wire-order (canonical) impls.
"""
import re

from mirlib import BranchFacts, strip, deep_strip, show, walk, const_value
from rulelib import bool_facts, canon_nobb, return_assignments, upper_bounds

HALF = 0x8000_0000

REFERENCE = {
    ("=", None): "Equal",
    ("<", "<"): "Less",
    ("<", ">"): "Greater",
    ("<", "="): None,
    (">", "<"): "Greater",
    (">", ">"): "Less",
    (">", "="): None,
}

ORDERING_BY_VALUE = {255: "Less", -1: "Less", 0: "Equal", 1: "Greater"}
REL_OF_VARIANT = {"Less": "<", "Equal": "=", "Greater": ">"}
BOOL_REL = {
    ("Lt", True): "<", ("Lt", False): "=>",
    ("Le", True): "<=", ("Le", False): ">",
    ("Gt", True): ">", ("Gt", False): "<=",
    ("Ge", True): ">=", ("Ge", False): "<",
    ("Eq", True): "=", ("Eq", False): "<>",
    ("Ne", True): "<>", ("Ne", False): "=",
}
FLIP = {"<": ">", ">": "<", "=": "="}


def run(ctx):
    F = ctx.facts
    ctx.extra["explanation"] = (
        "C17: path enumeration of Serial::partial_cmp abstracted to the orderings it tests, compared "
        "with the RFC 1982 table; add precondition + wrapping; Timestamp delegation; no Ord impl; "
        "raw-integer ordering/subtraction of serials and timestamps at use sites."
    )
    rule_tree(ctx, F)
    rule_add(ctx, F)
    rule_deleg(ctx, F)
    rule_use(ctx, F)


# ---------------------------------------------------------------------------

def _edge_constraints(b, bb, F):
    """{label: (lhs, rhs, relset)} for a switch on an integer comparison."""
    t = b.blocks[bb]["t"]
    term = strip(b.term_of_operand(t["d"]), calls=False)
    out = {}
    if t["ty"] == "bool":
        pol = True
        while term[0] == "un" and term[1] == "Not":
            pol = not pol
            term = strip(term[2], calls=False)
        if term[0] != "bin" or (term[1], True) not in BOOL_REL:
            return None
        lhs, rhs = deep_strip(term[2]), deep_strip(term[3])
        for s, lab in b.succs(bb):
            raw = (lab == ("o",)) if [v for v, _ in t["v"]] == [0] else (lab != ("o",))
            val = raw if pol else (not raw)
            out[lab] = (lhs, rhs, set(BOOL_REL[(term[1], val)]))
        return out
    if term[0] == "discr" and term[2] == "core::cmp::Ordering":
        inner = strip(term[1], calls=False)
        if not (inner[0] == "call" and inner[1] and inner[1].endswith("Ord::cmp")
                and inner[4][:1] == ("u32",)):
            return None
        lhs, rhs = deep_strip(inner[3][0]), deep_strip(inner[3][1])
        listed = set()
        for v, tb in t["v"]:
            nm = ORDERING_BY_VALUE.get(v)
            if nm is None:
                return None
            listed.add(REL_OF_VARIANT[nm])
            out[("v", v)] = (lhs, rhs, {REL_OF_VARIANT[nm]})
        out[("o",)] = (lhs, rhs, {"<", "=", ">"} - listed)
        return out
    return None


def rule_tree(ctx, F):
    R = "C17.tree"
    ctx.floor(R, 8)
    b = F.body("<base::serial::Serial as core::cmp::PartialOrd>::partial_cmp")
    if not ctx.anchor(R, "<Serial as PartialOrd>::partial_cmp", b):
        return
    if b.back_edges():
        ctx.ob(R, b, "shape", False, "shape not recognised: partial_cmp contains a loop")
        return
    A = ("field", ("arg", 1), "0")
    B = ("field", ("arg", 2), "0")
    paths = []  # (constraints, result)
    bad_shape = []

    def leaf_value(bb, cons):
        # value of _0 assigned in this block
        for st in b.blocks[bb]["s"]:
            if st[0] == "=" and st[1] == [0]:
                t = deep_strip(b.term_of_rvalue(st[2]))
                if t[0] == "agg" and t[1][:2] == ("adt", "core::option::Option"):
                    if t[1][2] == "None":
                        return ("val", None)
                    inner = deep_strip(t[2][0])
                    if inner[0] == "agg" and inner[1][:2] == ("adt", "core::cmp::Ordering"):
                        return ("val", inner[1][2])
                    # Some(x.cmp(y)) style
                    return ("term", inner)
                return ("term", t)
        return None

    def dfs(bb, cons, val, depth):
        if depth > 200:
            bad_shape.append("path too long")
            return
        lv = leaf_value(bb, cons)
        if lv is not None:
            val = lv
        t = b.blocks[bb]["t"]
        if t["k"] == "ret":
            paths.append((cons, val))
            return
        if t["k"] == "unreachable":
            return
        if t["k"] == "switch":
            ec = _edge_constraints(b, bb, F)
            if ec is None:
                bad_shape.append("switch at %s not an integer ordering test" % b.where(bb))
                return
            for s, lab in b.succs(bb):
                lhs, rhs, rel = ec[lab]
                if not rel:
                    continue
                dfs(s, cons + [(lhs, rhs, frozenset(rel))], val, depth + 1)
            return
        if t["k"] == "assert":
            # overflow assertion on a subtraction: record operand order, must not fail
            dfs(t["t"], cons + [("assert", t["msg"], None)], val, depth + 1)
            return
        for s, lab in b.succs(bb):
            dfs(s, cons, val, depth + 1)

    dfs(0, [], None, 0)
    if bad_shape:
        ctx.ob(R, b, "shape", False, "shape not recognised: %s" % "; ".join(sorted(set(bad_shape))))
        return
    # classify each path
    table = {}
    problems = []
    for cons, val in paths:
        r1 = {"<", "=", ">"}
        r2 = {"<", "=", ">"}
        subs = []
        for c in cons:
            if c[0] == "assert":
                continue
            lhs, rhs, rel = c
            rel = set(rel)
            if lhs == A and rhs == B:
                r1 &= rel
            elif lhs == B and rhs == A:
                r1 &= {FLIP[x] for x in rel}
            elif lhs[0] == "bin" and lhs[1] == "Sub" and const_value(rhs) is not None:
                if const_value(rhs) != HALF:
                    problems.append("difference compared with %#x instead of 0x80000000" % const_value(rhs))
                subs.append((deep_strip(lhs[2]), deep_strip(lhs[3])))
                r2 &= rel
            elif rhs[0] == "bin" and rhs[1] == "Sub" and const_value(lhs) is not None:
                if const_value(lhs) != HALF:
                    problems.append("difference compared with %#x instead of 0x80000000" % const_value(lhs))
                subs.append((deep_strip(rhs[2]), deep_strip(rhs[3])))
                r2 &= {FLIP[x] for x in rel}
            else:
                problems.append("unrecognised comparison %s vs %s" % (show(lhs), show(rhs)))
        if val is None or val[0] != "val":
            problems.append("a path returns a non-constant value (%s)" % (val,))
            continue
        for x in sorted(r1):
            # operand order of the subtraction must match the branch (no underflow)
            for (m, s) in subs:
                if x == "<" and not (m == B and s == A):
                    problems.append("on the a<b branch the difference is not other - self")
                if x == ">" and not (m == A and s == B):
                    problems.append("on the a>b branch the difference is not self - other")
            if x == "=":
                key = ("=", None)
                if key in table and table[key] != val[1]:
                    problems.append("case a=b maps to two results")
                table[key] = val[1]
                continue
            if not subs:
                for y in ("<", "=", ">"):
                    key = (x, y)
                    if key in table and table[key] != val[1]:
                        problems.append("case %s maps to two results" % (key,))
                    table[key] = val[1]
                continue
            for y in sorted(r2):
                key = (x, y)
                if key in table and table[key] != val[1]:
                    problems.append("case %s maps to two results" % (key,))
                table[key] = val[1]
    ctx.ob(R, b, "shape", not problems, "; ".join(sorted(set(problems))),
           detail="%d paths enumerated" % len(paths))
    names = {("=", None): "a=b", ("<", "<"): "a<b, b-a<2^31", ("<", ">"): "a<b, b-a>2^31",
             ("<", "="): "a<b, b-a=2^31", (">", "<"): "a>b, a-b<2^31", (">", ">"): "a>b, a-b>2^31",
             (">", "="): "a>b, a-b=2^31"}
    for key, want in REFERENCE.items():
        got = table.get(key, "missing")
        ctx.ob(R, b, "case %s" % names[key], got == want,
               "RFC 1982 requires %s, function yields %s" % (want, got))
    ctx.extra.setdefault("coverage", {})["decision_table"] = {names[k]: v for k, v in table.items()}
    ctx.extra["coverage"]["exhaustive_for"] = "C17.tree: all %d CFG paths of partial_cmp" % len(paths)


# ---------------------------------------------------------------------------

def rule_add(ctx, F):
    R = "C17.add"
    ctx.floor(R, 2)
    b = F.body("base::serial::Serial::add")
    if not ctx.anchor(R, "Serial::add", b):
        return
    wa = b.calls_matching(r"<impl u32>::wrapping_add$")
    plain = [bi for bi in b.reachable_blocks() for st in b.blocks[bi]["s"]
             if st[0] == "=" and st[2][0] == "bin" and st[2][1] in ("AddWithOverflow", "Add")]
    ok = len(wa) == 1 and not plain
    if ok:
        args = [deep_strip(b.term_of_operand(a)) for a in wa[0][1]["args"]]
        ok = args == [("field", ("arg", 1), "0"), ("arg", 2)]
    ctx.ob(R, b, "wrapping add of (self.0, other)", ok,
           "Serial::add must compute self.0.wrapping_add(other) (checked `+` panics at the wrap-around)")
    if wa:
        ubs = upper_bounds(b, wa[0][0], lambda t: deep_strip(t) == ("arg", 2), F)
        best = min([u[0] for u in ubs], default=None)
        ctx.ob(R, b, "precondition other <= 2^31-1", best is not None and best <= HALF,
               "the addition must be dominated by other <= 0x7FFF_FFFF (found bound: %s)"
               % (("other < %#x" % best) if best is not None else "none"))


def rule_deleg(ctx, F):
    R = "C17.deleg"
    ctx.floor(R, 4)
    b = F.body("<rdata::dnssec::Timestamp as core::cmp::PartialOrd>::partial_cmp")
    if ctx.anchor(R, "<Timestamp as PartialOrd>::partial_cmp", b):
        cs = [(bb, t) for bb, t in b.calls()
              if (t["res"] or t["fn"]) == "<base::serial::Serial as core::cmp::PartialOrd>::partial_cmp"]
        ok = False
        if len(cs) == 1 and cs[0][1]["dest"] == [0]:
            args = [deep_strip(b.term_of_operand(a)) for a in cs[0][1]["args"]]
            ok = args == [("field", ("arg", 1), "0"), ("field", ("arg", 2), "0")]
        ctx.ob(R, b, "delegates to Serial::partial_cmp(self.0, other.0)", ok,
               "Timestamp ordering must be exactly Serial's RFC 1982 ordering")
    for ty in ("base::serial::Serial", "rdata::dnssec::Timestamp"):
        ords = [i for i in F.impls if i["self_adt"] == ty and i["trait"] == "core::cmp::Ord"]
        ctx.ob(R, ty, "no total order", not ords,
               "%s implements Ord: RFC 1982 comparison is not a total order" % ty)
        pos = [i for i in F.impls if i["self_adt"] == ty and i["trait"] == "core::cmp::PartialOrd"]
        ctx.ob(R, ty, "PartialOrd not derived", len(pos) == 1 and not pos[0]["derived"],
               "%s must have exactly one hand-written PartialOrd (a derived one compares raw integers)" % ty)


# ---------------------------------------------------------------------------

# Functions allowed to order serials/timestamps as raw integers: wire-order semantics.
def raw_ok(p):
    """Bodies allowed to treat serials as raw integers: wire-order (canonical)
    comparison impls and the implementation of Serial/Timestamp themselves."""
    if " as base::cmp::CanonicalOrd" in p and p.endswith("::canonical_cmp"):
        return True
    if p.endswith(" as core::cmp::Ord>::cmp") or re.search(r" as core::cmp::PartialOrd(<.*>)?>::partial_cmp$", p):
        return True
    for pre in ("base::serial::Serial::", "<base::serial::Serial as ", "rdata::dnssec::Timestamp::",
                "<rdata::dnssec::Timestamp as "):
        if p.startswith(pre):
            return True
    return False


SERIAL_TYS = ("base::serial::Serial", "rdata::dnssec::Timestamp")
RAW_SOURCES = re.compile(
    r"^(base::serial::Serial::into_int|rdata::dnssec::Timestamp::into_int|"
    r"<u32 as core::convert::From<base::serial::Serial>>::from)$")
CANON_CMP = re.compile(r"base::cmp::CanonicalOrd::canonical_(lt|le|gt|ge|cmp)$")


def rule_use(ctx, F):
    R = "C17.use"
    ctx.floor(R, 15)
    nsites = 0
    seen = {}
    for p, b in F.bodies.items():
        if p.startswith("new::"):
            continue
        # 1. canonical_* comparisons whose Self type is Serial/Timestamp
        for bb, t in b.calls():
            fn = t["fn"] or ""
            if CANON_CMP.search(fn) and t["targs"] and t["targs"][0] in SERIAL_TYS:
                nsites += 1
                allowed = raw_ok(p)
                ctx.ob(R, b, "%s on %s" % (fn.split("::")[-1], t["targs"][0].split("::")[-1]), allowed,
                       "serial/timestamp ordered by raw integer value (canonical order) outside a wire-order "
                       "impl: wrong across the 2^32 wrap-around; use the RFC 1982 PartialOrd", b.where(bb))
            if re.search(r"core::cmp::PartialOrd::(lt|le|gt|ge|partial_cmp)$", fn) and t["targs"] and t["targs"][0] in SERIAL_TYS:
                nsites += 1
                res = t["res"] or ""
                ctx.ob(R, b, "%s on %s#%d" % (fn.split("::")[-1], t["targs"][0].split("::")[-1], _ord(seen, p, fn)),
                       True, where=b.where(bb), detail="sequence-space comparison via %s" % (res or fn))
        # 2. raw integers obtained from a serial flowing into ordering / subtraction
        for bi in b.reachable_blocks():
            for st in b.blocks[bi]["s"]:
                if st[0] != "=" or st[2][0] != "bin":
                    continue
                op = st[2][1]
                if op not in ("Lt", "Le", "Gt", "Ge", "Sub", "SubWithOverflow"):
                    continue
                ta, tb = deep_strip(b.term_of_operand(st[2][2])), deep_strip(b.term_of_operand(st[2][3]))
                srcs = [x for x in (ta, tb) if _raw_serial(x)]
                if not srcs:
                    continue
                nsites += 1
                allowed = raw_ok(p)
                ctx.ob(R, b, "%s on raw serial integer#%d" % (op.replace("WithOverflow", ""), _ord(seen, p, op[:3])), allowed,
                       "raw u32 %s of a serial number / signature time: %s; RFC 1982 needs wrapping "
                       "arithmetic and sequence-space comparison"
                       % ("subtraction (panics or wraps when the minuend is 'older')" if op.startswith("Sub") else "ordering",
                          " vs ".join(show(x) for x in (ta, tb))), b.where(bi))
            t = b.blocks[bi]["t"]
            if t["k"] == "call" and (t["fn"] or "").endswith("Ord::cmp") and t["targs"][:1] == ["u32"]:
                args = [deep_strip(b.term_of_operand(a)) for a in t["args"]]
                if any(_raw_serial(x) for x in args):
                    nsites += 1
                    allowed = raw_ok(p)
                    ctx.ob(R, b, "u32::cmp on raw serial", allowed,
                           "serial ordered with u32::cmp outside a wire-order impl", b.where(bi))
    ctx.call_sites += nsites


def _ord(seen, p, k):
    seen[(p, k)] = seen.get((p, k), 0) + 1
    return seen[(p, k)]


def _raw_serial(t):
    for s in walk(t):
        if s[0] == "call" and s[1] and RAW_SOURCES.match(s[1]):
            return True
    return False
