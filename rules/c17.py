"""C17 — RFC 1982 serial arithmetic.

C17.tree   full decision tree of <Serial as PartialOrd>::partial_cmp against
           the RFC 1982 table (finite set of orderings the function itself
           distinguishes; nothing is executed).
C17.add    Serial::add wraps and is guarded by other <= 2^31-1.
C17.deleg  Timestamp ordering delegates to Serial; no total order (Ord) for
           Serial/Timestamp; equality is plain integer equality.
C17.ixfr   the IXFR server's "client is up to date" shortcut (single-SOA reply)
           is taken on the *true* outcome of `query serial >= zone serial`;
           for a partial order `!(a < b)` is not `a >= b` (serials 2^31 apart).
C17.wrap   dates converted to signature times wrap modulo 2^32 (a plain
           truncating cast of the seconds) in Timestamp::scan and in its
           FromStr sibling alike -- never clamp.
C17.use    serial numbers / signature times are never ordered or subtracted
           as raw integers outside wire-order (canonical) impls.
"""
import re

from mirlib import BranchFacts, strip, deep_strip, show, walk, const_value
from rulelib import bool_facts, canon_nobb, return_assignments, upper_bounds

HALF = 0x8000_0000

REFERENCE = {
    ("=", None): "Equal",
    ("<", "<"): "Less",
    ("<", ">"): "Greater",
    ("<", "="): None,
    (">", "<"): "Greater",
    (">", ">"): "Less",
    (">", "="): None,
}

ORDERING_BY_VALUE = {255: "Less", -1: "Less", 0: "Equal", 1: "Greater"}
REL_OF_VARIANT = {"Less": "<", "Equal": "=", "Greater": ">"}
BOOL_REL = {
    ("Lt", True): "<", ("Lt", False): "=>",
    ("Le", True): "<=", ("Le", False): ">",
    ("Gt", True): ">", ("Gt", False): "<=",
    ("Ge", True): ">=", ("Ge", False): "<",
    ("Eq", True): "=", ("Eq", False): "<>",
    ("Ne", True): "<>", ("Ne", False): "=",
}
FLIP = {"<": ">", ">": "<", "=": "="}


def run(ctx):
    F = ctx.facts
    ctx.extra["explanation"] = (
        "C17: path enumeration of Serial::partial_cmp abstracted to the orderings it tests, compared "
        "with the RFC 1982 table; add precondition + wrapping; Timestamp delegation; no Ord impl; "
        "raw-integer ordering/subtraction of serials and timestamps at use sites."
    )
    rule_tree(ctx, F)
    rule_add(ctx, F)
    rule_ixfr(ctx, F)
    rule_wrap(ctx, F)
    rule_deleg(ctx, F)
    rule_use(ctx, F)
    rule_port(ctx, F)
    rule_inc(ctx, F)
    rule_fromts(ctx, F)


# ---------------------------------------------------------------------------

def _edge_constraints(b, bb, F):
    """{label: (lhs, rhs, relset)} for a switch on an integer comparison."""
    t = b.blocks[bb]["t"]
    term = strip(b.term_of_operand(t["d"]), calls=False)
    out = {}
    if t["ty"] == "bool":
        pol = True
        while term[0] == "un" and term[1] == "Not":
            pol = not pol
            term = strip(term[2], calls=False)
        if term[0] != "bin" or (term[1], True) not in BOOL_REL:
            return None
        lhs, rhs = deep_strip(term[2]), deep_strip(term[3])
        for s, lab in b.succs(bb):
            raw = (lab == ("o",)) if [v for v, _ in t["v"]] == [0] else (lab != ("o",))
            val = raw if pol else (not raw)
            out[lab] = (lhs, rhs, set(BOOL_REL[(term[1], val)]))
        return out
    if term[0] == "discr" and term[2] == "core::cmp::Ordering":
        inner = strip(term[1], calls=False)
        if not (inner[0] == "call" and inner[1] and inner[1].endswith("Ord::cmp")
                and inner[4][:1] == ("u32",)):
            return None
        lhs, rhs = deep_strip(inner[3][0]), deep_strip(inner[3][1])
        listed = set()
        for v, tb in t["v"]:
            nm = ORDERING_BY_VALUE.get(v)
            if nm is None:
                return None
            listed.add(REL_OF_VARIANT[nm])
            out[("v", v)] = (lhs, rhs, {REL_OF_VARIANT[nm]})
        out[("o",)] = (lhs, rhs, {"<", "=", ">"} - listed)
        return out
    return None


# ---------------------------------------------------------------------------
# abstract interpretation of a serial comparison over the seven RFC 1982 cases
# ---------------------------------------------------------------------------
#
# A case fixes r1 = the relation of the two operands as unsigned integers and
# r2 = the relation of their distance |a-b| to 2^31.  Every quantity a serial
# comparison computes is one of: an operand, a distance (exact, absolute or
# wrapping), a constant, a boolean, an Ordering, an Option<Ordering>.  Each
# MIR statement is evaluated over these abstract values; a switch whose
# discriminant the case does not determine, or an operation outside the
# vocabulary (signed casts, checked arithmetic, ...), makes the shape
# "not recognised" (fail closed).  Nothing is executed on concrete numbers.

CASES = [("=", None), ("<", "<"), ("<", "="), ("<", ">"), (">", "<"), (">", "="), (">", ">")]
ORD_OF_REL = {"<": "Less", "=": "Equal", ">": "Greater"}
ORD_DISCR = {"Less": 255, "Equal": 0, "Greater": 1}


class Unknown(Exception):
    pass


def _rel_values(x, y, case):
    """relation '<' '=' '>' between two abstract integers under the case"""
    r1, r2 = case
    if x[0] == "const" and y[0] == "const":
        return "<" if x[1] < y[1] else "=" if x[1] == y[1] else ">"
    if x[0] == "op" and y[0] == "op":
        if x[1] == y[1]:
            return "="
        return r1 if (x[1], y[1]) == ("A", "B") else FLIP[r1]
    if x[0] == "dist" and y[0] == "const":
        k = y[1]
        kind = x[1]
        if r1 == "=":
            d_vs = lambda kk: "<" if 0 < kk else "=" if kk == 0 else ">"
            return d_vs(k)
        # exact distance |a-b| unless a wrapping difference taken the "wrong way round"
        wrong = (kind == "wb-a" and r1 == ">") or (kind == "wa-b" and r1 == "<")
        if kind in ("b-a", "a-b") and ((kind == "b-a") != (r1 == "<")):
            raise Unknown("difference %s underflows on the a%sb branch" % (kind, r1))
        if k == HALF:
            return FLIP[r2] if wrong and r2 != "=" else r2
        if k == 0:
            return ">"
        raise Unknown("distance compared with %#x instead of 0x80000000" % k)
    if x[0] == "const" and y[0] == "dist":
        return FLIP[_rel_values(y, x, case)]
    raise Unknown("comparison of %s with %s" % (x[0], y[0]))


def _abstract_run(b, F, case, a_pred, b_pred):
    """abstract result ('None' | 'Less' | 'Equal' | 'Greater') of the body under one case"""
    env = {}

    def place(pl):
        # operands: (*_1).0 / (*_2).0 (possibly via .get())
        if a_pred(pl):
            return ("op", "A")
        if b_pred(pl):
            return ("op", "B")
        v = env.get(pl[0])
        for pr in pl[1:]:
            if pr == "*":
                if v is not None and v[0] == "ref":
                    v = v[1]
                continue
            if isinstance(pr, list) and pr[0] == "." and v is not None and v[0] == "tuple":
                v = v[1][pr[1]] if pr[1] < len(v[1]) else None
            elif isinstance(pr, list) and pr[0] == "as":
                continue
            else:
                v = None
        if v is None:
            raise Unknown("value of place %s" % (pl,))
        return v

    def operand(o):
        if o[0] in ("c", "m"):
            return place(o[1])
        if o[0] == "k":
            if isinstance(o[2], bool):
                return ("bool", o[2])
            if isinstance(o[2], int):
                return ("bool", bool(o[2])) if o[1] == "bool" else ("const", o[2])
        raise Unknown("operand %s" % (o[:2],))

    def rvalue(rv):
        k = rv[0]
        if k == "use":
            return operand(rv[1])
        if k in ("ref", "ptr"):
            try:
                return ("ref", place(rv[2]))
            except Unknown:
                raise
        if k == "deref":
            return place(rv[1])
        if k == "cast":
            v = operand(rv[2])
            if v[0] == "const" and rv[1] == "IntToInt" and not rv[3].startswith("i"):
                return v
            if v[0] in ("op", "dist") and rv[3] in ("u32", "u64", "usize") and rv[4] in ("u32",):
                return v
            raise Unknown("cast %s -> %s" % (rv[4], rv[3]))
        if k == "agg":
            kind = rv[1]
            if kind[0] == "tuple":
                return ("tuple", [operand(o) for o in rv[2]])
            if kind[0] == "adt" and kind[1] == "core::cmp::Ordering":
                return ("ord", kind[2])
            if kind[0] == "adt" and kind[1] == "core::option::Option":
                return ("opt", None) if kind[2] == "None" else ("opt", operand(rv[2][0]))
            raise Unknown("aggregate %s" % (kind[:2],))
        if k == "discr":
            v = place(rv[1])
            if v[0] == "ord":
                return ("const", ORD_DISCR[v[1]])
            if v[0] == "opt":
                return ("const", 0 if v[1] is None else 1)
            raise Unknown("discriminant of %s" % v[0])
        if k == "un" and rv[1] == "Not":
            v = operand(rv[2])
            if v[0] == "bool":
                return ("bool", not v[1])
            raise Unknown("Not of %s" % v[0])
        if k == "bin":
            op = rv[1]
            x, y = operand(rv[2]), operand(rv[3])
            if op in ("Eq", "Ne", "Lt", "Le", "Gt", "Ge"):
                if x[0] == "bool" and y[0] == "bool" and op in ("Eq", "Ne"):
                    return ("bool", (x[1] == y[1]) == (op == "Eq"))
                r = _rel_values(x, y, case)
                return ("bool", {"Eq": r == "=", "Ne": r != "=", "Lt": r == "<", "Le": r != ">", "Gt": r == ">", "Ge": r != "<"}[op])
            if op in ("BitXor", "BitAnd", "BitOr") and x[0] == "bool" and y[0] == "bool":
                return ("bool", {"BitXor": x[1] != y[1], "BitAnd": x[1] and y[1], "BitOr": x[1] or y[1]}[op])
            if op in ("Shl",) and x[0] == "const" and y[0] == "const":
                return ("const", (x[1] << y[1]) & 0xFFFFFFFF)
            if op in ("Sub", "SubWithOverflow") and x[0] == "op" and y[0] == "op" and x[1] != y[1]:
                kind = "b-a" if (x[1], y[1]) == ("B", "A") else "a-b"
                under = (kind == "b-a" and case[0] == ">") or (kind == "a-b" and case[0] == "<")
                v = ("dist", kind)
                return ("tuple", [v, ("bool", under)]) if op == "SubWithOverflow" else v
            if x[0] == "const" and y[0] == "const" and op in ("Lt", "Add", "Sub"):
                pass
            raise Unknown("operation %s on %s, %s" % (op, x[0], y[0]))
        raise Unknown("rvalue %s" % k)

    bb = 0
    steps = 0
    while True:
        steps += 1
        if steps > 400:
            raise Unknown("no return reached")
        blk = b.blocks[bb]
        for st in blk["s"]:
            if st[0] != "=":
                continue
            if len(st[1]) == 1:
                try:
                    env[st[1][0]] = rvalue(st[2])
                except Unknown:
                    env.pop(st[1][0], None)   # only an error if the value is needed later
            # writes through projections are not part of the vocabulary
        t = blk["t"]
        k = t["k"]
        if k == "ret":
            v = env.get(0)
            if v is None or v[0] != "opt":
                raise Unknown("returned value is not an Option<Ordering> the case determines")
            if v[1] is None:
                return "None"
            if v[1][0] != "ord":
                raise Unknown("returned Some(%s)" % v[1][0])
            return v[1][1]
        if k in ("goto", "false", "falseunwind", "drop"):
            bb = t["t"]
            continue
        if k == "assert":
            c = operand(t["cond"])
            if c[0] != "bool":
                raise Unknown("assert on %s" % c[0])
            if c[1] != bool(t["exp"]):
                raise Unknown("panics (%s) in case a%sb" % (t["msg"][0], case[0]))
            bb = t["t"]
            continue
        if k == "switch":
            d = operand(t["d"])
            val = int(d[1]) if d[0] in ("bool", "const") else None
            if val is None:
                raise Unknown("switch on %s" % d[0])
            nxt = None
            for v, tb in t["v"]:
                if v == val:
                    nxt = tb
            bb = nxt if nxt is not None else t["o"]
            continue
        if k == "call":
            fn = t["fn"] or ""
            args = t["args"]
            res = None
            try:
                if fn.endswith("Ord::cmp") and len(args) == 2:
                    x, y = operand(args[0]), operand(args[1])
                    x = x[1] if x[0] == "ref" else x
                    y = y[1] if y[0] == "ref" else y
                    res = ("ord", ORD_OF_REL[_rel_values(x, y, case)])
                elif re.search(r"<impl u32>::abs_diff$", fn):
                    x, y = operand(args[0]), operand(args[1])
                    if x[0] == "op" and y[0] == "op" and x[1] != y[1]:
                        res = ("dist", "abs")
                elif re.search(r"<impl u32>::wrapping_sub$", fn):
                    x, y = operand(args[0]), operand(args[1])
                    if x[0] == "op" and y[0] == "op" and x[1] != y[1]:
                        res = ("dist", "wb-a" if (x[1], y[1]) == ("B", "A") else "wa-b")
                elif fn.endswith("Ordering::reverse"):
                    x = operand(args[0])
                    if x[0] == "ord":
                        res = ("ord", {"Less": "Greater", "Greater": "Less", "Equal": "Equal"}[x[1]])
                elif re.search(r"::(get|into_int|clone|to_int|into)$", fn) and len(args) == 1:
                    x = operand(args[0])
                    res = x[1] if x[0] == "ref" else x
                elif fn.endswith("PartialOrd::partial_cmp") and len(args) == 2:
                    # delegation to another serial comparison is checked by C17.deleg
                    raise Unknown("delegates to %s" % fn)
            except Unknown:
                res = None
            if t.get("dest") is not None and len(t["dest"]) == 1:
                if res is None:
                    env.pop(t["dest"][0], None)
                else:
                    env[t["dest"][0]] = res
            if t.get("t") is None:
                raise Unknown("diverges (%s) in case a%sb" % (fn.split("::")[-1], case[0]))
            bb = t["t"]
            continue
        raise Unknown("terminator %s" % k)


def serial_cmp_table(b, F, a_pred, b_pred):
    table, problems = {}, []
    for case in CASES:
        try:
            table[case] = _abstract_run(b, F, case, a_pred, b_pred)
        except Unknown as e:
            problems.append("case %s: %s" % (case, e))
    return table, problems


def _check_table(ctx, R, b, what, table, problems):
    names = {("=", None): "a=b", ("<", "<"): "a<b, b-a<2^31", ("<", ">"): "a<b, b-a>2^31",
             ("<", "="): "a<b, b-a=2^31", (">", "<"): "a>b, a-b<2^31", (">", ">"): "a>b, a-b>2^31",
             (">", "="): "a>b, a-b=2^31"}
    ctx.ob(R, b, "shape", not problems, "shape not recognised: %s" % "; ".join(sorted(set(problems)))[:600],
           detail="7 abstract cases evaluated over the MIR of %s" % what)
    for key, want in REFERENCE.items():
        got = table.get(key, "missing")
        ctx.ob(R, b, "case %s" % names[key], got == (want if want is not None else "None"),
               "RFC 1982 requires %s, %s yields %s" % (want, what, got))
    return {names[k]: v for k, v in table.items()}


def rule_ixfr(ctx, F):
    from rulelib import facts_at
    R = "C17.ixfr"
    ctx.floor(R, 1)
    bs = [b for p, b in F.bodies.items() if re.match(r"^net::server::middleware::xfr::service::XfrMiddlewareSvc::<.*>::respond_to_ixfr_query::\{closure#0\}$", p)]
    if not ctx.anchor(R, "XfrMiddlewareSvc::respond_to_ixfr_query", len(bs) == 1):
        return
    b = bs[0]
    # the shortcut: the zone's SOA answer is turned into the (only) response message
    sites = [bb for bb, t in b.calls() if (t["fn"] or "").endswith("Answer::to_message")]
    if not ctx.anchor(R, "single-SOA reply (Answer::to_message) in respond_to_ixfr_query", len(sites) >= 1, b.where()):
        return
    for bb in sites:
        pos = False
        seen = []
        for tt, v, _ in facts_at(b, bb, F):
            s = deep_strip(tt)
            if s[0] == "call" and re.search(r"PartialOrd(<.*>)?>?::(ge|le|gt|lt)$", s[1] or "") and "serial" in show(s):
                op = s[1].split("::")[-1]
                seen.append((op, v))
                a0 = show(deep_strip(s[3][0]))
                zone_first = "serial(" in a0          # zone serial on the left: zone <= query
                if v is True and ((op == "ge" and not zone_first) or (op == "le" and zone_first)):
                    pos = True
        ctx.ob(R, b, "the up-to-date reply needs `query serial >= zone serial` to be true", pos,
               "respond_to_ixfr_query answers with the single SOA ('you are up to date') on %s: for serials whose order is "
               "undefined (exactly 2^31 apart) a negated comparison is true, and a client that is two steps behind is told it "
               "has the current version" % (", ".join("%s == %s" % x for x in seen) or "no serial comparison at all"), b.where(bb))


def rule_wrap(ctx, F):
    R = "C17.wrap"
    ctx.floor(R, 2)
    n = 0
    for p, b in sorted(F.bodies.items()):
        if not re.match(r"^rdata::dnssec::Timestamp::scan::<.*>::\{closure#0\}$|^rdata::dnssec::Timestamp::scan::\{closure#0\}$|"
                        r"^<rdata::dnssec::Timestamp as core::str::FromStr>::from_str$", p):
            continue
        for bi in sorted(b.reachable_blocks()):
            for st in b.blocks[bi]["s"]:
                if st[0] != "=" or st[2][0] != "agg" or st[2][1][0] != "adt" or not str(st[2][1][1]).endswith("serial::Serial"):
                    continue
                v = b.term_of_operand(st[2][2][0])
                if "as_second" not in show(v):
                    continue
                n += 1
                x = strip(v, calls=False)
                plain = x[0] == "cast"
                inner = x
                while inner[0] == "cast":
                    inner = strip(inner[2], calls=False)
                plain = plain and inner[0] == "call" and (inner[1] or "").endswith("as_second")
                ctx.ob(R, b, "date -> signature time #%d is a wrapping cast" % n, plain,
                       "%s turns the date's seconds into a signature time with %s instead of a truncating cast: dates beyond the "
                       "32-bit range no longer wrap (RFC 4034 3.1.5 uses serial number arithmetic), and the text reader and "
                       "FromStr disagree" % (p.split("::")[2] + "::" + p.split("::")[3].split("::")[0], show(deep_strip(v))[:90]), b.where(bi))
    ctx.ob(R, "rdata::dnssec::Timestamp", "both text readers convert dates", n >= 2,
           "expected a date conversion in Timestamp::scan and in FromStr, found %d" % n, nontrivial=False)


def rule_tree(ctx, F):
    R = "C17.tree"
    ctx.floor(R, 8)
    b = F.body("<base::serial::Serial as core::cmp::PartialOrd>::partial_cmp")
    if not ctx.anchor(R, "<Serial as PartialOrd>::partial_cmp", b):
        return
    a_pl = lambda pl: pl == [1, "*", [".", 0, "0"]]
    b_pl = lambda pl: pl == [2, "*", [".", 0, "0"]]
    table, problems = serial_cmp_table(b, F, a_pl, b_pl)
    shown = _check_table(ctx, R, b, "Serial::partial_cmp", table, problems)
    ctx.extra.setdefault("coverage", {})["decision_table"] = shown
    ctx.extra["coverage"]["exhaustive_for"] = "C17.tree: the seven RFC 1982 cases, abstractly evaluated over the MIR of partial_cmp"
    # the serial type of the new codec orders the same way
    nb = F.body("<new::base::serial::Serial as core::cmp::PartialOrd>::partial_cmp")
    if nb is not None:
        t2, p2 = serial_cmp_table(nb, F, a_pl, b_pl)
        shown2 = _check_table(ctx, R, nb, "new::base::serial::Serial::partial_cmp", t2, p2)
        ctx.extra["coverage"]["decision_table_new_codec"] = shown2


# ---------------------------------------------------------------------------

def rule_add(ctx, F):
    R = "C17.add"
    ctx.floor(R, 2)
    b = F.body("base::serial::Serial::add")
    if not ctx.anchor(R, "Serial::add", b):
        return
    wa = b.calls_matching(r"<impl u32>::wrapping_add$")
    plain = [bi for bi in b.reachable_blocks() for st in b.blocks[bi]["s"]
             if st[0] == "=" and st[2][0] == "bin" and st[2][1] in ("AddWithOverflow", "Add")]
    ok = len(wa) == 1 and not plain
    if ok:
        args = [deep_strip(b.term_of_operand(a)) for a in wa[0][1]["args"]]
        ok = args == [("field", ("arg", 1), "0"), ("arg", 2)]
    ctx.ob(R, b, "wrapping add of (self.0, other)", ok,
           "Serial::add must compute self.0.wrapping_add(other) (checked `+` panics at the wrap-around)")
    if wa:
        # the precondition must hold wherever the sum is handed out (the normal return); the pure
        # wrapping_add itself may be computed before the assertion
        sites = [wa[0][0]] + [rb for rb in b.return_blocks()]
        best = None
        for s in sites:
            ubs = upper_bounds(b, s, lambda t: deep_strip(t) == ("arg", 2), F)
            m = min([u[0] for u in ubs], default=None)
            if m is not None and (best is None or m < best):
                best = m
        ctx.ob(R, b, "precondition other <= 2^31-1", best is not None and best <= HALF,
               "the addition must be dominated by other <= 0x7FFF_FFFF (found bound: %s)"
               % (("other < %#x" % best) if best is not None else "none"))


def rule_deleg(ctx, F):
    R = "C17.deleg"
    ctx.floor(R, 4)
    b = F.body("<rdata::dnssec::Timestamp as core::cmp::PartialOrd>::partial_cmp")
    if ctx.anchor(R, "<Timestamp as PartialOrd>::partial_cmp", b):
        cs = [(bb, t) for bb, t in b.calls()
              if (t["res"] or t["fn"]) == "<base::serial::Serial as core::cmp::PartialOrd>::partial_cmp"]
        ok = False
        if len(cs) == 1 and cs[0][1]["dest"] == [0]:
            args = [deep_strip(b.term_of_operand(a)) for a in cs[0][1]["args"]]
            ok = args == [("field", ("arg", 1), "0"), ("field", ("arg", 2), "0")]
        ctx.ob(R, b, "delegates to Serial::partial_cmp(self.0, other.0)", ok,
               "Timestamp ordering must be exactly Serial's RFC 1982 ordering")
    for ty in ("base::serial::Serial", "rdata::dnssec::Timestamp"):
        ords = [i for i in F.impls if i["self_adt"] == ty and i["trait"] == "core::cmp::Ord"]
        ctx.ob(R, ty, "no total order", not ords,
               "%s implements Ord: RFC 1982 comparison is not a total order" % ty)
        pos = [i for i in F.impls if i["self_adt"] == ty and i["trait"] == "core::cmp::PartialOrd"]
        ctx.ob(R, ty, "PartialOrd not derived", len(pos) == 1 and not pos[0]["derived"],
               "%s must have exactly one hand-written PartialOrd (a derived one compares raw integers)" % ty)


# ---------------------------------------------------------------------------

# Functions allowed to order serials/timestamps as raw integers: wire-order semantics.
def raw_ok(p):
    """Bodies allowed to treat serials as raw integers: wire-order (canonical)
    comparison impls and the implementation of Serial/Timestamp themselves."""
    if " as base::cmp::CanonicalOrd" in p and p.endswith("::canonical_cmp"):
        return True
    if p.endswith(" as core::cmp::Ord>::cmp") or re.search(r" as core::cmp::PartialOrd(<.*>)?>::partial_cmp$", p):
        return True
    for pre in ("base::serial::Serial::", "<base::serial::Serial as ", "rdata::dnssec::Timestamp::",
                "<rdata::dnssec::Timestamp as ", "new::base::serial::Serial::", "<new::base::serial::Serial as ",
                "new::rdata::dnssec::rrsig::Timestamp::", "<new::rdata::dnssec::rrsig::Timestamp as "):
        if p.startswith(pre):
            return True
    return False


SERIAL_TYS = ("base::serial::Serial", "rdata::dnssec::Timestamp", "new::base::serial::Serial", "new::rdata::dnssec::rrsig::Timestamp")
RAW_SOURCES = re.compile(
    r"^(base::serial::Serial::into_int|rdata::dnssec::Timestamp::into_int|"
    r"<u32 as core::convert::From<base::serial::Serial>>::from|"
    r"new::base::serial::Serial::get|<u32 as core::convert::From<new::base::serial::Serial>>::from|"
    r"new::rdata::dnssec::rrsig::Timestamp::into_int)$")
CANON_CMP = re.compile(r"base::cmp::CanonicalOrd::canonical_(lt|le|gt|ge|cmp)$")


def rule_use(ctx, F):
    R = "C17.use"
    ctx.floor(R, 15)
    nsites = 0
    seen = {}
    for p, b in F.bodies.items():
        # 1. canonical_* comparisons whose Self type is Serial/Timestamp
        for bb, t in b.calls():
            fn = t["fn"] or ""
            if CANON_CMP.search(fn) and t["targs"] and t["targs"][0] in SERIAL_TYS:
                nsites += 1
                allowed = raw_ok(p)
                ctx.ob(R, b, "%s on %s" % (fn.split("::")[-1], t["targs"][0].split("::")[-1]), allowed,
                       "serial/timestamp ordered by raw integer value (canonical order) outside a wire-order "
                       "impl: wrong across the 2^32 wrap-around; use the RFC 1982 PartialOrd", b.where(bb))
            if re.search(r"core::cmp::PartialOrd::(lt|le|gt|ge|partial_cmp)$", fn) and t["targs"] and t["targs"][0] in SERIAL_TYS:
                nsites += 1
                res = t["res"] or ""
                ctx.ob(R, b, "%s on %s#%d" % (fn.split("::")[-1], t["targs"][0].split("::")[-1], _ord(seen, p, fn)),
                       True, where=b.where(bb), detail="sequence-space comparison via %s" % (res or fn))
        # 2. raw integers obtained from a serial flowing into ordering / subtraction
        for bi in b.reachable_blocks():
            for st in b.blocks[bi]["s"]:
                if st[0] != "=" or st[2][0] != "bin":
                    continue
                op = st[2][1]
                if op not in ("Lt", "Le", "Gt", "Ge", "Sub", "SubWithOverflow"):
                    continue
                ta, tb = deep_strip(b.term_of_operand(st[2][2])), deep_strip(b.term_of_operand(st[2][3]))
                srcs = [x for x in (ta, tb) if _raw_serial(x)]
                if not srcs:
                    continue
                nsites += 1
                allowed = raw_ok(p)
                ctx.ob(R, b, "%s on raw serial integer#%d" % (op.replace("WithOverflow", ""), _ord(seen, p, op[:3])), allowed,
                       "raw u32 %s of a serial number / signature time: %s; RFC 1982 needs wrapping "
                       "arithmetic and sequence-space comparison"
                       % ("subtraction (panics or wraps when the minuend is 'older')" if op.startswith("Sub") else "ordering",
                          " vs ".join(show(x) for x in (ta, tb))), b.where(bi))
            t = b.blocks[bi]["t"]
            # 3. arithmetic that does not wrap (saturating / checked / plain `+`) on the raw integer of a serial: sequence-space
            #    arithmetic is modulo 2^32 (Serial::add, wrapping_add / wrapping_sub)
            if t["k"] == "call" and re.search(r"<impl u32>::(saturating_add|saturating_sub|checked_add|checked_sub|abs_diff|max|min|pow)$", t["fn"] or ""):
                args = [deep_strip(b.term_of_operand(a)) for a in t["args"]]
                if any(_raw_serial(x) for x in args):
                    nsites += 1
                    nm = t["fn"].split("::")[-1]
                    ctx.ob(R, b, "%s on raw serial integer#%d" % (nm, _ord(seen, p, nm)), raw_ok(p),
                           "u32::%s applied to the raw value of a serial number / signature time (%s): it does not wrap at 2^32, so "
                           "the result is wrong (stuck, clamped or None) exactly when the serial is about to wrap; use Serial::add or "
                           "wrapping arithmetic" % (nm, " , ".join(show(x)[:80] for x in args)), b.where(bi))
            for st in b.blocks[bi]["s"]:
                if st[0] == "=" and st[2][0] == "bin" and st[2][1] in ("Add", "AddWithOverflow", "Mul", "MulWithOverflow"):
                    ta, tb_ = deep_strip(b.term_of_operand(st[2][2])), deep_strip(b.term_of_operand(st[2][3]))
                    if _raw_serial(ta) or _raw_serial(tb_):
                        nsites += 1
                        opn = st[2][1].replace("WithOverflow", "")
                        ctx.ob(R, b, "%s on raw serial integer#%d" % (opn, _ord(seen, p, opn)), raw_ok(p),
                               "plain `%s` on the raw value of a serial number / signature time: panics (debug) or is wrong at the "
                               "2^32 wrap; use Serial::add or wrapping arithmetic" % ("+" if opn == "Add" else "*"), b.where(bi))
            if t["k"] == "call" and (t["fn"] or "").endswith("Ord::cmp") and t["targs"][:1] == ["u32"]:
                args = [deep_strip(b.term_of_operand(a)) for a in t["args"]]
                if any(_raw_serial(x) for x in args):
                    nsites += 1
                    allowed = raw_ok(p)
                    ctx.ob(R, b, "u32::cmp on raw serial", allowed,
                           "serial ordered with u32::cmp outside a wire-order impl", b.where(bi))
    ctx.call_sites += nsites


def _ord(seen, p, k):
    seen[(p, k)] = seen.get((p, k), 0) + 1
    return seen[(p, k)]


def _raw_serial(t):
    for s in walk(t):
        if s[0] == "call" and s[1] and RAW_SOURCES.match(s[1]):
            return True
    return False


def rule_inc(ctx, F):
    """(C17.add) The new codec's Serial::inc adds modulo 2^32: its result comes out of a wrapping addition, and no
    checked / saturating operation (whose "overflow" case would then be mapped to some fixed value) is involved."""
    R = "C17.add"
    b = F.one_body(r"^new::base::serial::Serial::inc$")
    if not ctx.anchor(R, "new::base::serial::Serial::inc", b):
        return
    names = [re.sub(r"<[^<>]*>", "", t["fn"] or "").split("::")[-1] for _, t in b.calls()]
    wraps = [n for n in names if n in ("wrapping_add_signed", "wrapping_add", "wrapping_sub", "wrapping_sub_unsigned")]
    others = [n for n in names if re.match(r"^(checked_|saturating_|overflowing_|unwrap_or|unwrap_or_default|unwrap_or_else|strict_)", n)]
    ctx.ob(R, b, "new Serial::inc adds modulo 2^32", bool(wraps) and not others,
           "the new codec's Serial::inc computes its result with %s instead of a wrapping addition: increments that cross 2^32 "
           "collapse to one value, so `a < b` no longer implies `a.inc(n) < b.inc(n)`" % (sorted(set(others)) or "no wrapping operation"), b.where())


PORTED = [
    # (established function, its copy in the new codec, what it computes)
    (r"^rdata::dnssec::Timestamp::to_system_time$", r"^new::rdata::dnssec::rrsig::Timestamp::to_system_time$",
     "the SystemTime nearest to a reference time for a 32-bit signature time"),
]


def rule_port(ctx, F):
    """The new codec carries copies of the established sequence-space conversions.  A copy decides like the original:
    the same conditions lead to the same values (decision tables extracted from the MIR of both -- conditions in every
    equivalent spelling, calls by name, constants by value -- and compared as sets)."""
    from rulelib import decision_table
    R = "C17.port"
    ctx.floor(R, 1)
    for old_rx, new_rx, what in PORTED:
        ob_, nb_ = F.one_body(old_rx), F.one_body(new_rx)
        if not ctx.anchor(R, "established and new-codec copy of " + what, ob_ is not None and nb_ is not None):
            continue
        ta, tb = decision_table(ob_, F), decision_table(nb_, F)
        if not ctx.anchor(R, "decision tables of both copies", len(ta) >= 3 and len(tb) >= 3, nb_.where()):
            continue
        only_new = sorted(tb - ta, key=str)
        only_old = sorted(ta - tb, key=str)

        def brief(row):
            conds = sorted("%s=%s" % (_brief(s), v) for s, v in row[0] if v is True)
            return "%s when %s" % (_brief(row[1])[:160], "; ".join(c[:110] for c in conds[:4]) or "always")
        ctx.ob(R, nb_, "decides like %s" % ob_.path.split("::")[-1], not only_new and not only_old,
               "the new codec's %s (%s) no longer decides like the established %s: rows only in the copy: %s || rows only in the "
               "original: %s -- the two codecs then disagree on some (time, reference) pairs, typically only across a 2^32 boundary"
               % (nb_.path.split("::")[-1], what, ob_.path, " | ".join(brief(r) for r in only_new[:2]), " | ".join(brief(r) for r in only_old[:2])),
               nb_.where())


def _brief(s):
    if isinstance(s, tuple):
        if s and s[0] == "call":
            return "%s(%s)" % (s[1].split("::")[-1], ", ".join(_brief(a) for a in s[2]))
        if s and s[0] == "bin":
            return "(%s %s %s)" % (_brief(s[2]), s[1], _brief(s[3]))
        if s and s[0] == "k":
            return str(s[1])
        if s and s[0] == "cast":
            return _brief(s[1])
        if s and s[0] == "phi":
            return "phi"
        if s and s[0] == "arg":
            return "arg%s" % s[1]
        return "(" + " ".join(_brief(x) for x in s) + ")"
    if isinstance(s, frozenset):
        return "{..}"
    return str(s)


def rule_fromts(ctx, F):
    """Serial numbers made from a point in time are that time's seconds *modulo 2^32* -- a plain truncating cast --
    so that adding d to the time adds d to the serial, before and after the epoch and across every wrap.  (An absolute
    value, a clamp or a checked conversion all break `from(t + d) == from(t) + d`.)"""
    R = "C17.fromts"
    ctx.floor(R, 1)
    b = F.one_body(r"^<base::serial::Serial as core::convert::From<jiff::(timestamp::)?Timestamp>>::from$")
    if not ctx.anchor(R, "<Serial as From<jiff::Timestamp>>::from", b):
        return
    n = 0
    for bi in b.reachable_blocks():
        for st in b.blocks[bi]["s"]:
            if st[0] == "=" and st[2][0] == "agg" and st[2][1][0] == "adt" and st[2][1][1].endswith("serial::Serial"):
                n += 1
                tm = b.term_of_operand(st[2][2][0])
                ok = tm[0] == "cast" and tm[1] == "IntToInt" and tm[3] == "u32" and tm[2][0] == "call" and \
                    (tm[2][1] or "").endswith("Timestamp::as_second") and tm[2][3] == [("arg", 1)]
                ctx.ob(R, b, "Serial::from(Timestamp) is as_second() reduced modulo 2^32", ok,
                       "<Serial as From<jiff::Timestamp>>::from builds the serial from %s instead of `value.as_second() as u32`: "
                       "the map from time to serial is no longer a homomorphism (a later time can get a smaller serial)" % show(tm)[:100],
                       b.where(bi))
    ctx.anchor(R, "Serial(..) in From<Timestamp>", n >= 1, b.where())
