"""C20 — client cache (structural clauses).

C20.exp    Value::get_response ages and serves an entry only on the
           not-expired edge (elapsed > valid_for is false); the decrement amount
           is that same elapsed time.
C20.ttl    decrement_ttl: in all three record sections every non-OPT record
           gets set_ttl(ttl - amount) before being pushed; never an addition.
C20.age    created_at = Instant::now() only in Value::new, which is called only
           with a fresh upstream response; every derived entry (flag variants,
           header rewrites, error conversion) inherits the original created_at.
C20.cap    validity(): start at max_validity; NODATA / delegation / NXDOMAIN /
           other error / transport failure are each capped by their own Config
           field; every record TTL of all three sections is folded with min;
           truncated responses get zero unless configured.
C20.strip  a value found under a key with more DNSSEC flags reaches the caller
           only through remove_dnssec / update_header, parameterised by the
           *requested* key's AD flag.
C20.ins    nothing with zero validity is inserted.
C20.key    each flag parameter of Key::new receives the value read from the flag
           of the same name (header.ad / cd / rd, OPT dnssec_ok), and Key::new
           stores each in the field of that name.
C20.cls    classify_no_error calls a response an answer only for a record of
           the *queried* type and class (a CNAME chain ending in nothing is a
           negative answer).
C20.total  no unwrap/expect on the next item of a section iterator of an
           upstream message (the question of a response may be missing).
"""
import re

from mirlib import BranchFacts, strip, deep_strip, show, walk, const_value
from rulelib import (
    bool_facts, facts_at, fmt_path, must_pass, names_in_term, outcome_facts, relations, return_assignments, succeeded_calls,
)

C = "net::client::cache::"


def run(ctx):
    F = ctx.facts
    ctx.extra["explanation"] = (
        "C20: expiry dominance, TTL decrement dataflow in three sections, who-may-stamp created_at, "
        "arm-to-config-field table of validity(), DNSSEC stripping provenance, zero-validity insert guard. "
        "Clock behaviour, moka eviction and completeness of the flag lattice are not decided."
    )
    rule_exp(ctx, F)
    rule_ttl(ctx, F)
    rule_age(ctx, F)
    rule_cap(ctx, F)
    rule_strip(ctx, F)
    rule_ins(ctx, F)
    rule_total(ctx, F)
    rule_key(ctx, F)
    rule_cls(ctx, F)
    rule_cfg(ctx, F)
    rule_replay(ctx, F)
    rule_ownkey(ctx, F)
    rule_gate(ctx, F)


def rule_exp(ctx, F):
    R = "C20.exp"
    ctx.floor(R, 3)
    b = F.one_body(r"^net::client::cache::Value::get_response$")
    if not ctx.anchor(R, "Value::get_response", b):
        return
    dec = b.calls_matching(r"cache::decrement_ttl$")
    if not ctx.anchor(R, "decrement_ttl call in Value::get_response", len(dec) == 1, b.where()):
        return
    bb, t = dec[0]
    fresh = False
    el = lambda x: x[0] == "call" and (x[1] or "").endswith("Instant::elapsed") and deep_strip(x[3][0]) == ("field", ("arg", 1), "created_at")
    vf = lambda x: x == ("field", ("arg", 1), "valid_for")
    strict = False
    for (x, rel, y) in relations(b, bb, F):
        x, y = deep_strip(x), deep_strip(y)
        if el(x) and vf(y) and rel in ("<=", "<"):
            fresh = True
            strict = strict or rel == "<"
    ctx.ob(R, b, "served only while elapsed <= valid_for", fresh,
           "Value::get_response produces a response on a path where created_at.elapsed() > valid_for was not "
           "excluded: stale entries would be served", b.where(bb))
    ctx.ob(R, b, "not served at the instant of expiry (elapsed < valid_for)", fresh and strict,
           "Value::get_response still serves an entry when created_at.elapsed() == valid_for, i.e. when its smallest "
           "TTL has just elapsed: the response goes out with a TTL of 0", b.where(bb))
    amt = deep_strip(b.term_of_operand(t["args"][2]))
    ok = any(s[0] == "call" and (s[1] or "").endswith("Duration::as_secs") for s in walk(amt)) and \
        any(s[0] == "call" and (s[1] or "").endswith("Instant::elapsed") for s in walk(amt))
    ctx.ob(R, b, "TTLs reduced by the elapsed seconds", ok,
           "the decrement amount is not the whole seconds elapsed since created_at (%s)" % show(amt)[:100], b.where(bb))
    # whatever is served -- a message or a remembered failure -- is served on the fresh side only
    k = 0
    for bi in sorted(b.reachable_blocks()):
        if b.blocks[bi].get("c"):
            continue
        for st in b.blocks[bi]["s"]:
            if st[0] == "=" and st[2][0] == "agg" and st[2][1][0] == "adt" and st[2][1][1] == "core::option::Option" and st[2][1][2] == "Some":
                k += 1
                ok = any(el(deep_strip(x)) and vf(deep_strip(y)) and rel in ("<", "<=") for (x, rel, y) in relations(b, bi, F))
                ctx.ob(R, b, "Some(..)#%d is produced on the not-expired side" % k, ok,
                       "Value::get_response returns Some(..) on a path that does not pass the age test: that entry (a remembered "
                       "failure, for instance) never expires", b.where(bi))
    nones = [r for r in return_assignments(b) if r[2] == "None"]
    expired = [r for r in nones
               if any(el(deep_strip(y)) and vf(deep_strip(x)) and rel in ("<=", "<") for (x, rel, y) in relations(b, r[0], F))]
    ctx.ob(R, b, "expired entries yield None", len(expired) >= 1,
           "no `return None` on the side where valid_for <= created_at.elapsed() (found %d None returns)" % len(nones))


def rule_ttl(ctx, F):
    R = "C20.ttl"
    ctx.floor(R, 7)
    b = F.one_body(r"^net::client::cache::decrement_ttl$")
    if not ctx.anchor(R, "decrement_ttl", b):
        return
    sets = b.calls_matching(r"Record::<.*>::set_ttl$")
    ctx.ob(R, b, "three set_ttl sites (answer, authority, additional)", len(sets) == 3, "found %d set_ttl calls" % len(sets))
    for i, (bb, t) in enumerate(sets):
        v = deep_strip(b.term_of_operand(t["args"][1]))
        is_sub = v[0] == "call" and re.search(r"Ttl as core::ops::Sub>::sub$|ops::Sub::sub$", v[1] or "") is not None
        amount_ok = False
        ttl_ok = False
        if is_sub:
            a0, a1 = deep_strip(v[3][0]), deep_strip(v[3][1])
            ttl_ok = a0[0] == "call" and (a0[1] or "").endswith("::ttl")
            amount_ok = any(s == ("arg", 3) for s in walk(a1))
        ctx.ob(R, b, "set_ttl#%d = ttl - amount" % (i + 1), is_sub and ttl_ok and amount_ok,
               "decrement_ttl must set each record's TTL to its own TTL minus the elapsed amount (found %s)" % show(v)[:100],
               b.where(bb))
    # every push of a record into answer/authority/additional is preceded by a set_ttl, except OPT
    pushes = [(bb, t) for bb, t in b.calls() if re.search(r"(AnswerBuilder|AuthorityBuilder|AdditionalBuilder)::<.*>::push$", t["fn"] or "")]
    ctx.ob(R, b, "three record pushes", len(pushes) == 3, "found %d record pushes" % len(pushes))
    setbbs = [bb for bb, _ in sets]
    for bb, t in pushes:
        sec = re.search(r"(Answer|Authority|Additional)Builder", t["fn"]).group(1)
        # nearest loop head: the section iterator's next() that dominates the push
        nexts = [nb for nb, nt in b.calls() if (nt["fn"] or "").endswith("Iterator::next") and b.dominates(nb, bb)]
        head = max(nexts, key=lambda x: sum(1 for y in nexts if b.dominates(y, x))) if nexts else 0
        ok, p = must_pass(b, head, [bb], setbbs)
        if not ok and sec == "Additional":
            # the bypass must be the OPT edge
            opt_edge = False
            for sw in b.reachable_blocks():
                tsw = b.blocks[sw]["t"]
                if tsw["k"] == "switch" and "rtype" in show(deep_strip(b.term_of_operand(tsw["d"]))) and b.dominates(head, sw):
                    opt_edge = True
            ok = opt_edge
        ctx.ob(R, b, "%s records are aged before being copied" % sec.lower(), ok,
               "a record of the %s section can be copied into the served response without its TTL being reduced; "
               "bypass %s" % (sec.lower(), fmt_path(p)), b.where(bb))
    adds = [t["fn"] for _, t in b.calls() if re.search(r"ops::Add>::add$|ops::AddAssign", t["fn"] or "") and "Ttl" in (t["fn"] or "")]
    ctx.ob(R, b, "no TTL is ever increased", not adds, "decrement_ttl adds to a TTL: %s" % adds)


def rule_age(ctx, F):
    R = "C20.age"
    ctx.floor(R, 5)
    # aggregate constructions of Value and their created_at source
    n = 0
    for p, b in F.bodies.items():
        if not p.startswith(C):
            continue
        for bi in b.reachable_blocks():
            for st in b.blocks[bi]["s"]:
                if st[0] == "=" and st[2][0] == "agg" and st[2][1][0] == "adt" and st[2][1][1] == C + "Value":
                    fields = st[2][1][3]
                    ops = st[2][2]
                    ca = deep_strip(b.term_of_operand(ops[fields.index("created_at")]))
                    n += 1
                    if p.endswith("Value::new"):
                        ok = ca[0] == "call" and (ca[1] or "").endswith("Instant::now")
                        ctx.ob(R, b, "Value::new stamps now()", ok, "Value::new must set created_at = Instant::now()", b.where(bi))
                    else:
                        vf = deep_strip(b.term_of_operand(ops[fields.index("valid_for")]))
                        capped = any(x[0] == "call" and re.search(r"cmp::(Ord::)?min(::<.*>)?$|::min$", x[1] or "") and
                                     any(y[0] == "field" and y[2] == "valid_for" for a_ in x[3] for y in walk(deep_strip(a_)))
                                     for x in walk(vf))
                        ctx.ob(R, b, "derived value does not outlive the entry it was derived from", capped,
                               "%s gives the derived entry a validity computed from the derived (stripped) message alone (%s): with "
                               "the record of smallest TTL stripped away it is served after the upstream response's smallest TTL has "
                               "elapsed -- the validity has to be min(original.valid_for, ..)" % (p.split("::")[-1], show(vf)[:80]), b.where(bi))
                        ok = ca[0] == "field" and ca[2] == "created_at"
                        ctx.ob(R, b, "derived value inherits created_at", ok,
                               "%s builds a cache entry whose created_at is %s instead of the original entry's: the "
                               "derived entry would look fresh and its TTLs would not be reduced by the time already "
                               "spent in the cache" % (p.split("::")[-1], show(ca)[:80]), b.where(bi))
    # who calls Value::new
    for cb, cbb, ct in F.callers_of(r"^net::client::cache::Value::new$"):
        ok = re.search(r"cache::Request::<CR, Upstream>::get_response_impl", cb.path) is not None
        ctx.ob(R, cb, "Value::new only for a fresh upstream response", ok,
               "%s creates a cache entry stamped `now` although it does not hold a response just received from "
               "upstream (derived entries must use new_from_value_and_response)" % cb.path.split("cache::")[-1], cb.where(cbb))
        n += 1
        if ok:
            arg = deep_strip(cb.term_of_operand(ct["args"][0]))
            up = any(s[0] == "call" and re.search(r"get_response$|GetResponse::get_response$", s[1] or "") for s in walk(arg)) or \
                any(s[0] in ("phi", "local", "resume") for s in walk(arg))
            ctx.ob(R, cb, "cached value is the upstream's response", up,
                   "the value inserted is not derived from the upstream transport's response (%s)" % show(arg)[:80], cb.where(cbb))
    ctx.call_sites += n
    # update_message / cache_insert derive through new_from_value_and_response
    for fn in ("update_message", "Request::<CR, Upstream>::cache_insert"):
        bodies = [b for p, b in F.bodies.items() if p.startswith(C + fn)]
        if not ctx.anchor(R, fn, bodies):
            continue
        calls = [t["fn"] for b in bodies for _, t in b.calls() if t["fn"] and t["fn"].startswith(C + "Value::")]
        ctx.ob(R, fn, "derives via new_from_value_and_response", calls and all(c.endswith("new_from_value_and_response") for c in calls),
               "%s builds values through %s" % (fn, sorted(set(c.split("::")[-1] for c in calls))))


CAP_TABLE = {
    # dominating condition -> Config field that must cap min_val
    "NoData": "max_nodata_validity",
    "Delegation": "max_delegation_validity",
    "NXDOMAIN": "max_nxdomain_validity",
    "other-rcode": "misc_error_duration",
}
RCODE_NAMES = {0: "NOERROR", 3: "NXDOMAIN"}


def rule_cap(ctx, F):
    R = "C20.cap"
    ctx.floor(R, 10)
    b = F.one_body(r"^net::client::cache::validity$")
    if not ctx.anchor(R, "validity", b):
        return
    mins = b.calls_matching(r"core::cmp::min$")
    found = {}
    ttl_mins = 0
    for bb, t in mins:
        args = [deep_strip(b.term_of_operand(a)) for a in t["args"]]
        cfg = [a for a in args if a[0] == "field" and a[1] == ("arg", 2)]
        if cfg:
            field = cfg[0][2]
            cond = None
            for tt, vv, e in facts_at(b, bb, F):
                s = deep_strip(tt)
                if isinstance(vv, tuple) and vv[0] == "variant" and vv[1] in ("NoData", "Delegation", "Answer", "NoErrorWeird"):
                    cond = vv[1]
                if s[0] == "field" and "opt_rcode" in show(s):
                    if isinstance(vv, tuple) and vv[0] == "eq":
                        if vv[1] == 3:
                            cond = "NXDOMAIN"
                    elif isinstance(vv, tuple) and vv[0] == "ne":
                        cond = "other-rcode"
            found[cond] = field
        elif any(s[0] == "call" and (s[1] or "").endswith("::ttl") for a in args for s in walk(a)):
            ttl_mins += 1
    for cond, want in CAP_TABLE.items():
        ctx.ob(R, b, "%s capped by config.%s" % (cond, want), found.get(cond) == want,
               "validity(): a %s response is capped by config.%s (expected config.%s): the configured bound for this "
               "class of answer has no effect" % (cond, found.get(cond), want))
    ctx.ob(R, b, "record TTLs of all three sections are folded with min", ttl_mins == 3,
           "validity() folds record TTLs in %d section loop(s), expected 3" % ttl_mins)
    # start value, transport failure, truncation
    start = False
    for bi in b.reachable_blocks():
        for st in b.blocks[bi]["s"]:
            if st[0] == "=" and len(st[1]) == 1:
                v = deep_strip(b.term_of_rvalue(st[2]))
                if v == ("field", ("arg", 2), "max_validity"):
                    start = True
    ctx.ob(R, b, "starts from config.max_validity", start, "validity() must start from max_validity")
    tf = False
    tf_capped = False
    zero_tc = False
    for rb, si, kind, term in return_assignments(b):
        if kind != "Ok" or term is None:
            continue
        v = deep_strip(term[2][0]) if term[0] == "agg" else None
        if v == ("field", ("arg", 2), "transport_failure_duration"):
            tf = True
            tf_capped = False
        elif v is not None and v[0] == "call" and (v[1] or "").endswith("cmp::min") and "transport_failure_duration" in show(v):
            tf = True
            tf_capped = "max_validity" in show(v)
        if v is not None and v[0] == "k" and (v[3] or "").endswith("Duration::ZERO"):
            fs = bool_facts(b, rb, F)
            if any(tt[0] == "call" and (tt[1] or "").endswith("Header::tc") and vv is True for tt, vv in fs) and \
                    any(tt == ("field", ("arg", 2), "cache_truncated") and vv is False for tt, vv in fs):
                zero_tc = True
    # once the rcode cap is applied, the only way out with a validity is past the scan of all three sections
    secs = [bb for bb, t in b.calls() if re.search(r"(QuestionSection::<.*>::answer|RecordSection::<.*>::next_section)$", t["fn"] or "")]
    startbb = None
    for bi in b.reachable_blocks():
        for st in b.blocks[bi]["s"]:
            if st[0] == "=" and len(st[1]) == 1 and deep_strip(b.term_of_rvalue(st[2])) == ("field", ("arg", 2), "max_validity"):
                startbb = bi
    if ctx.anchor(R, "validity(): three section steps and the start value", len(secs) == 3 and startbb is not None, b.where()):
        for rb, si, kind, term in return_assignments(b):
            if kind != "Ok" or not b.dominates(startbb, rb):
                continue
            ok = all(b.dominates(sb, rb) for sb in secs)
            ctx.ob(R, b, "a validity is answered only after the TTLs of all three sections were folded in", ok,
                   "validity() returns Ok at a point that %d of the 3 section scans do not dominate: the response is cached for the "
                   "configured cap even when it holds a record with a smaller TTL, and that record is served after it expired"
                   % sum(1 for sb in secs if not b.dominates(sb, rb)), b.where(rb))
    ctx.ob(R, b, "transport failures use transport_failure_duration", tf, "an Err response must be cached for transport_failure_duration")
    ctx.ob(R, b, "a cached transport failure is bounded by max_validity as well", tf and tf_capped,
           "validity() answers config.transport_failure_duration for a failed request without folding it with "
           "config.max_validity, the bound every other arm starts from: with max_validity = 60 s and "
           "transport_failure_duration = 300 s a failure is still served from the cache after 100 s")
    ctx.ob(R, b, "truncated responses are not cached unless configured", zero_tc,
           "a TC=1 response must get zero validity when cache_truncated is off")
    weird = False
    for bi in b.reachable_blocks():
        for st in b.blocks[bi]["s"]:
            if st[0] == "=" and len(st[1]) == 1:
                v = deep_strip(b.term_of_rvalue(st[2]))
                if v[0] == "k" and (v[3] or "").endswith("Duration::ZERO"):
                    if any(isinstance(vv, tuple) and vv == ("variant", "NoErrorWeird") for tt, vv, e in facts_at(b, bi, F)):
                        weird = True
    ctx.ob(R, b, "weird NOERROR responses are not cached", weird, "NoErrorWeird must get zero validity")


def rule_strip(ctx, F):
    R = "C20.strip"
    ctx.floor(R, 5)
    for fn, conv_rx, what in (
        ("cache_lookup_do_ad", r"cache::update_message$", "remove_dnssec"),
        ("cache_lookup_ad", r"cache::update_header$", "set_ad(false)"),
        ("cache_lookup_rd_do_ad", r"cache::update_header$", "set_rd(false)"),
    ):
        bs = [b for p, b in F.bodies.items() if re.match(r"^net::client::cache::Request::<CR, Upstream>::%s::\{closure#0\}$" % fn, p)]
        if not ctx.anchor(R, fn, len(bs) == 1):
            continue
        b = bs[0]
        conv = b.calls_matching(conv_rx)
        if not ctx.anchor(R, "%s: conversion call" % fn, len(conv) == 1, b.where()):
            continue
        cbb, ct = conv[0]
        # the alt-key hit: Some(value) returns reachable from the conversion only
        alt_gets = []
        for bb, t in b.calls():
            if re.search(r"Cache::<.*>::get$|cache_lookup_do_ad$|cache_lookup_ad$", t["fn"] or ""):
                # by role, not by name: the alternative key is a *clone* of the requested key (one of whose fields is
                # then overwritten); the requested key itself is the function's parameter
                if len(t["args"]) > 1 and any(s[0] == "call" and re.search(r"Clone(<.*>)?::clone$|Key as core::clone::Clone>::clone$", s[1] or "")
                                              for s in walk(b.term_of_operand(t["args"][1]))):
                    alt_gets.append(bb)
        ctx.anchor(R, "%s: lookup under the alternative key" % fn, len(alt_gets) >= 1, b.where())
        somes = []
        for bi in b.reachable_blocks():
            for st in b.blocks[bi]["s"]:
                if st[0] == "=" and st[2][0] == "agg" and st[2][1][:3] == ["adt", "core::option::Option", "Some"] and alt_gets \
                        and bi in b.reach_from(alt_gets[0]):
                    somes.append(bi)
        for sb in somes:
            ok = cbb in succeeded_calls(b, sb, F)
            ctx.ob(R, b, "alt-key hit returned only after %s" % what, ok,
                   "%s returns a value found under the key with more flags without passing it through %s"
                   % (fn, conv_rx.rstrip("$").split("::")[-1]), b.where(sb))
        # the converted value is what gets inserted under the requested key
        ins = b.calls_matching(r"cache_insert$")
        ctx.ob(R, b, "converted value is cached under the requested key", len(ins) == 1 and cbb in succeeded_calls(b, ins[0][0], F),
               "%s must insert the converted value (not the original) for the requested key" % fn)
    # remove_dnssec closure: uses the requested key's AD flag
    cl = [b for p, b in F.bodies.items() if re.match(r"^net::client::cache::Request::<CR, Upstream>::cache_lookup_do_ad::\{closure#0\}::\{closure#\d+\}$", p)
          and b.calls_matching(r"cache::remove_dnssec$")]
    if ctx.anchor(R, "remove_dnssec closure in cache_lookup_do_ad", len(cl) == 1):
        b = cl[0]
        bb, t = b.calls_matching(r"cache::remove_dnssec$")[0]
        a = deep_strip(b.term_of_operand(t["args"][1]))
        # AdDo::ad(&capture.addo)
        ok = False
        src = None
        if a[0] == "call" and (a[1] or "").endswith("AdDo::ad"):
            base = deep_strip(a[3][0])
            if base[0] == "field" and base[2] == "addo":
                cap = deep_strip(base[1])
                if cap[0] == "field" and cap[1] == ("arg", 1) and isinstance(cap[2], int):
                    # resolve the capture in the parent coroutine
                    parent = F.bodies.get(b.root + "::{closure#0}") or next((pb for pp, pb in F.bodies.items() if b.path.startswith(pp + "::{closure") and pp != b.path), None)
                    for pp, pb in F.bodies.items():
                        if not b.path.startswith(pp + "::{closure") or pp == b.path:
                            continue
                        for bi in pb.reachable_blocks():
                            for st in pb.blocks[bi]["s"]:
                                if st[0] == "=" and st[2][0] == "agg" and st[2][1][0] == "closure" and st[2][1][1] == b.path:
                                    o = st[2][2][cap[2]]
                                    tt = deep_strip(pb.term_of_operand(o))
                                    src = show(tt)
                                    # the requested key is what the coroutine itself captured (an upvar of its
                                    # environment); an alternative key is built inside the coroutine
                                    raw = pb.term_of_operand(o)
                                    built = any(s[0] == "call" and s[1] and not re.search(r"::(clone|borrow|as_ref|deref)$", s[1]) for s in walk(raw))
                                    ok = (tt[0] == "field" and tt[1] == ("arg", 1)) and not built
        ctx.ob(R, b, "DNSSEC stripping keyed on the requested AD flag", ok,
               "remove_dnssec is given the AD flag of %s; it must be the AD flag of the *requested* key (a DO=1 entry "
               "served to an AD=0 query would keep the AD bit)" % src, b.where(bb))
    rd = F.one_body(r"^net::client::cache::remove_dnssec$")
    if ctx.anchor(R, "remove_dnssec", rd):
        isd = rd.calls_matching(r"cache::is_dnssec$")
        sad = [t for _, t in rd.calls() if (t["fn"] or "").endswith("Header::set_ad")]
        ctx.ob(R, rd, "filters DNSSEC types in all sections and clears AD on request", len(isd) >= 3 and len(sad) >= 1,
               "remove_dnssec: is_dnssec used %d time(s), set_ad %d time(s)" % (len(isd), len(sad)))
        # a referral cached for a DO=1 query carries the DS RRset in its authority section; a server would not
        # have sent it for DO=0 (RFC 3225 / RFC 4035 3.1.4), so the authority filter has to drop DS as well
        pushes = [(bb, t) for bb, t in rd.calls() if re.search(r"AuthorityBuilder::<.*>::push(::<.*>)?$", t["fn"] or "")]
        if ctx.anchor(R, "remove_dnssec: authority section push", len(pushes) == 1, rd.where()):
            pb = pushes[0][0]
            no_ds = False
            for tm, v, _e in facts_at(rd, pb, F):
                ts = strip(tm)
                if ts[0] == "call" and re.search(r"PartialEq::(eq|ne)$", ts[1] or "") and len(ts[3]) == 2 and \
                        any(const_value(deep_strip(a)) == 43 for a in ts[3]) and "rtype(" in show(ts):
                    if v is (ts[1].endswith("::ne")):
                        no_ds = True
                if ts[0] in ("Eq", "Ne", "bin") and "rtype(" in show(ts) and re.search(r"\b43\b", show(ts)):
                    if (v is False and "Eq" in show(ts)[:3]) or (v is True and "Ne" in show(ts)[:3]):
                        no_ds = True
            ctx.ob(R, rd, "a DS record in the authority section is not handed to a DO=0 query", no_ds,
                   "remove_dnssec strips RRSIG, NSEC and NSEC3 but copies a DS record in the authority section: a referral "
                   "cached for a DO=1 query is served to a DO=0 query with the DS RRset still in it", rd.where(pb))


def rule_ins(ctx, F):
    R = "C20.ins"
    ctx.floor(R, 1)
    bs = [b for p, b in F.bodies.items() if re.match(r"^net::client::cache::Request::<CR, Upstream>::cache_insert::\{closure#0\}$", p)]
    if not ctx.anchor(R, "cache_insert", len(bs) == 1):
        return
    b = bs[0]
    ins = b.calls_matching(r"Cache::<.*>::insert$")
    ok = False
    for bb, t in ins:
        for tt, vv in bool_facts(b, bb, F):
            if tt[0] == "call" and (tt[1] or "").endswith("Duration::is_zero") and vv is False and "valid_for" in show(tt):
                ok = True
    ctx.ob(R, b, "zero-validity values are never inserted", ok and len(ins) == 1,
           "cache_insert must skip values whose valid_for is zero (uncacheable responses)")


def rule_total(ctx, F):
    R = "C20.total"
    ctx.floor(R, 1)
    n = 0
    for p, b in sorted(F.bodies.items()):
        if not p.startswith(("net::client::cache::", "<net::client::cache::")) or "::test" in p:
            continue
        for bb, t in b.calls():
            if not re.search(r"core::option::Option::<.*>::(unwrap|expect)$", t["fn"] or ""):
                continue
            recv = deep_strip(b.term_of_operand(t["args"][0]))
            if recv[0] == "call" and re.search(r"Iterator::next$|::next$", recv[1] or "") and not re.search(r"next_section$", recv[1] or ""):
                n += 1
                ctx.ob(R, b, "the next item of a message section is not assumed to exist", False,
                       "%s unwraps `%s`: an upstream response whose section is empty (a NOERROR reply without question) "
                       "panics the cache" % (p.split("::")[-1], show(recv)[:80]), b.where(bb))
    cb = F.one_body(r"^net::client::cache::classify_no_error$")
    if ctx.anchor(R, "classify_no_error", cb):
        nx = [bb for bb, t in cb.calls() if re.search(r"QuestionSection.*::next$|Iterator::next$", (t.get("res") or t["fn"] or ""))]
        ctx.ob(R, cb, "classify_no_error reads the question section", bool(nx),
               "classify_no_error no longer takes the question from the message's question section", nontrivial=False)


# dnssec_ok is read as `msg.opt().is_some_and(|opt| opt.dnssec_ok())`: the getter sits in a closure, the OPT lookup is
# what the argument's own term shows
FLAG_GETTER = {"ad": r"Header::ad$", "cd": r"Header::cd$", "rd": r"Header::rd$", "dnssec_ok": r"::dnssec_ok$|Message::<\w+>::opt$|<Octs>::opt$"}


def rule_key(ctx, F):
    R = "C20.key"
    ctx.floor(R, 6)
    kb = F.one_body(r"^net::client::cache::Key::new$")
    if not ctx.anchor(R, "Key::new", kb):
        return
    # parameter names of Key::new, by position
    pnames = {}
    for nme, pl in kb.vars:
        if len(pl) == 1 and 1 <= pl[0] <= kb.nargs:
            pnames[pl[0]] = nme
    flags = {i: n for i, n in pnames.items() if n in FLAG_GETTER}
    if not ctx.anchor(R, "flag parameters of Key::new", len(flags) == 4, kb.where()):
        return
    # inside: each parameter is stored in the field of its name (ad / dnssec_ok go into AdDo::new in that order)
    for bi in kb.reachable_blocks():
        for st in kb.blocks[bi]["s"]:
            if st[0] == "=" and st[2][0] == "agg" and st[2][1][0] == "adt" and st[2][1][1].endswith("cache::Key"):
                names = F.adts.get("net::client::cache::Key", {}).get("variants", [{}])[0].get("fields") or []
                for fi, op in enumerate(st[2][2]):
                    tm = deep_strip(kb.term_of_operand(op))
                    fname = names[fi]["name"] if fi < len(names) and isinstance(names[fi], dict) else (names[fi] if fi < len(names) else None)
                    if fname in ("cd", "rd"):
                        ctx.ob(R, kb, "Key.%s is the %s parameter" % (fname, fname), tm[0] == "arg" and pnames.get(tm[1]) == fname,
                               "Key::new stores %s in the field `%s`" % (show(tm), fname), kb.where(bi))
    for bb, tt in kb.calls_matching(r"cache::AdDo::new$"):
        a = [deep_strip(kb.term_of_operand(x)) for x in tt["args"]]
        ok = len(a) == 2 and a[0][0] == "arg" and pnames.get(a[0][1]) == "ad" and a[1][0] == "arg" and pnames.get(a[1][1]) == "dnssec_ok"
        ctx.ob(R, kb, "AdDo::new(ad, dnssec_ok)", ok, "Key::new passes %s to AdDo::new(ad, dnssec_ok)" % [show(x) for x in a], kb.where(bb))
    # callers: the value handed to each flag parameter is read from the flag of that name
    n = 0
    for b, bb, tt in F.callers_of(r"^net::client::cache::Key::new$"):
        if "::test" in b.path:
            continue
        for i, nme in sorted(flags.items()):
            if i - 1 >= len(tt["args"]):
                continue
            tm = deep_strip(b.term_of_operand(tt["args"][i - 1]))
            getters = [s[1] for s in walk(tm) if s[0] == "call" and s[1] and any(re.search(rx, s[1]) for rx in FLAG_GETTER.values())]
            if not getters:
                continue        # a constant or a field of another key: not a message flag
            n += 1
            ctx.ob(R, b, "Key::new(.. %s ..) receives the %s flag" % (nme, nme),
                   all(re.search(FLAG_GETTER[nme], g) for g in getters),
                   "%s passes the value of %s as the `%s` parameter of Key::new: two flags trade places in the cache key, "
                   "and the compatibility rules of the one are applied to the other" % (b.path.split("::{closure")[0].split("::")[-1], [g.split("::")[-1] for g in getters], nme),
                   b.where(bb))
    ctx.ob(R, kb, "call sites that build a key from message flags", n >= 4, "found %d flag arguments read from a message" % n, nontrivial=False)


def rule_cls(ctx, F):
    R = "C20.cls"
    ctx.floor(R, 1)
    b = F.one_body(r"^net::client::cache::classify_no_error$")
    if not ctx.anchor(R, "classify_no_error", b):
        return
    rets = [r for r in return_assignments(b)]
    ans = []
    for bi in b.reachable_blocks():
        for st in b.blocks[bi]["s"]:
            if st[0] == "=" and st[2][0] == "agg" and st[2][1][0] == "adt" and st[2][1][1].endswith("cache::NoErrorType") and "Answer" in str(st[2][1]):
                ans.append(bi)
    if not ctx.anchor(R, "NoErrorType::Answer in classify_no_error", len(ans) >= 1, b.where()):
        return
    for bi in ans:
        fs = [(show(tm), v) for tm, v, _e in facts_at(b, bi, F)]
        ty = any(v is True and re.search(r"(eq|Eq)\(", s) and "rtype(" in s and "qtype(" in s for s, v in fs)
        cl = any(v is True and re.search(r"(eq|Eq)\(", s) and "class(" in s and "qclass(" in s for s, v in fs)
        ctx.ob(R, b, "Answer only for a record of the queried type and class", ty and cl,
               "classify_no_error calls a NOERROR response an answer on a path where the record's type was not found equal to "
               "the queried type (and its class to the queried class): a NODATA reached through a CNAME counts as a positive "
               "answer and escapes max_nodata_validity", b.where(bi))


def rule_replay(ctx, F):
    """What comes out of the cache is what the upstream returned.  Value::get_response rebuilds the stored message
    with decremented TTLs; the rebuild re-parses every record's data and can fail on a message that was accepted (and
    handed to the first caller) as it was.  That failure is not a response the upstream gave: get_response has an
    exit that answers `None` (entry unusable, ask the upstream again) exactly when a stored *Ok* response could not be
    rebuilt -- it never serves the rebuild error in place of the message."""
    R = "C20.replay"
    ctx.floor(R, 1)
    bs = [b for p, b in F.bodies.items() if re.match(r"^net::client::cache::Value::get_response(::<.*>)?$", p)]
    if not ctx.anchor(R, "cache::Value::get_response", len(bs) == 1):
        return
    b = bs[0]
    dec = b.calls_matching(r"cache::decrement_ttl(::<.*>)?$")
    if not ctx.anchor(R, "decrement_ttl call in get_response", len(dec) == 1, b.where()):
        return
    hatch = False
    for rb, si, kind, term in return_assignments(b):
        if kind != "None" or not b.dominates(dec[0][0], rb):
            continue
        rebuilt_failed = stored_ok = False
        for tm, v in bool_facts(b, rb, F):
            sh = show(tm)
            if "decrement_ttl(" in sh and (("is_err(" in sh and v is True) or ("is_ok(" in sh and v is False)):
                rebuilt_failed = True
            elif "decrement_ttl(" not in sh and ".response" in sh and (("is_ok(" in sh and v is True) or ("is_err(" in sh and v is False)):
                stored_ok = True
        for tm, o in outcome_facts(b, rb, F):
            sh = show(deep_strip(tm))
            if isinstance(o, tuple) and o[0] == "variant":
                if "decrement_ttl(" in sh and o[1] == "Err":
                    rebuilt_failed = True
                elif "decrement_ttl(" not in sh and ".response" in sh and o[1] == "Ok":
                    stored_ok = True
        if rebuilt_failed and stored_ok:
            hatch = True
    ctx.ob(R, b, "a stored response that cannot be rebuilt is not replayed as an error", hatch,
           "get_response hands out whatever decrement_ttl returns: a message the cache accepted (and gave to the first caller) "
           "but cannot re-compose -- e.g. one with an AAAA record of 3 octets in the additional section -- is answered from the "
           "cache as Err(MessageParseError) for its whole validity, an answer the upstream never gave", b.where(dec[0][0]))


def rule_cfg(ctx, F):
    """The bounds the cache keeps (max_validity, the failure / NXDOMAIN / NODATA / delegation durations ..) are the
    ones that were configured: every `Config::set_<name>` of the cache whose type has a field `<name>` stores its
    argument in that field, and the getter `<name>()` reads that field -- a setter that writes its neighbour's field
    leaves the configured bound at its default."""
    R = "C20.cfg"
    ctx.floor(R, 6)
    adt = F.adts.get("net::client::cache::Config")
    if not ctx.anchor(R, "net::client::cache::Config", adt is not None):
        return
    fields = set()
    for v in adt.get("variants", []):
        for f in v.get("fields", []):
            fields.add(f["name"] if isinstance(f, dict) else f)
    n = 0
    for p, b in sorted(F.bodies.items()):
        m = re.match(r"^net::client::cache::Config::(set_)?(\w+)$", p)
        if not m or m.group(2) not in fields:
            continue
        name = m.group(2)
        if m.group(1):
            written = {}
            for bi in b.reachable_blocks():
                for st in b.blocks[bi]["s"]:
                    if st[0] == "=" and len(st[1]) > 1:
                        tgt = deep_strip(b.term_of_place(st[1]))
                        if tgt[0] == "field" and deep_strip(tgt[1]) == ("arg", 1):
                            src = deep_strip(b.term_of_rvalue(st[2]))
                            written[str(tgt[2])] = any(x == ("arg", 2) for x in walk(src))
            n += 1
            ctx.ob(R, b, "set_%s stores its argument in `%s`" % (name, name), written.get(name) is True,
                   "Config::set_%s writes %s instead of the field `%s` that %s() and the cache read: the configured value is never "
                   "applied (and another bound is overwritten)" % (name, sorted(written) or "nothing", name, name), b.where())
        else:
            rets = [deep_strip(t) for _, _, _, t in return_assignments(b) if t is not None]
            reads = {str(x[2]) for t in rets for x in walk(t) if x[0] == "field" and deep_strip(x[1]) in (("arg", 1), ("deref", ("arg", 1)))}
            if not reads:
                continue
            n += 1
            ctx.ob(R, b, "%s() reads `%s`" % (name, name), name in reads,
                   "Config::%s returns field(s) %s" % (name, sorted(reads)), b.where())
    ctx.call_sites += n


def rule_ownkey(ctx, F):
    """What a lookup derives for the *requested* flag combination (the AD bit cleared, DNSSEC records stripped) is stored
    under the requested key.  The alternative key -- a copy of the requested one with a flag changed, under which the
    source entry was found -- is never written: storing the derived copy there replaces the upstream's answer for the
    other flag combination (an AD=1 query would get an answer without AD)."""
    R = "C20.ownkey"
    ctx.floor(R, 2)
    n = 0
    for p, b in sorted(F.bodies.items()):
        if not re.match(r"^net::client::cache::Request::<CR, Upstream>::cache_lookup\w*::\{closure#0\}$", p):
            continue
        b.defs()
        for bb, t in b.calls():
            if not re.search(r"cache::Request::<.*>::cache_insert$", t["fn"] or "") or len(t["args"]) < 2:
                continue
            n += 1
            op = t["args"][1]
            locs = set()
            cur = op[1][0] if op[0] in ("c", "m") else None
            for _ in range(4):
                if cur is None or cur in locs:
                    break
                locs.add(cur)
                nxt = None
                for d in b.defs().get(cur, []):
                    if d[0] == "stmt" and d[3][0] == "use" and d[3][1][0] in ("c", "m") and len(d[3][1][1]) == 1:
                        nxt = d[3][1][1][0]
                cur = nxt
            altered = [l for l in locs if b.partial_defs.get(l)]
            tm = deep_strip(b.term_of_operand(op))
            from_param = any(x[0] == "field" and deep_strip(x[1]) == ("arg", 1) or x == ("arg", 1) for x in walk(tm)) or "arg1" in show(tm)
            ctx.ob(R, b, "a derived entry is stored under the requested key #%d" % n, not altered and from_param,
                   "%s stores the derived entry under %s: the key the source entry was found under is overwritten with a copy made for "
                   "another flag combination, and the next query with those flags gets the stripped copy instead of what the upstream "
                   "said" % (p.split("::")[-2], "a key whose flags were changed after it was cloned" if altered else show(tm)[:80]), b.where(bb))
    ctx.call_sites += n


def rule_gate(ctx, F):
    """Only a QUERY for class IN goes through the cache: where the request path builds its key, the request's opcode was
    found equal to QUERY *and* the question's class equal to IN.  (With an `or` -- or the two tests negated separately --
    an UPDATE or NOTIFY for class IN, or a CH query, is answered from, and stored in, a cache keyed without opcode.)"""
    R = "C20.gate"
    ctx.floor(R, 2)
    n = 0
    for b, bb, tt in F.callers_of(r"^net::client::cache::Key::new$"):
        if "::test" in b.path or "get_response_impl" not in b.path:
            continue
        n += 1
        op = cl = False
        for t, v in bool_facts(b, bb, F):
            if v is not True or t[0] != "call" or not re.search(r"PartialEq(<.*>)?(>)?::eq$", t[1] or "") or len(t[3]) != 2:
                continue
            ks = [x for x in walk(t[3][1]) if x[0] == "k"] + [x for x in walk(t[3][0]) if x[0] == "k"]
            sh = show(t)
            if "opcode(" in sh and any((k[3] or "").endswith("Opcode::QUERY") for k in ks):
                op = True
            if "qclass(" in sh and any((k[3] or "").endswith("Class::IN") for k in ks):
                cl = True
        ctx.ob(R, b, "the cache is consulted only for opcode QUERY", op,
               "get_response_impl builds a cache key on a path where the request's opcode was not found equal to Opcode::QUERY: "
               "the key does not hold the opcode, so a NOTIFY or UPDATE is answered with the cached answer of a query", b.where(bb))
        ctx.ob(R, b, "the cache is consulted only for class IN", cl,
               "get_response_impl builds a cache key on a path where the question's class was not found equal to Class::IN", b.where(bb))
    ctx.anchor(R, "Key::new in get_response_impl", n >= 1, "")
