"""C09 — snapshot isolation of zone readers (structural clauses).

C09.pin   every version argument used on the read path is the reader's own
          pinned `self.version` (never `current()`).
C09.ro    ReadZone.version is set only at construction; ZoneVersions.current
          is moved only by update_current <- publish_new_zone_version <- commit.
C09.wr    every mutation issued by a WriteNode carries
          `self.zone.new_version`; new_version changes only in new/publish.
C09.stale the version a WriteNode writes at follows the writer's: it is not a
          private by-value copy that goes stale when commit() moves the
          writer on to the next version (a handle kept across commit would
          edit the *published* version in place).
C09.lock  ZoneApex::write: the writer's version is read, and the WriteZone is
          created, only after the update lock was acquired; the guard is
          moved into the WriteZone.
C09.rbk   rollback / remove_all touch every versioned field of their node
          type, and recurse into children.
C09.drop  dropping a dirty writer rolls the apex back at new_version; dirty is
          set on open and cleared on publish.
C09.ver   guard table of Versioned::{get,update,remove,rollback}: which
          condition guards pop / overwrite / tombstone / push.
"""
import re

from mirlib import BranchFacts, strip, deep_strip, show, walk, const_value
from rulelib import (
    bool_facts, controlling_switches, dominating_edges, facts_at, fmt_path, must_pass, outcome_facts, return_assignments,
    succeeded_calls,
)

IM = "zonetree::in_memory::"
VERSION_TY = "zonetree::in_memory::versioned::Version"


def run(ctx):
    F = ctx.facts
    ctx.extra["explanation"] = (
        "C09: version-argument provenance on the read and write paths, who-may-write audit of the "
        "version fields, lock-before-version ordering in the async writer constructor, field coverage of "
        "rollback/remove_all, Drop rollback, and the guard table of the Versioned container. The "
        "multi-version algebra for arbitrary operation sequences and real-thread schedules are not decided."
    )
    import c08
    c08.rule_any(ctx, F)   # a reader's ANY answer depends on its own version only (shared with C08)
    rule_pin(ctx, F)
    rule_ro(ctx, F)
    rule_wr(ctx, F)
    rule_stale(ctx, F)
    rule_lock(ctx, F)
    rule_rbk(ctx, F)
    rule_drop(ctx, F)
    rule_ver(ctx, F)
    rule_get(ctx, F)
    rule_shared(ctx, F)
    import c10
    c10.rule_walk(ctx, F)   # a walk enumerates the reader's version: it descends through every non-cut node
    rule_stored(ctx, F)


def _version_args(b, t):
    """indices of call arguments whose local type is Version"""
    out = []
    for i, a in enumerate(t["args"]):
        if a[0] in ("c", "m") and len(a[1]) == 1 and b.locals[a[1][0]] == VERSION_TY:
            out.append(i)
        elif a[0] in ("c", "m") and len(a[1]) > 1:
            tt = deep_strip(b.term_of_operand(a))
            if tt[0] == "field" and tt[2] in ("version", "new_version"):
                out.append(i)
    return out


def _capture_parent(F, b, idx):
    """term captured as upvar #idx of closure body b in its parent: (parent_body, term)"""
    for pp, pb in F.bodies.items():
        if not (pp == b.root or b.path.startswith(pp + "::{closure")):
            continue
        for bi in pb.reachable_blocks():
            for st in pb.blocks[bi]["s"]:
                if st[0] == "=" and st[2][0] == "agg" and st[2][1][0] in ("closure", "coroutine") and st[2][1][1] == b.path:
                    ops = st[2][2]
                    if idx < len(ops):
                        return pb, deep_strip(pb.term_of_operand(ops[idx]))
    return None


def _provenance(F, b, term, depth=0):
    """Classify where a Version value comes from: 'self.version', 'self.zone.new_version', 'param',
    'current', 'other:<shown>'"""
    t = deep_strip(term)
    if t[0] == "field" and t[2] in ("version", "new_version"):
        base = deep_strip(t[1])
        # through closure captures: arg1.N... -> the parent's term
        guard = 0
        pb = b
        while base[0] == "field" and base[1] == ("arg", 1) and isinstance(base[2], int) and pb.kind == "Closure" and guard < 4:
            cp = _capture_parent(F, pb, base[2])
            if not cp:
                break
            pb, base = cp[0], deep_strip(cp[1])
            guard += 1
        if base[0] == "field" and base[2] == "zone" and t[2] == "new_version":
            return "self.zone.new_version"
        ty = None
        if base[0] == "arg":
            ty = pb.locals[base[1]]
        if t[2] == "version" and ty and "ReadZone" in ty:
            return "self.version"
        if t[2] == "new_version" and ty and "WriteZone" in ty:
            return "self.new_version"
        if t[2] == "new_version" and ty and "WriteNode" in ty:
            return "self.zone.new_version"
    if t[0] == "call" and t[1] and t[1].endswith("WriteZone::last_published_version"):
        return "last_published"
    if t[0] == "field" and t[1] == ("arg", 1) and t[2] in ("version", "new_version"):
        return "self." + t[2]
    if t[0] == "field" and deep_strip(t[1]) == ("field", ("arg", 1), "zone") and t[2] == "new_version":
        return "self.zone.new_version"
    if t[0] == "arg":
        return "param"
    if t[0] == "field" and t[1] == ("arg", 1) and isinstance(t[2], int) and b.kind == "Closure" and depth < 4:
        cp = _capture_parent(F, b, t[2])
        if cp:
            return _provenance(F, cp[0], cp[1], depth + 1)
    if t[0] == "phi":
        ps = {_provenance(F, b, a, depth + 1) for a in t[2]}
        return ps.pop() if len(ps) == 1 else "other:mixed %s" % sorted(ps)
    for s in walk(t):
        if s[0] == "call" and s[1] and s[1].endswith("ZoneVersions::current"):
            return "current"
    return "other:" + show(t)[:80]


def rule_pin(ctx, F):
    R = "C09.pin"
    ctx.floor(R, 7)
    n = 0
    seen = {}
    for p, b in F.bodies.items():
        if not (p.startswith(IM + "read::") or p.startswith("<" + IM + "read::")):
            continue
        for bb, t in b.calls():
            if t["fn"] and t["fn"].endswith("ZoneVersions::current"):
                ctx.ob(R, b, "no current() on the read path", False,
                       "the read path looks up the *current* zone version instead of the reader's pinned one", b.where(bb))
            for i in _version_args(b, t):
                n += 1
                prov = _provenance(F, b, b.term_of_operand(t["args"][i]))
                callee = (t["fn"] or "?").split("::")[-1]
                k = (p, callee)
                seen[k] = seen.get(k, 0) + 1
                ctx.ob(R, b, "version passed to %s#%d" % (callee, seen[k]), prov in ("self.version", "param"),
                       "a read-side access uses a version that is not the reader's pinned self.version (%s): the "
                       "reader could observe another version's records" % prov, b.where(bb))
    ctx.call_sites += n
    # params of type Version in read.rs helpers: every caller passes a pinned version too
    for p, b in F.bodies.items():
        if not p.startswith(IM + "read::"):
            continue
        vparams = [i for i in range(1, b.nargs + 1) if b.locals[i] == VERSION_TY]
        if not vparams or b.kind != "AssocFn":
            continue
        for cb, cbb, ct in F.callers_of("^" + re.escape(p) + "$"):
            for i in vparams:
                if i - 1 < len(ct["args"]):
                    prov = _provenance(F, cb, cb.term_of_operand(ct["args"][i - 1]))
                    okp = prov in ("self.version", "param") or (p.endswith("ReadZone::new") and prov in ("current", "param") or prov.startswith("other:") and p.endswith("ReadZone::new"))
                    ctx.ob(R, cb, "caller of %s passes a pinned version" % p.split("::")[-1], okp,
                           "%s is called with version provenance %s" % (p.split("::")[-1], prov), cb.where(cbb))


def _field_writes(F, adt_short, field):
    """[(body, bb)] of assignments to <..>.field where the base local's type mentions adt_short, plus
    aggregate constructions of the ADT."""
    out = []
    for p, b in F.bodies.items():
        if not p.startswith(("zonetree::", "<zonetree::")):
            continue
        for bi in b.reachable_blocks():
            for st in b.blocks[bi]["s"]:
                if st[0] != "=":
                    continue
                if len(st[1]) > 1:
                    names = [pr[2] for pr in st[1][1:] if isinstance(pr, list) and pr[0] == "."]
                    if names and names[-1] == field:
                        base_ty = b.locals[st[1][0]]
                        # resolve type of the struct that owns the field
                        owner_ok = adt_short in base_ty
                        if not owner_ok and len(names) >= 2:
                            owner_ok = True if adt_short == "WriteZone" and names[-2] == "zone" else False
                        if owner_ok:
                            out.append((b, bi, "assign"))
                if st[2][0] == "agg" and st[2][1][0] == "adt" and st[2][1][1].endswith("::" + adt_short):
                    out.append((b, bi, "construct"))
    return out


def rule_ro(ctx, F):
    R = "C09.ro"
    ctx.floor(R, 5)
    for b, bi, kind in _field_writes(F, "ReadZone", "version"):
        ok = b.path.endswith("read::ReadZone::new") or b.path.endswith("ReadZone as core::clone::Clone>::clone")
        ctx.ob(R, b, "ReadZone.version %s" % kind, ok,
               "ReadZone.version is written outside ReadZone::new: a reader's pinned version must never change", b.where(bi))
    cur = _field_writes(F, "ZoneVersions", "current")
    for b, bi, kind in cur:
        ok = re.search(r"write::ZoneVersions::(update_current|default|new)$", b.path) or "as core::default::Default>::default" in b.path
        ctx.ob(R, b, "ZoneVersions.current %s" % kind, bool(ok),
               "ZoneVersions.current is moved outside update_current", b.where(bi))
    ctx.anchor(R, "writes of ZoneVersions.current", len(cur) >= 1)
    for callee, allowed in (
        (r"write::ZoneVersions::update_current$", r"write::WriteZone::publish_new_zone_version$"),
        (r"write::WriteZone::publish_new_zone_version$", r"WriteZone as zonetree::traits::WritableZone>::commit"),
    ):
        cs = F.callers_of(callee)
        ctx.anchor(R, "callers of %s" % callee, len(cs) >= 1)
        for cb, cbb, ct in cs:
            ctx.ob(R, cb, "caller of %s" % callee.split("::")[-1].rstrip("$"), bool(re.search(allowed, cb.path)),
                   "%s is called from %s: the current version may only move on commit" % (callee.rstrip("$"), cb.path), cb.where(cbb))
    # ReadZone is created with the pair read from versions.current() under one read lock
    b = F.one_body(r"^<zonetree::in_memory::nodes::ZoneApex as zonetree::traits::ZoneStore>::read$")
    if ctx.anchor(R, "ZoneApex::read", b):
        cs = b.calls_matching(r"read::ReadZone::new$")
        ok = False
        if len(cs) == 1:
            args = [deep_strip(b.term_of_operand(a)) for a in cs[0][1]["args"]]
            srcs = [[s for s in walk(a) if s[0] == "call" and s[1] and s[1].endswith("ZoneVersions::current")] for a in args[1:3]]
            ok = all(srcs) and srcs[0][0][5] == srcs[1][0][5]
        ctx.ob(R, b, "version and marker come from one current() read", ok,
               "ZoneApex::read must pin the (version, marker) pair obtained from a single versions.read().current()")


def rule_wr(ctx, F):
    R = "C09.wr"
    ctx.floor(R, 15)
    n = 0
    seen = {}
    for p, b in F.bodies.items():
        if not (p.startswith((IM + "write::WriteNode", "<" + IM + "write::WriteNode", IM + "write::WriteZone", "<" + IM + "write::WriteZone"))):
            continue
        for bb, t in b.calls():
            for i in _version_args(b, t):
                n += 1
                prov = _provenance(F, b, b.term_of_operand(t["args"][i]))
                callee = (t["fn"] or "?").split("::")[-1]
                k = (p, callee)
                seen[k] = seen.get(k, 0) + 1
                is_read = callee in ("get", "is_empty", "with_special", "is_nx_domain", "get_soa", "iter", "with", "query", "walk", "new") or \
                    re.search(r"ReadZone|::read::", t["fn"] or "") is not None
                # housekeeping of the version list itself is not a change of zone content
                if re.search(r"ZoneVersions::|Version::|clean_versions|update_current", t["fn"] or ""):
                    continue
                allowed = ("self.zone.new_version", "self.new_version", "param") + (("last_published",) if is_read else ())
                ctx.ob(R, b, "version passed to %s#%d" % (callee, seen[k]), prov in allowed,
                       "a WriteNode operation uses version provenance %s instead of the writer's new_version: it "
                       "would modify (or read) a version visible to readers" % prov, b.where(bb))
    ctx.call_sites += n
    for b, bi, kind in _field_writes(F, "WriteZone", "new_version"):
        ok = re.search(r"write::WriteZone::(new|publish_new_zone_version)$|WriteZone as core::clone::Clone>::clone$", b.path)
        ctx.ob(R, b, "WriteZone.new_version %s" % kind, bool(ok),
               "WriteZone.new_version is changed outside new/publish_new_zone_version", b.where(bi))
    pb = F.one_body(r"write::WriteZone::publish_new_zone_version$")
    if ctx.anchor(R, "WriteZone::publish_new_zone_version", pb):
        nx = pb.calls_matching(r"versioned::Version::next$")
        up = pb.calls_matching(r"ZoneVersions::update_current$")
        ok = len(nx) == 1 and len(up) == 1 and pb.dominates(up[0][0], nx[0][0]) and \
            _provenance(F, pb, pb.term_of_operand(up[0][1]["args"][1])) == "self.new_version"
        ctx.ob(R, pb, "publishes new_version, then advances it", ok,
               "publish_new_zone_version must make self.new_version current and only then move on to the next version")


def rule_stale(ctx, F):
    R = "C09.stale"
    ctx.floor(R, 1)
    wz = F.adts.get("zonetree::in_memory::write::WriteZone")
    wn = F.adts.get("zonetree::in_memory::write::WriteNode")
    if not ctx.anchor(R, "struct WriteZone / struct WriteNode", wz is not None and wn is not None):
        return
    vfields = [f["name"] for f in wz["variants"][0]["fields"] if f["ty"].strip() == VERSION_TY]
    holds = [f["name"] for f in wn["variants"][0]["fields"] if f["ty"].strip() == "zonetree::in_memory::write::WriteZone"]
    if not vfields or not holds:
        # the version lives behind a shared handle, or nodes borrow the writer: nothing can go stale
        ctx.ob(R, "zonetree::in_memory::write::WriteNode", "node handles share the writer's version", True,
               detail="WriteZone has no by-value Version field (%s) or WriteNode does not own a WriteZone (%s)" % (vfields, holds))
        return
    v = vfields[0]
    # who assigns the field after construction?
    import json
    movers = []
    for p_, b_ in F.bodies.items():
        if not p_.startswith("zonetree::in_memory::write::WriteZone::"):
            continue
        for bi in b_.reachable_blocks():
            for st in b_.blocks[bi]["s"]:
                if st[0] == "=" and len(st[1]) >= 2 and isinstance(st[1][-1], (list, tuple)) and st[1][-1][0] == "." and st[1][-1][2] == v:
                    movers.append(p_.split("::")[-1])
    cl = F.body("<zonetree::in_memory::write::WriteZone as core::clone::Clone>::clone")
    copies = False
    if cl is not None:
        for bi in cl.reachable_blocks():
            for st in cl.blocks[bi]["s"]:
                if st[0] == "=" and st[2][0] == "agg" and st[2][1][0] == "adt" and st[2][1][1].endswith("write::WriteZone"):
                    names = list(st[2][1][3])
                    if v in names:
                        op = st[2][2][names.index(v)]
                        s = show(deep_strip(cl.term_of_operand(op)))
                        copies = s.endswith("." + v)
    stale = bool(movers) and copies
    ctx.ob(R, "<zonetree::in_memory::write::WriteZone as core::clone::Clone>::clone", "node handles share the writer's version", not stale,
           "every WriteNode owns a clone of the WriteZone with a by-value copy of `%s`, while %s moves the writer's own copy on at "
           "commit: a node handle kept across commit() keeps writing at the version that has just been published, changing "
           "what readers of that version see" % (v, "/".join(sorted(set(movers)))),
           cl.where() if cl is not None else "")


def rule_lock(ctx, F):
    R = "C09.lock"
    ctx.floor(R, 4)
    bs = F.find_bodies(r"^<zonetree::in_memory::nodes::ZoneApex as zonetree::traits::ZoneStore>::write(::\{closure#0\})?$")
    outer = [b for b in bs if "{closure" not in b.path]
    inner = [b for b in bs if "{closure" in b.path]
    if not ctx.anchor(R, "ZoneApex::write and its async block", len(outer) == 1 and len(inner) == 1):
        return
    b = inner[0]
    news = b.calls_matching(r"write::WriteZone::new$")
    ctx.ob(R, outer[0], "WriteZone::new only inside the async block", not outer[0].calls_matching(r"write::WriteZone::new$")
           and not outer[0].calls_matching(r"ZoneVersions::current$"),
           "the outer (synchronous) part of ZoneApex::write reads the current version or builds the writer before "
           "the update lock can have been acquired")
    if not ctx.anchor(R, "WriteZone::new call in ZoneApex::write", len(news) == 1, b.where()):
        return
    nbb, nt = news[0]
    locks = b.calls_matching(r"Mutex::<\(\)>::lock_owned$")
    if not ctx.anchor(R, "update_lock.lock_owned() in ZoneApex::write", len(locks) == 1, b.where()):
        return
    lbb = locks[0][0]
    # the Ready edge of the poll on the lock future
    ready_targets = []
    for sw in b.reachable_blocks():
        t = b.blocks[sw]["t"]
        if t["k"] != "switch":
            continue
        ef = BranchFacts(b, F).edge_facts(sw)
        for lab, (tt, vv) in ef.items():
            s = deep_strip(tt)
            if vv == ("variant", "Ready") and s[0] == "call" and (s[1] or "").endswith("Future::poll"):
                if any(x[0] == "call" and x[5] == lbb for x in walk(s)):
                    ready_targets.append((sw, lab, b.edge_target(sw, lab)))
    if not ctx.anchor(R, "await of the update lock", len(ready_targets) == 1, b.where(lbb)):
        return
    sw, lab, rt = ready_targets[0]
    acquired = lambda bb: bb not in b.reach_from(0, removed_edges=[(sw, lab)])
    ctx.ob(R, b, "writer created after the lock is held", acquired(nbb),
           "WriteZone::new is reachable without the update lock having been acquired", b.where(nbb))
    # lock guard moved into the WriteZone
    garg = deep_strip(b.term_of_operand(nt["args"][1]))
    gok = any(s[0] == "call" and (s[1] or "").endswith("Future::poll") for s in walk(garg))
    ctx.ob(R, b, "the acquired guard is moved into the writer", gok,
           "the OwnedMutexGuard handed to WriteZone::new is not the one obtained from update_lock (%s)" % show(garg)[:100],
           b.where(nbb))
    # version is read after the lock is held
    varg = deep_strip(b.term_of_operand(nt["args"][2]))
    curs = [s for s in walk(varg) if s[0] == "call" and s[1] and s[1].endswith("ZoneVersions::current")]
    nxt = [s for s in walk(varg) if s[0] == "call" and s[1] and s[1].endswith("Version::next")]
    ok = bool(curs) and bool(nxt) and all(acquired(s[5]) for s in curs)
    ctx.ob(R, b, "new version = current().next() read under the lock", ok,
           "the writer's version is not computed from versions.current() *after* acquiring the update lock "
           "(found %s): a writer queued behind another one would reuse the version the first one publishes"
           % show(varg)[:120], b.where(nbb))
    # the guard lives exactly as long as the writer: nothing takes, replaces or drops the field that holds it
    import json
    adt = F.adts.get("zonetree::in_memory::write::WriteZone")
    gfields = [f["name"] for f in adt["variants"][0]["fields"] if "MutexGuard" in f["ty"]] if adt else []
    if ctx.anchor(R, "the WriteZone field holding the update-lock guard", len(gfields) == 1):
        g = gfields[0]
        users = []
        for p_, b_ in F.bodies.items():
            if not p_.lstrip("<").startswith("zonetree::"):
                continue
            for bi in b_.reachable_blocks():
                blk = b_.blocks[bi]
                txt = json.dumps([st[:3] for st in blk["s"] if st[0] == "="]) + json.dumps(
                    {k: v for k, v in blk["t"].items() if k in ("args", "dest", "p", "d")})
                if re.search(r'\["\.", \d+, "%s"\]' % re.escape(g), txt):
                    users.append((b_, bi))
        ctx.ob(R, "zonetree::in_memory::write::WriteZone", "the guard field is never touched after construction", not users,
               "%s accesses WriteZone.%s: the update lock is released (or replaced) before the writer is dropped, so a second "
               "writer can start on the same unpublished version while this one is still in use (commit followed by "
               "re-open, as ZoneUpdater does per batch)" % (users[0][0].path.split("::")[-1] if users else "-", g),
               users[0][0].where(users[0][1]) if users else "")
    # Clone drops the lock (clones live inside the original's lifetime) - audited, not decided
    ctx.note("C09.lock: WriteZone::clone sets _lock: None (audited: clones are owned by WriteNodes created from &self)")


VERSIONED_FIELD_TYPES = ("NodeRrsets", "NodeChildren", "Versioned<")


def rule_rbk(ctx, F):
    R = "C09.rbk"
    ctx.floor(R, 12)
    for adt in ("zonetree::in_memory::nodes::ZoneApex", "zonetree::in_memory::nodes::ZoneNode"):
        a = F.adts.get(adt)
        if not ctx.anchor(R, adt, a):
            continue
        vfields = [f["name"] for f in a["variants"][0]["fields"] if any(x in f["ty"] for x in VERSIONED_FIELD_TYPES)
                   and "ZoneVersions" not in f["ty"]]
        for meth in ("rollback", "remove_all"):
            b = F.body("%s::%s" % (adt, meth))
            if not ctx.anchor(R, "%s::%s" % (adt, meth), b):
                continue
            touched = {}
            for bb, t in b.calls():
                if not t["args"]:
                    continue
                r0 = deep_strip(b.term_of_operand(t["args"][0]))
                # unwrap lock guards: write()/read() on the field
                while r0[0] == "call" and r0[3] and re.search(r"::(write|read|deref|deref_mut)$", r0[1] or ""):
                    r0 = deep_strip(r0[3][0])
                if r0[0] == "field" and r0[1] == ("arg", 1):
                    vi = [i for i in _version_args(b, t)]
                    passes = any(deep_strip(b.term_of_operand(t["args"][i])) == ("arg", 2) for i in vi)
                    nm = (t["fn"] or "").split("::")[-1]
                    if passes:
                        touched.setdefault(r0[2], []).append(nm)
            for f in vfields:
                want = {"rollback": ("rollback",), "remove_all": ("remove_all", "remove")}[meth]
                ok = any(n in want for n in touched.get(f, []))
                ctx.ob(R, b, "%s covers field %s" % (meth, f), ok,
                       "%s::%s does not %s the versioned field `%s` with the given version: changes made there by "
                       "an abandoned writer stay visible (found calls %s)" % (adt.split("::")[-1], meth, meth, f, touched.get(f)))
    # containers recurse into every element
    for fn, inner in (
        ("zonetree::in_memory::nodes::NodeRrsets::rollback", r"NodeRrset::rollback$"),
        ("zonetree::in_memory::nodes::NodeRrsets::remove_all", r"NodeRrset::remove$"),
        ("zonetree::in_memory::nodes::NodeChildren::rollback", r"ZoneNode::rollback$"),
        ("zonetree::in_memory::nodes::NodeChildren::remove_all", r"ZoneNode::remove_all$"),
        ("zonetree::in_memory::nodes::NodeRrset::rollback", r"Versioned::<.*>::rollback$"),
        ("zonetree::in_memory::nodes::NodeRrset::remove", r"Versioned::<.*>::remove$"),
    ):
        bodies = [b for p, b in F.bodies.items() if p == fn or p.startswith(fn + "::{closure")]
        if not ctx.anchor(R, fn, bodies):
            continue
        hit = False
        for b in bodies:
            for bb, t in b.calls():
                if t["fn"] and re.search(inner, t["fn"]):
                    vi = _version_args(b, t)
                    prov = [_provenance(F, b, b.term_of_operand(t["args"][i])) for i in vi]
                    if prov and all(pv == "param" for pv in prov):
                        hit = True
        filters = sorted({(t["fn"] or "").split("::")[-1] for b in bodies for _, t in b.calls()
                          if re.search(r"Iterator::(filter|filter_map|skip|take|skip_while|take_while|step_by|find|nth)$", t["fn"] or "")})
        cond = []
        for b in bodies:
            for bb, t in b.calls():
                if t["fn"] and re.search(inner, t["fn"]):
                    cs = [sw for sw in controlling_switches(b, bb)
                          if not any(s[0] == "call" and re.search(r"Iterator>?::next$", s[1] or "")
                                     for s in walk(deep_strip(b.term_of_operand(b.blocks[sw]["t"]["d"]))))]
                    if cs:
                        cond.append(b.where(cs[0]))
        ctx.ob(R, fn, "no element is left out", not filters and not cond,
               "%s applies %s only to some of the contained elements (%s): what an abandoned writer changed in the others "
               "stays and shows up under the next version number"
               % (fn.split("::")[-1], inner.rstrip("$"), ("iterator adaptor " + "/".join(filters)) if filters else "under a condition at " + ", ".join(cond)))
        iterates = any(re.search(r"::(for_each|values|values_mut|iter|iter_mut)$", t["fn"] or "") for b in bodies for _, t in b.calls())
        need_iter = "NodeRrset::" not in fn
        ctx.ob(R, fn, "forwards the version to every element", hit and (iterates or not need_iter),
               "%s must apply %s to every contained element with the same version" % (fn.split("::")[-1], inner.rstrip("$")))


def rule_drop(ctx, F):
    R = "C09.drop"
    ctx.floor(R, 4)
    b = F.one_body(r"^<zonetree::in_memory::write::WriteZone as core::ops::Drop>::drop$")
    if ctx.anchor(R, "impl Drop for WriteZone", b):
        rb = b.calls_matching(r"nodes::ZoneApex::rollback$")
        ok = False
        if len(rb) == 1:
            bb, t = rb[0]
            prov = _provenance(F, b, b.term_of_operand(t["args"][1]))
            dirty_true = False
            for tt, vv in bool_facts(b, bb, F):
                if tt[0] == "call" and re.search(r"Atomic(Bool|::<bool>)::(swap|load)$", tt[1] or "") and vv is True:
                    a0 = deep_strip(tt[3][0])
                    if a0 == ("field", ("arg", 1), "dirty") or "dirty" in show(a0):
                        dirty_true = True
            ok = prov == "self.new_version" and dirty_true
        ctx.ob(R, b, "dirty drop rolls back new_version", ok,
               "dropping a WriteZone with uncommitted changes must call apex.rollback(self.new_version)")
    ob = F.one_body(r"^<zonetree::in_memory::write::WriteZone as zonetree::traits::WritableZone>::open$")
    if ctx.anchor(R, "WriteZone::open", ob):
        st = [t for _, t in ob.calls() if re.search(r"Atomic(Bool|::<bool>)::store$", t["fn"] or "")]
        ok = any(const_value(ob.term_of_operand(t["args"][1])) == 1 and "dirty" in show(deep_strip(ob.term_of_operand(t["args"][0]))) for t in st)
        ctx.ob(R, ob, "open marks the writer dirty", ok, "WriteZone::open must set dirty before handing out a WriteNode")
        # ... whenever it hands out a node, whatever else the caller asked for (a diff or not)
        from rulelib import outcome_facts
        for sb, t in [(bb, t) for bb, t in ob.calls() if re.search(r"Atomic(Bool|::<bool>)::store$", t["fn"] or "")
                      and "dirty" in show(deep_strip(ob.term_of_operand(t["args"][0])))]:
            cond = [show(deep_strip(tm))[:90] for tm, o in outcome_facts(ob, sb, F)
                    if not re.match(r"^\(?&?\*?\(?(Try>::branch\()?(write::)?WriteNode::new_apex\(", show(deep_strip(tm)).lstrip("&*("))]
            ctx.ob(R, ob, "open marks the writer dirty for every node it hands out", not cond,
                   "WriteZone::open sets dirty only under the further condition(s) %s: a writer opened otherwise (no diff "
                   "collection, say) and dropped without commit is not rolled back, and what it wrote surfaces with the next "
                   "commit" % cond[:2], ob.where(sb))
    pb = F.one_body(r"write::WriteZone::publish_new_zone_version$")
    if pb is not None:
        st = [t for _, t in pb.calls() if re.search(r"Atomic(Bool|::<bool>)::store$", t["fn"] or "")]
        ok = any(const_value(pb.term_of_operand(t["args"][1])) == 0 for t in st)
        ctx.ob(R, pb, "publish clears dirty", ok, "publish_new_zone_version must clear dirty")
    # nobody else clears dirty
    clears = []
    for p, b2 in F.bodies.items():
        if not p.startswith(("zonetree::", "<zonetree::")):
            continue
        for bb, t in b2.calls():
            if re.search(r"Atomic(Bool|::<bool>)::store$", t["fn"] or "") and "dirty" in show(deep_strip(b2.term_of_operand(t["args"][0]))) \
                    and const_value(b2.term_of_operand(t["args"][1])) == 0:
                clears.append(p)
    ctx.ob(R, "WriteZone.dirty", "cleared only on publish", all(c.endswith("publish_new_zone_version") for c in clears) and bool(clears),
           "dirty is cleared in %s" % clears)


def rule_ver(ctx, F):
    R = "C09.ver"
    ctx.floor(R, 6)
    V = "zonetree::in_memory::versioned::Versioned::<T>::"
    # remove
    b = F.body(V + "remove")
    if ctx.anchor(R, "Versioned::remove", b):
        pops = b.calls_matching(r"Vec::<.*>::pop$")
        ctx.anchor(R, "pop in Versioned::remove", len(pops) == 1, b.where())
        for bb, t in pops:
            fs = bool_facts(b, bb, F)
            sole = any(tt[0] == "bin" and tt[1] == "Eq" and vv and const_value(tt[3]) == 1 and "len" in show(tt[2]) for tt, vv in fs)
            samev = any(tt[0] == "call" and (tt[1] or "").endswith("PartialEq::eq") and vv for tt, vv in fs) or \
                any(tt[0] == "bin" and tt[1] == "Eq" and vv and "arg2" in show(tt) for tt, vv in fs)
            ctx.ob(R, b, "pop only the sole entry of this version", sole and samev,
                   "Versioned::remove pops the last entry without requiring that it belongs to the version being "
                   "written *and* is the only entry: an older value would become visible again instead of being masked",
                   b.where(bb))
        # tombstone on the complementary path
        tomb = []
        pushes = b.calls_matching(r"Vec::<.*>::push$")
        for bi in b.reachable_blocks():
            for st in b.blocks[bi]["s"]:
                if st[0] == "=" and len(st[1]) > 1:
                    rv = deep_strip(b.term_of_rvalue(st[2]))
                    if rv[0] == "agg" and rv[1][:3] == ("adt", "core::option::Option", "None") and not b.blocks[bi].get("c"):
                        fs = bool_facts(b, bi, F)
                        notsole = any(tt[0] == "bin" and tt[1] == "Eq" and (not vv) and const_value(tt[3]) == 1 for tt, vv in fs)
                        if notsole:
                            tomb.append(bi)
        ctx.ob(R, b, "existing entry of this version becomes a removal marker", bool(tomb),
               "Versioned::remove must turn a same-version entry with older history into a None marker")
        ok_push = False
        for bb, t in pushes:
            fs = bool_facts(b, bb, F)
            nonempty = any(tt[0] == "call" and (tt[1] or "").endswith("is_empty") and vv is False for tt, vv in fs)
            a = deep_strip(b.term_of_operand(t["args"][1]))
            marker = a[0] == "agg" and any(x[0] == "agg" and x[1][:3] == ("adt", "core::option::Option", "None") for x in walk(a))
            ok_push = ok_push or (nonempty and marker)
        ctx.ob(R, b, "older history is masked by a new marker", ok_push,
               "Versioned::remove must push (version, None) when older versions hold a value")
    # rollback
    b = F.body(V + "rollback")
    if ctx.anchor(R, "Versioned::rollback", b):
        pops = b.calls_matching(r"Vec::<.*>::pop$")
        ok = False
        for bb, t in pops:
            for tt, vv in bool_facts(b, bb, F):
                if vv and (tt[0] == "call" and (tt[1] or "").endswith("PartialEq::eq") or (tt[0] == "bin" and tt[1] == "Eq")):
                    if "arg2" in show(tt) and "last" in show(tt):
                        ok = True
        ctx.ob(R, b, "rollback pops only an entry of that version", ok and len(pops) == 1,
               "Versioned::rollback must drop the last entry only if it belongs to the rolled-back version")
    # update
    b = F.body(V + "update")
    if ctx.anchor(R, "Versioned::update", b):
        pushes = b.calls_matching(r"Vec::<.*>::push$")
        over = []
        for bi in b.reachable_blocks():
            for st in b.blocks[bi]["s"]:
                rv = deep_strip(b.term_of_rvalue(st[2])) if st[0] == "=" and len(st[1]) > 1 else None
                if rv is not None and rv[0] == "agg" and rv[1][:3] == ("adt", "core::option::Option", "Some") and not b.blocks[bi].get("c"):
                    fs = bool_facts(b, bi, F)
                    same = any(vv and ((tt[0] == "call" and (tt[1] or "").endswith("PartialEq::eq")) or (tt[0] == "bin" and tt[1] == "Eq")) and "arg2" in show(tt) for tt, vv in fs)
                    over.append(same)
        ctx.ob(R, b, "overwrite only an entry of the same version, else push", bool(over) and all(over) and len(pushes) == 1,
               "Versioned::update must overwrite in place only when the last entry already belongs to this version")
    # get
    gb = [bb for p, bb in F.bodies.items() if p.startswith(V + "get")]
    if ctx.anchor(R, "Versioned::get", gb):
        le = False
        rev = False
        for bb_ in gb:
            for _, t in bb_.calls():
                fn = t["fn"] or ""
                if fn.endswith("PartialOrd::le") and t["targs"][:1] == [VERSION_TY]:
                    a0 = deep_strip(bb_.term_of_operand(t["args"][0]))
                    le = le or ("0" in show(a0))
                if fn.endswith("Iterator::rev"):
                    rev = True
        ctx.ob(R, gb[0], "newest entry with entry.version <= reader version", le and rev,
               "Versioned::get must scan from the newest entry and accept the first whose version is <= the requested one")


def rule_get(ctx, F):
    """(C09.ver) Versioned::get answers with the newest entry that is not newer than the reader's version -- whichever
    entry that is: the comparison with the reader's version is made for every entry, inside a search over the whole
    vector (the closure of an iterator adaptor, or the body of a loop).  A lookup that only looks at the last one or two
    entries is right for a reader at most one version behind and wrong for every reader held longer."""
    from mirlib import closures_created_in
    from rulelib import cyclic_blocks
    R = "C09.ver"
    b = F.body("zonetree::in_memory::versioned::Versioned::<T>::get")
    if not ctx.anchor(R, "Versioned::get", b):
        return
    CMP = r"PartialOrd(<.*>)?::(le|lt|ge|gt)$"
    inside, outside = [], []
    cyc = cyclic_blocks(b)
    for bb, t in b.calls():
        if re.search(CMP, t["fn"] or ""):
            (inside if bb in cyc else outside).append(("loop body" if bb in cyc else "straight-line code", bb))
    for bi, cb, ops in closures_created_in(F, b):
        # the closure has to be handed to a searching adaptor
        handed = [t for bb, t in b.calls() if re.search(r"Iterator::(find_map|find|rfind|filter|filter_map|position|rposition|take_while|"
                                                        r"skip_while|any|all|map_while|fold|try_fold|last)$", t["fn"] or "")]
        for bb, t in cb.calls():
            if re.search(CMP, t["fn"] or ""):
                (inside if handed else outside).append(("closure of an iterator adaptor" if handed else "a closure", bi))
    ctx.ob(R, b, "the reader's version is compared with every entry", bool(inside) and not outside,
           "Versioned::get compares an entry's version with the reader's %s (%d comparison(s) in a search over all entries): a "
           "reader held across two or more commits that touched the value is served a newer entry than its version allows"
           % ("in " + ", ".join(sorted({w for w, _ in outside})) if outside else "nowhere", len(inside)), b.where())


def run_thorough(ctx):
    # type-level part of the property: compile-fail witnesses (rules/witness.py)
    import witness
    witness.run(ctx, "C09")


# ---------------------------------------------------------------------------
# C09.shared: writers change reader-visible node storage only in a version's name
# ---------------------------------------------------------------------------

def rule_shared(ctx, F):
    """Readers of all versions walk the same node tree; what differs per version is what the Versioned slots in the nodes
    hold.  A function of the node storage that takes a write lock therefore has to be told *which version* it is changing
    (a `Version` parameter): a mutation without one is seen by every reader, held or new, committed or not."""
    R = "C09.shared"
    ctx.floor(R, 8)
    n = 0
    for p, b in sorted(F.bodies.items()):
        if not re.match(r"^<?zonetree::in_memory::nodes::", p) or "::test" in p or b.kind not in ("Fn", "AssocFn"):
            continue
        # by type, not by how the guard was obtained (write(), upgradable_read().upgrade(), ...): the body holds a write guard
        if not any(isinstance(ty, str) and re.search(r"RwLockWriteGuard<|MutexGuard<", ty) for ty in b.locals):
            continue
        locks = [bb for bb, tt in b.calls() if re.search(r"RwLock::<.*>::write$|RwLock::write$|Mutex::<.*>::lock$|::upgrade$", tt["fn"] or "")] or [0]
        n += 1
        has_version = any(b.locals[i] == VERSION_TY for i in range(1, b.nargs + 1))
        ctx.ob(R, b, "a write-locking node-storage function is given the version it changes", has_version,
               "%s takes a write lock on storage shared by the readers of every version but has no Version parameter: what "
               "it changes (a child node coming into existence) is not scoped to the writer's version -- a held reader's "
               "answer for that name turns from NXDOMAIN / the wildcard into NODATA as soon as an uncommitted writer descends "
               "to it, and stays so after the writer is abandoned" % p.split("nodes::")[-1], b.where(locks[0]))
    ctx.call_sites += n


def rule_stored(ctx, F):
    """The commit publishes exactly the writer's changes: an `update_rrset` that answers Ok has stored the RRset in the
    version being written.  Every Ok return of WriteNode::update_rrset lies behind `NodeRrsets::update` -- there is no
    shortcut for "nothing changed" (what the published version holds says nothing about what this writer has already
    done to the RRset in its own version: remove, then add the same data again)."""
    R = "C09.stored"
    ctx.floor(R, 1)
    b = F.one_body(r"^zonetree::in_memory::write::WriteNode::update_rrset$")
    if not ctx.anchor(R, "WriteNode::update_rrset", b):
        return
    ups = [bb for bb, t in b.calls() if re.search(r"NodeRrsets::update$", t["fn"] or "")]
    if not ctx.anchor(R, "NodeRrsets::update in update_rrset", len(ups) >= 1, b.where()):
        return
    n = 0
    for rb, si, kind, term in return_assignments(b):
        if kind != "Ok":
            continue
        n += 1
        ok, pth = must_pass(b, 0, [rb], ups)
        ctx.ob(R, b, "Ok is answered only after the RRset was stored in the new version", ok,
               "WriteNode::update_rrset returns Ok on a path that does not store the RRset (%s): the change is dropped although "
               "the writer was told it was made -- e.g. an RRset removed and re-added with the published data in one version "
               "is gone after the commit" % fmt_path(pth), b.where(rb))
    ctx.anchor(R, "an Ok return in update_rrset", n >= 1, b.where())
