"""C16 — server transports (narrow, structural clauses only).

Exactly-once delivery, liveness under slow or failing services and
interleavings are schedule properties and are not decided.  What is decided
are the size and framing decisions whose truth is visible in the code:

C16.size    EdnsMiddlewareSvc::preprocess negotiates the UDP response limit as
            min(max(512, client's advertised size), server hint clamped to
            [512, client size]) and stores exactly that value in the
            transport context; without EDNS the limit defaults to 512.
C16.trunc   MandatoryMiddlewareSvc::truncate compares the response length with
            that limit (default 512) and, on the over-limit path only, sets
            TC and replaces the response by header + question + OPT (nothing
            is pushed into the answer or authority section of the replacement).
C16.reply   error responses and answers are started from the request
            (MessageBuilder::start_answer / start_error copy ID, opcode, RD
            and the question): mk_error_response goes through them.
C16.frame   a stream connection writes a response through its two-octet
            length prefix (StreamTarget::as_stream_slice); the datagram path
            writes the bare message (as_dgram_slice).
C16.panic   no unwrap/expect of a parse result and no explicit panic under a
            branch on request content in the server transport and middleware
            bodies.
"""
import re

from mirlib import BranchFacts, strip, deep_strip, show, walk, const_value
from rulelib import bool_facts, control_terms, facts_at, fmt_path, must_pass, outcome_facts, relations, return_assignments

S = "net::server::"
MIN = 512


def run(ctx):
    F = ctx.facts
    ctx.extra["explanation"] = (
        "C16 (narrow): the UDP size negotiation formula of the EDNS middleware, the over-limit test and the "
        "header+question+OPT replacement with TC in the mandatory middleware, request-derived error responses, "
        "length-prefixed stream writes, and a typed unwrap/explicit-panic audit over the server bodies. Exactly-once "
        "delivery, liveness, pipelining and connection aborts are not decided."
    )
    rule_size(ctx, F)
    rule_trunc(ctx, F)
    rule_reply(ctx, F)
    rule_frame(ctx, F)
    rule_partial(ctx, F)
    rule_accept(ctx, F)
    rule_panic(ctx, F)
    rule_once(ctx, F)
    rule_queue(ctx, F)
    rule_recv(ctx, F)
    rule_hint(ctx, F)
    rule_idle(ctx, F)
    rule_idle_guard(ctx, F)
    rule_cfgfresh(ctx, F)
    rule_conncount(ctx, F)
    import c02
    c02.rule_shim(ctx, F)   # the length prefix written on a stream is kept current by StreamTarget (shared with C02)
    rule_reqopt(ctx, F)


def rule_partial(ctx, F):
    R = "C16.partial"
    ctx.floor(R, 2)
    bs = [b for p, b in F.bodies.items() if re.match(r"^net::server::connection::Connection::<.*>::write_response_to_stream::\{closure#0\}$", p)]
    if not ctx.anchor(R, "Connection::write_response_to_stream", len(bs) == 1):
        return
    b = bs[0]
    writes = [bb for bb, t in b.calls() if re.search(r"::write_all$", t["fn"] or "")]
    if not ctx.anchor(R, "write_all in write_response_to_stream", len(writes) == 1, b.where()):
        return
    after = b.reach_from(writes[0])
    n = 0
    for bi, si, kind, term in return_assignments(b):
        if kind != "Err" or bi not in after or term is None:
            continue
        n += 1
        s = show(term)
        m = re.search(r"ConnectionEvent:(\w+)", s)
        ctx.ob(R, b, "failure exit #%d after the write started" % n, bool(m) and m.group(1) == "DisconnectWithoutFlush",
               "write_response_to_stream reports %s after a write that failed or timed out: the caller flushes the queued "
               "responses behind a frame that may have been written only in part, and the peer reads them as the rest of "
               "that frame" % (m.group(1) if m else s[:60]), b.where(bi))


def rule_accept(ctx, F):
    R = "C16.accept"
    ctx.floor(R, 1)
    bs = [b for p, b in F.bodies.items() if re.match(r"^net::server::stream::StreamServer::<.*>::run_until_error::\{closure#0\}$", p)]
    if not ctx.anchor(R, "StreamServer::run_until_error", len(bs) == 1):
        return
    b = bs[0]
    n = 0
    for bi, si, kind, term in return_assignments(b):
        if kind != "Err":
            continue
        n += 1
        # the `?` / match arm this return belongs to: the closest dominating failure outcome
        srcs = []
        for tt, v, _ in facts_at(b, bi, F):
            if v in (("variant", "Break"), ("variant", "Err")):
                cs = [s[1].split("::")[-1] for s in walk(deep_strip(tt)) if s[0] == "call" and s[1] and not s[1].endswith("Try::branch")]
                if cs:
                    srcs = cs
        first = srcs[0] if srcs else "?"
        ctx.ob(R, b, "error return #%d is the outcome of a server command" % n, first == "process_server_command",
               "StreamServer::run_until_error returns an error that is not the outcome of process_server_command (it stems "
               "from %s): a single failed accept ends the accept loop and no later client is served" % first, b.where(bi))
    ctx.ob(R, b, "the accept loop has an error exit at all", n >= 1, "no error return found in run_until_error", nontrivial=False)


def _one(F, rx):
    bs = [b for p, b in F.bodies.items() if re.search(rx, p) and "::test" not in p]
    return bs[0] if len(bs) == 1 else None


def rule_size(ctx, F):
    R = "C16.size"
    ctx.floor(R, 5)
    b = _one(F, r"^net::server::middleware::edns::EdnsMiddlewareSvc::<.*>::preprocess$")
    if not ctx.anchor(R, "EdnsMiddlewareSvc::preprocess", b):
        return
    sets_all = b.calls_matching(r"UdpTransportContext::set_max_response_size_hint$")
    sets = [(bb_, t_) for bb_, t_ in sets_all if any(s[0] == "call" and re.search(r"::udp_payload_size$", s[1] or "")
                                                     for s in walk(b.term_of_operand(t_["args"][1])))]
    plain = [(bb_, t_) for bb_, t_ in sets_all if (bb_, t_) not in sets]
    if not ctx.anchor(R, "set_max_response_size_hint call with the negotiated size", len(sets) == 1, b.where()):
        return
    # "or 512 without EDNS": a UDP request without an OPT record gets the classic limit, not the server's EDNS limit
    ok512 = False
    for bb_, t_ in plain:
        v_ = deep_strip(b.term_of_operand(t_["args"][1]))
        if v_[0] == "agg" and v_[1][:3] == ("adt", "core::option::Option", "Some") and const_value(deep_strip(v_[2][0])) == MIN:
            ok512 = True
    if not ok512:
        # ... or the truncating middleware caps the limit itself for a request without OPT
        tb = _one(F, r"^net::server::middleware::mandatory::MandatoryMiddlewareSvc::<.*>::truncate$")
        if tb is not None:
            for bb_, t_ in tb.calls():
                if re.search(r"cmp::min$|Ord(<.*>)?::min$", t_["fn"] or "") and any(const_value(deep_strip(tb.term_of_operand(a))) == MIN for a in t_["args"]):
                    noopt = any("::opt(" in show(tm) and (("is_none(" in show(tm) and v is True) or ("is_some(" in show(tm) and v is False) or v == ("variant", "None"))
                                for tm, v, _e in facts_at(tb, bb_, F))
                    if noopt:
                        ok512 = True
    ctx.ob(R, b, "a UDP request without an OPT record is limited to 512 octets", ok512,
           "neither EdnsMiddlewareSvc::preprocess nor MandatoryMiddlewareSvc::truncate lowers the limit for a UDP request that carries "
           "no OPT record; it stays at the server's configured EDNS limit (1232 by default): a requestor that does not speak EDNS is sent up to 1232 octets "
           "without TC instead of at most 512 (RFC 1035 2.3.4, RFC 6891 7)")
    bb, t = sets[0]
    v = b.term_of_operand(t["args"][1])
    calls = [s for s in walk(v) if s[0] == "call" and s[1]]

    def named(rx):
        return [s for s in calls if re.search(rx, s[1])]
    mins = named(r"Ord>?::min$|::min$")
    maxs = named(r"Ord>?::max$|::max$")
    clamps = named(r"::clamp$")
    size = named(r"OptRecord::<.*>::udp_payload_size$|::udp_payload_size$")
    hint = named(r"UdpTransportContext::max_response_size_hint$")
    ctx.ob(R, b, "limit derives from the client's advertised size", bool(size),
           "the negotiated UDP limit stored in the transport context does not depend on the OPT record's payload size")
    # max(512, client)
    okmax = any(any(const_value(a) == MIN for a in s[3]) and any(x in walk(a) for a in s[3] for x in size) for s in maxs)
    ctx.ob(R, b, "advertised sizes below 512 count as 512", okmax,
           "the client's advertised payload size is not raised to at least 512 (u16::max(512, size)) before it is used "
           "as the response limit (RFC 6891 6.2.3)")
    # server hint clamped into [512, clamped client]
    okclamp = any(len(s[3]) == 3 and const_value(s[3][1]) == MIN and any(m in walk(s[3][2]) for m in maxs) for s in clamps) \
        or not hint
    if not okclamp:
        # `hint.map(|v| v.clamp(512, clamped_client))`: the clamp lives in a closure that captures the clamped client size
        from mirlib import closures_created_in, resolve_captures
        for bi, cb, ops in closures_created_in(F, b):
            for cbb, ct in cb.calls():
                if re.search(r"::clamp$", ct["fn"] or "") and len(ct["args"]) == 3 and const_value(cb.term_of_operand(ct["args"][1])) == MIN:
                    hi = resolve_captures(F, cb, cb.term_of_operand(ct["args"][2]))
                    if any(s[0] == "call" and re.search(r"::max$", s[1] or "") for s in walk(hi)):
                        okclamp = True
    ctx.ob(R, b, "server hint clamped to [512, client size]", okclamp,
           "the configured limit is not clamped into [512, clamped client size]")
    okmin = any(len(s[3]) == 2 and any(m in walk(s[3][0]) or m in walk(s[3][1]) for m in maxs) for s in mins)
    ctx.ob(R, b, "limit = min(client size, server hint)", okmin or not hint,
           "the stored limit is not the smaller of the clamped client size and the clamped server hint: a response "
           "larger than what the client (or the operator) allows would be sent over UDP")
    # on the UDP arm every way of letting the request through has stored the negotiated limit
    bf = BranchFacts(b, F)
    udp = None
    for sw in sorted(b.reachable_blocks()):
        if b.blocks[sw]["t"]["k"] != "switch":
            continue
        for lab, (tt, vv) in bf.edge_facts(sw).items():
            if vv == ("variant", "Udp") and "transport_ctx" in show(deep_strip(tt)):
                udp = b.edge_target(sw, lab)
    conts = sorted({r[0] for r in return_assignments(b) if r[2] == "Continue"})
    if ctx.anchor(R, "the UDP arm of the transport match and the Continue returns", udp is not None and bool(conts), b.where()):
        okp, path = must_pass(b, udp, conts, [bb])
        ctx.ob(R, b, "every request let through on the UDP arm has had its limit negotiated", okp,
               "EdnsMiddlewareSvc::preprocess can return Continue on the UDP arm for a request with an OPT record without "
               "storing the negotiated response size (path %s): the response is truncated against the server's limit, not "
               "the smaller size the client advertised" % (fmt_path(path) if path else ""), b.where(bb))
    # the value stored is Some(..) of that
    some = deep_strip(v)
    ctx.ob(R, b, "the negotiated value is what is stored", some[0] == "agg" and some[1][:3] == ("adt", "core::option::Option", "Some"),
           "set_max_response_size_hint is not given Some(negotiated limit)")


def rule_trunc(ctx, F):
    R = "C16.trunc"
    ctx.floor(R, 5)
    b = _one(F, r"^net::server::middleware::mandatory::MandatoryMiddlewareSvc::<.*>::truncate$")
    if not ctx.anchor(R, "MandatoryMiddlewareSvc::truncate", b):
        return
    tcs = [(bb, t) for bb, t in b.calls() if (t["fn"] or "").endswith("Header::set_tc")]
    if not ctx.anchor(R, "set_tc call in truncate", len(tcs) == 1, b.where()):
        return
    tb, tt = tcs[0]
    ctx.ob(R, b, "TC is set to true", const_value(b.term_of_operand(tt["args"][1])) in (1, True),
           "truncate calls set_tc with something other than true", b.where(tb))
    # the over-limit fact: len(response) > hint.unwrap_or(512)
    over = None
    for (x, rel, y) in relations(b, tb, F):
        xs, ys = show(deep_strip(x)), show(deep_strip(y))
        if rel == "<" and "max_response_size_hint" in show(x) + xs and "len(" in ys:
            over = (x, y)
    if over is not None:
        lim, ln = deep_strip(over[0]), deep_strip(over[1])
        while ln[0] == "cast":
            ln = deep_strip(ln[2])
        while lim[0] == "cast":
            lim = deep_strip(lim[2])
        # the limit is the hint (or its default), possibly capped (min) for requests without EDNS -- but never with slack added
        exact = ln[0] == "call" and (ln[1] or "").endswith("::len") and \
            any(s[0] == "call" and re.search(r"::unwrap_or$", s[1] or "") for s in walk(lim)) and \
            not any(s[0] == "bin" and re.sub("(Unchecked|WithOverflow)", "", s[1]) in ("Add", "Sub", "Mul", "Div", "Shl", "Shr") for s in walk(lim))
        ctx.ob(R, b, "the whole response length is compared with the limit itself", bool(exact),
               "truncate compares %s with %s: the comparison must be `response length > limit` without slack, or responses "
               "one or two octets over the limit go out untruncated with TC clear" % (show(over[1])[:60], show(over[0])[:60]), b.where(tb))
    # the replacement itself has to fit: the OPT record that is carried over can be as large as the service made it
    minimal = [bb for bb, t_ in b.calls() if re.search(r"AdditionalBuilder::<.*>::opt(::<.*>)?$", t_["fn"] or "")]
    if ctx.anchor(R, "minimal OPT fallback in truncate", len(minimal) >= 1, b.where()):
        bf = BranchFacts(b, F)
        sized = False
        for sw in sorted(b.reachable_blocks()):
            if b.blocks[sw]["t"]["k"] != "switch" or not b.dominates(tb, sw):
                continue
            for lab, (tm_, v_) in bf.edge_facts(sw).items():
                s_ = show(deep_strip(tm_))
                if "len(" in s_ and ("max_response_size_hint" in s_ or "unwrap_or" in s_) and isinstance(v_, bool):
                    tgt = b.edge_target(sw, lab)
                    if any(m in b.reach_from(tgt) for m in minimal):
                        sized = True
        ctx.ob(R, b, "the OPT record carried into the truncated response is dropped for a minimal one when it does not fit", sized,
               "truncate re-pushes the response's whole OPT record and falls back to a minimal one only when the push itself "
               "fails (64 KiB): with 600 octets of options in the OPT record the `truncated` reply to a client that advertised "
               "512 octets is 651 octets long", b.where(minimal[0]))
    ctx.ob(R, b, "TC only when the response is longer than the limit", over is not None,
           "set_tc(true) is not dominated by `response length > limit` with the limit taken from the transport "
           "context's max_response_size_hint", b.where(tb))
    if over is not None:
        dflt = [const_value(a) for s in walk(over[0]) if s[0] == "call" and re.search(r"::unwrap_or$", s[1] or "") for a in s[3][1:]]
        ctx.ob(R, b, "limit defaults to 512 without a hint", dflt == [MIN],
               "without a negotiated limit truncate must fall back to 512 octets (found default %s)" % dflt, b.where(tb))
    # the replacement: question pushes and the OPT only
    pushes = []
    for bb, t in b.calls():
        fn = t["fn"] or ""
        if re.search(r"message_builder::(AnswerBuilder|AuthorityBuilder)::<.*>::push$", fn):
            pushes.append((bb, fn))
    ctx.ob(R, b, "nothing is pushed into the answer or authority section of the truncated response", not pushes,
           "truncate re-adds records to %s: the replacement must be header + question + OPT" % [p[1].split("::")[-3] for p in pushes])
    qp = [bb for bb, t in b.calls() if re.search(r"message_builder::QuestionBuilder::<.*>::push$", t["fn"] or "")]
    ctx.ob(R, b, "the question is copied into the truncated response", bool(qp) and all(b.dominates(tb, q) for q in qp),
           "the truncated response does not repeat the question section")
    # the replacement is assigned on the over-limit path only
    stores = []
    for bi in b.reachable_blocks():
        for st in b.blocks[bi]["s"]:
            if st[0] == "=" and st[1] == [2, "*"]:
                stores.append(bi)
    ctx.ob(R, b, "the response is replaced only on the over-limit path", bool(stores) and all(b.dominates(tb, s) for s in stores),
           "the response is replaced by the truncated form on a path where TC was not set (or never replaced)")


def rule_reply(ctx, F):
    R = "C16.reply"
    ctx.floor(R, 3)
    mk = _one(F, r"^net::server::util::mk_error_response$")
    if ctx.anchor(R, "util::mk_error_response", mk):
        sa = [t["fn"] for _, t in mk.calls() if re.search(r"MessageBuilder::<.*>::(start_error|start_answer)$", t["fn"] or "")]
        ctx.ob(R, mk, "error responses start from the request", bool(sa),
               "mk_error_response does not build the reply with start_error/start_answer of the request: the ID and "
               "question of the request would not be echoed")
    for fn in ("start_answer", "start_error"):
        b = _one(F, r"^base::message_builder::MessageBuilder::<Target>::%s$" % fn)
        if not ctx.anchor(R, "MessageBuilder::%s" % fn, b):
            continue
        ids = [t for _, t in b.calls() if (t["fn"] or "").endswith("Header::set_id")]
        ok = False
        for t in ids:
            v = deep_strip(b.term_of_operand(t["args"][1]))
            if any(s[0] == "call" and (s[1] or "").endswith("Header::id") for s in walk(v)):
                ok = True
        ctx.ob(R, b, "reply ID = request ID", ok,
               "%s does not copy the request's ID into the reply header" % fn)
        qs = [t for _, t in b.calls() if re.search(r"QuestionBuilder::<.*>::push$|::push$", t["fn"] or "") and
              any(any(s[0] == "call" and re.search(r"(question|first_question|sole_question)$", s[1] or "") for s in walk(b.term_of_operand(a))) for a in t["args"])]
        qcall = [t for _, t in b.calls() if re.search(r"Message::<.*>::(question|first_question|sole_question)$", t["fn"] or "")]
        ctx.ob(R, b, "reply repeats the request's question", bool(qs) or bool(qcall),
               "%s does not copy the question section of the request" % fn, nontrivial=False)


def rule_frame(ctx, F):
    R = "C16.frame"
    ctx.floor(R, 2)
    n = 0
    conn = [b for p, b in F.bodies.items() if p.startswith("net::server::connection::") and "::test" not in p]
    stream_writes = []
    for b in conn:
        for bb, t in b.calls():
            fn = t["fn"] or ""
            if not re.search(r"::write_all$|::write$|::write_vectored$|::try_write$", fn) or len(t["args"]) < 2:
                continue
            v = b.term_of_operand(t["args"][1])
            names = [s[1] for s in walk(v) if s[0] == "call" and s[1]]
            if any(x.endswith("StreamTarget::<Target>::as_stream_slice") for x in names):
                stream_writes.append((b, bb))
            elif any(x.endswith("StreamTarget::<Target>::as_dgram_slice") for x in names):
                n += 1
                ctx.ob(R, b, "stream connection never writes the bare message", False,
                       "net::server::connection writes as_dgram_slice() to the stream: the two-octet length prefix is missing",
                       b.where(bb))
    ctx.ob(R, "net::server::connection", "responses on a stream are written with their length prefix", bool(stream_writes),
           "no write of StreamTarget::as_stream_slice() to the stream found in the connection code")
    dg = [b for p, b in F.bodies.items() if p.startswith("net::server::dgram::") and "::test" not in p]
    dwrites = [(b, bb) for b in dg for bb, t in b.calls() if (t["fn"] or "").endswith("StreamTarget::<Target>::as_dgram_slice")]
    swrong = [(b, bb) for b in dg for bb, t in b.calls() if (t["fn"] or "").endswith("StreamTarget::<Target>::as_stream_slice")]
    ctx.ob(R, "net::server::dgram", "datagram responses are written without a length prefix", bool(dwrites) and not swrong,
           "the datagram server must send as_dgram_slice() (found dgram writes: %d, stream-form writes: %d)" % (len(dwrites), len(swrong)))


PARSE_ERR = re.compile(r"(base::wire::ParseError|octseq::(parse::)?ShortInput|base::wire::FormError|ShortMessage|CopyRecordsError|tsig::TsigError)")
# the files the property is anchored in
SCOPE_FILES = re.compile(r"^src/net/server/")   # the transports and every middleware layered on them
WIRE = re.compile(r"(Message::<.*>::(qtype|first_question|sole_question|opt|opcode|rcode|question)$|Header::(opcode|rcode|qr|tc|id)$|"
                  r"HeaderCounts::\w+count$|OptRecord::<.*>::\w+$|Parser::<.*>::parse_\w+$)")
AUDIT = {
    ("net::server::middleware::xfr::responder::BatchingRrResponder::<RequestOctets, Target>::run::{closure#0}", "sole_question"):
        "BatchingRrResponder is created only by XfrMiddlewareSvc::preprocess (two call sites) after get_relevant_question() "
        "returned Some, which it does only for msg.sole_question() == Ok(AXFR|IXFR question); the responder keeps that message",
}


def rule_panic(ctx, F):
    R = "C16.panic"
    ctx.floor(R, 1)
    n = 0
    seen = {}
    scope = 0
    for p, b in sorted(F.bodies.items()):
        q = p.lstrip("<")
        if "::test" in p or "::tests::" in p or not SCOPE_FILES.match(b.file):
            continue
        scope += 1
        for bi, t in b.calls():
            fn = t["fn"] or ""
            x = t.get("x") or []
            if re.search(r"core::result::Result::<.*>::(unwrap|expect)$", fn) and len(t["targs"]) >= 2 and PARSE_ERR.search(t["targs"][1]):
                n += 1
                src = next((s for s in walk(deep_strip(b.term_of_operand(t["args"][0]))) if s[0] == "call"), None)
                sname = src[1].split("::")[-1] if src else "?"
                k = (p, sname)
                seen[k] = seen.get(k, 0) + 1
                rebuilt = src is not None and re.search(r"(from_octets|from_slice)$", src[1] or "") and \
                    any(s[0] == "call" and re.search(r"(finish|into_message|as_slice|freeze|as_dgram_slice)$", s[1] or "") for s in walk(src))
                ctx.ob(R, b, "unwrap of %s#%d" % (sname, seen[k]), bool(rebuilt) or (p, sname) in AUDIT,
                       "unwrap/expect of a parse result (%s) in the server code: malformed input from one client "
                       "panics the server task" % t["targs"][1].split("::")[-1], b.where(bi),
                       detail="re-parses octets a builder just produced" if rebuilt else AUDIT.get((p, sname)))
            if re.search(r"core::panicking::(panic|panic_fmt|unreachable_display|panic_explicit)", fn) and x:
                macros = [m for m in x if m in ("unreachable", "panic", "todo", "unimplemented")]
                if not macros:
                    continue
                ctrl = []
                for tt in control_terms(b, bi, F):
                    for s in walk(deep_strip(tt)):
                        if s[0] == "call" and s[1] and WIRE.search(s[1]):
                            ctrl.append(s[1].split("::")[-1])
                if not ctrl:
                    continue
                n += 1
                k = (p, macros[0])
                seen[k] = seen.get(k, 0) + 1
                ctx.ob(R, b, "%s!#%d under request content" % (macros[0], seen[k]), False,
                       "%s!() is reached under a branch on request content (%s): a hostile request panics the server"
                       % (macros[0], sorted(set(ctrl))), b.where(bi))
    # a wildcard arm `_ => unreachable!()` behind *guarded* arms: a listed value whose guards all fail falls through to it
    nf = 0
    for p, b in sorted(F.bodies.items()):
        if not p.startswith(("net::server::", "<net::server::")) or "::test" in p or not b.file.startswith("src/net/server/"):
            continue
        us = [bi for bi in b.reachable_blocks()
              if b.blocks[bi]["t"]["k"] == "call" and re.search(r"core::panicking::", b.blocks[bi]["t"]["fn"] or "")
              and "unreachable" in (b.blocks[bi]["t"].get("x") or [])]
        for u in us:
            for sw in sorted(b.reachable_blocks()):
                tm = b.blocks[sw]["t"]
                if tm["k"] != "switch" or tm["ty"] == "bool" or not b.dominates(sw, u):
                    continue
                # only a match whose wildcard is the panic: the otherwise edge leads (linearly) to it
                ot = b.edge_target(sw, ("o",))
                if ot is None:
                    continue
                # the wildcard arm *is* the panic: from the otherwise edge a straight line (no further branching) leads to it
                cur, straight = ot, False
                for _ in range(8):
                    if cur == u:
                        straight = True
                        break
                    nx = [s for s, _l in b.succs(cur)]
                    if len(nx) != 1:
                        break
                    cur = nx[0]
                if not straight:
                    continue
                xs = b.blocks[u]["t"].get("x") or []
                if any("select" in str(m) or "join" in str(m) for m in xs):
                    continue            # generated by tokio::select! / join!, not a match written in the crate
                from rulelib import value_states
                at, keyfn = value_states(b, F)
                if at is None:
                    ctx.undecided_item(R, p, "value exploration exceeded its budget")
                    continue
                bf_ = BranchFacts(b, F)
                ef = bf_.edge_facts(sw)
                key = None
                for lab, (tmx, vx) in ef.items():
                    if isinstance(vx, tuple) and vx[0] in ("eq", "ne"):
                        key = keyfn(tmx)
                if key is None:
                    continue
                for v, tgt in tm["v"]:
                    if tgt == ot:
                        continue
                    nf += 1
                    # is the panic reachable on a path on which the matched value is v?
                    live = [st for st in at.get(u, set()) if st != "DEAD" and dict(st).get(key) == ("eq", v)]
                    ctx.ob(R, b, "listed value %s of the match cannot fall through to unreachable!()" % v, not live,
                           "%s: every arm for the value %s has a guard (`if ..`) that can fail while the value is %s; the match then falls "
                           "through to `_ => unreachable!()` -- an AXFR query over TCP that carries a SOA in its authority section makes "
                           "the data provider return diffs, no arm takes it and the server task panics"
                           % (p.split("::{closure")[0].split("::")[-1], v, v), b.where(u))
    ctx.call_sites += nf
    ctx.ob(R, "net::server", "scanned", True, nontrivial=False,
           detail="%d server bodies scanned, %d unwrap/panic sites examined, %d guarded match values" % (scope, n, nf))
    ctx.call_sites += n


# ---------------------------------------------------------------------------
# every response a service yields is enqueued
# ---------------------------------------------------------------------------

def rule_once(ctx, F):
    R = "C16.once"
    ctx.floor(R, 2)
    bs = [b for p, b in F.bodies.items() if re.match(r"^net::server::invoker::ServiceInvoker::dispatch::\{closure#0\}$", p)]
    if not ctx.anchor(R, "ServiceInvoker::dispatch", len(bs) == 1):
        return
    b = bs[0]
    proc = [bb for bb, t in b.calls() if re.search(r"ServiceInvoker::process_response_stream_item$", t["fn"] or "")]
    enq = [bb for bb, t in b.calls() if re.search(r"ServiceInvoker::enqueue_response$", t["fn"] or "")]
    if not ctx.anchor(R, "process_response_stream_item / enqueue_response in dispatch", len(proc) == 1 and len(enq) >= 1, b.where()):
        return
    # the None edge of the processed item (nothing to send) is the only legitimate way past enqueue_response
    none_targets = set()
    bf = BranchFacts(b, F)
    for sw in b.reachable_blocks():
        t = b.blocks[sw]["t"]
        if t["k"] != "switch":
            continue
        for lab, (tt, vv) in bf.edge_facts(sw).items():
            if isinstance(vv, tuple) and vv == ("variant", "None"):
                if any(s[0] == "call" and s[5] == proc[0] for s in walk(tt)):
                    none_targets.add(b.edge_target(sw, lab))
    heads = [h for h, t in b.calls() if re.search(r"StreamExt::next$|Stream::poll_next$|::next$", t["fn"] or "") and proc[0] in b.reach_from(h) and h in b.reach_from(proc[0])]
    rets = set(b.return_blocks())
    r = b.reach_from(proc[0], removed_blocks=set(enq) | none_targets)
    leak = [x for x in list(rets) + heads if x in r and x != proc[0]]
    ctx.ob(R, b, "a produced response is enqueued before the invoker goes on or stops", not leak,
           "ServiceInvoker::dispatch can reach the next stream item or leave the loop after process_response_stream_item "
           "returned a response without passing enqueue_response (e.g. the Aborting check runs first): a failing service's "
           "error response, or the last response of a stream, is built and dropped — the client gets no answer", b.where(proc[0]))
    p = _one(F, r"^net::server::invoker::ServiceInvoker::process_response_stream_item$")
    if ctx.anchor(R, "ServiceInvoker::process_response_stream_item", p):
        mk = [bb for bb, t in p.calls() if re.search(r"util::mk_error_response$", t["fn"] or "")]
        ok = False
        for rb, si, kind, term in return_assignments(p):
            if kind == "Some" and term is not None and any(s[0] == "call" and s[5] in mk for s in walk(term)):
                ok = True
        ctx.ob(R, p, "a service error becomes an error response (not silence)", ok,
               "process_response_stream_item does not turn Err(ServiceError) into Some(mk_error_response(..))")


def rule_queue(ctx, F):
    """The stream connection's do_enqueue_response hands a response to the write queue with try_send.  The only exits without
    the response in the queue may be `the connection is shutting down` (Closed); on Full the response has to be kept and
    tried again (as the InTransaction arm does), not logged and dropped."""
    R = "C16.once"
    bs = [b for p, b in F.bodies.items() if re.match(r"^net::server::connection::ServiceResponseHandler::<.*>::do_enqueue_response::\{closure#0\}$", p)]
    if not ctx.anchor(R, "connection::ServiceResponseHandler::do_enqueue_response", len(bs) == 1):
        return
    b = bs[0]
    bf = BranchFacts(b, F)
    full = []
    import json as _json
    for sw in sorted(b.reachable_blocks()):
        if b.blocks[sw]["t"]["k"] != "switch":
            continue
        for lab, (tm, v) in bf.edge_facts(sw).items():
            if isinstance(v, tuple) and v == ("variant", "Full"):
                full.append(b.edge_target(sw, lab))
    if not full:
        # the variants of the foreign enum are not named in the facts: the arm is the one that takes the payload `as Full`
        for bi in sorted(b.reachable_blocks()):
            if b.blocks[bi].get("c"):
                continue
            if any('"as", "Full"' in _json.dumps(st) for st in b.blocks[bi]["s"]):
                full.append(bi)
    sends = [bb for bb, tt in b.calls() if re.search(r"mpsc::(bounded::)?Sender::<.*>::(try_send|send)$", tt["fn"] or "")]
    if not ctx.anchor(R, "try_send and its Full arm in do_enqueue_response", bool(full) and bool(sends), b.where()):
        return
    rets = set(b.return_blocks())
    leak = []
    for f in full:
        r = b.reach_from(f, removed_blocks=set(sends))
        leak += [x for x in rets if x in r]
    ctx.ob(R, b, "a response that finds the write queue full is kept and offered again", not leak,
           "do_enqueue_response leaves through the `queue is full` arm without the response having been queued (it is logged and "
           "dropped unless the handler is in a transaction): of 40 requests pipelined in one segment only the first 10 to 35 are "
           "answered", b.where(full[0]))


def rule_recv(ctx, F):
    """The stream connection's read is not cancel-safe: its future is created once, pinned, and polled across events.  A new
    one may only be created after the old one has delivered its message -- every cycle through the `recv()` call passes
    through the handling of a received request."""
    R = "C16.recv"
    ctx.floor(R, 1)
    bs = [b for p, b in F.bodies.items() if re.match(r"^net::server::connection::Connection::<.*>::run_until_error::\{closure#0\}$", p)]
    if not ctx.anchor(R, "Connection::run_until_error", len(bs) == 1):
        return
    b = bs[0]
    from rulelib import on_every_cycle
    rc = [bb for bb, tt in b.calls() if re.search(r"DnsMessageReceiver::<.*>::recv$", tt["fn"] or "")]
    pr = [bb for bb, tt in b.calls() if re.search(r"::process_read_request$", tt["fn"] or "")]
    if not ctx.anchor(R, "recv() future creation and process_read_request in run_until_error", len(rc) == 1 and len(pr) == 1, b.where()):
        return
    ctx.ob(R, b, "a new read future is created only after the previous one delivered a request", on_every_cycle(b, rc[0], pr[0]),
           "run_until_error can go back to `dns_msg_receiver.recv()` without the pending read future having completed (after a "
           "server command, a queued response or the idle timer): the pinned future is dropped in the middle of a request that "
           "arrived in two segments, the stream loses its framing and the connection is torn down", b.where(rc[0]))


def rule_hint(ctx, F):
    """The response size the EDNS middleware negotiates is written into the request's UDP context and read by the truncating
    middleware from *its* copy of the request: the copies have to share the hint (Arc), a clone must not get a fresh one."""
    R = "C16.hint"
    ctx.floor(R, 1)
    bs = [b for p, b in F.bodies.items() if re.match(r"^<net::server::message::UdpTransportContext as core::clone::Clone>::clone$", p)]
    if not ctx.anchor(R, "UdpTransportContext::clone", len(bs) == 1):
        return
    b = bs[0]
    shared = [bb for bb, tt in b.calls() if re.search(r"Arc<.*> as core::clone::Clone>::clone$|Arc::<.*>::clone$|Clone::clone$", (tt.get("res") or tt["fn"] or ""))
              and "max_response_size_hint" in show(deep_strip(b.term_of_operand(tt["args"][0])))]
    fresh = [bb for bb, tt in b.calls() if re.search(r"Arc::<.*>::new$|UdpTransportContext::new$|Mutex::<.*>::new$", tt["fn"] or "")]
    ctx.ob(R, b, "a cloned request shares the size hint of the original", bool(shared) and not fresh,
           "UdpTransportContext::clone gives the copy a hint of its own: the size the EDNS middleware negotiates for the copy it "
           "was handed never reaches the middleware that truncates, which still sees the server's limit -- a client that "
           "advertised 700 octets gets 850", b.where())


def rule_idle_guard(ctx, F):
    """(C16.idle) The guard that holds the idle timeout back lives as long as the request is being processed: the
    InTransaction value created when a request is handed to the service is moved into the task that is spawned to call
    the service (a captured variable of that coroutine), not dropped at the end of the statement that spawned it."""
    R = "C16.idle"
    bs = [b for p, b in F.bodies.items() if re.search(r"^net::server::connection::Connection::<.*>::process_read_request::\{closure#0\}$", p)]
    if not ctx.anchor(R, "Connection::process_read_request", len(bs) == 1):
        return
    b = bs[0]
    news = [bb for bb, t in b.calls() if re.search(r"connection::InTransaction::new$", t["fn"] or "")]
    for bi in b.reachable_blocks():          # ... or its body, if the constructor was inlined
        for st in b.blocks[bi]["s"]:
            if st[0] == "=" and st[2][0] == "agg" and st[2][1][0] == "adt" and str(st[2][1][1]).endswith("connection::InTransaction"):
                news.append(bi)
    if not ctx.anchor(R, "InTransaction::new in process_read_request", len(news) >= 1, b.where()):
        return
    spawned = []
    for bi in b.reachable_blocks():
        for st in b.blocks[bi]["s"]:
            if st[0] == "=" and st[2][0] == "agg" and st[2][1][0] == "coroutine":
                caps = [b.locals[o[1][0]] if o[0] in ("c", "m") else "" for o in st[2][2]]
                if any(c.endswith("connection::InTransaction") for c in caps):
                    spawned.append(bi)
    for nb in news:
        ok = any(b.dominates(nb, sb) for sb in spawned)
        ctx.ob(R, b, "the in-transaction guard travels with the task that calls the service", ok,
               "process_read_request creates the InTransaction guard but no spawned task takes it along: it is dropped as soon as "
               "the task has been spawned, the idle timeout sees no request in flight and closes the connection under a service "
               "call that takes longer than the timeout", b.where(nb))


def rule_idle(ctx, F):
    """The idle timeout of a stream connection (RFC 7766 6.2.3) must not close a connection on which a request is still being
    processed: the condition in process_dns_idle_timeout reads a shared flag / counter for that -- which somebody has to
    *write* when a request is handed to the service.  A guard that is only ever read is no guard."""
    R = "C16.idle"
    ctx.floor(R, 1)
    b = _one(F, r"^net::server::connection::Connection::<.*>::process_dns_idle_timeout$")
    if not ctx.anchor(R, "Connection::process_dns_idle_timeout", b):
        return
    loads = []
    for bb, tt in b.calls():
        if re.search(r"atomic::Atomic(\w+|::<\w+>)::load$", tt["fn"] or ""):
            tm = deep_strip(b.term_of_operand(tt["args"][0]))
            flds = [s[2] for s in walk(tm) if s[0] == "field" and isinstance(s[2], str)]
            if flds:
                loads.append(flds[-1] if flds[-1] not in ("0",) else flds[0])
    if not ctx.anchor(R, "the outstanding-request guard read by the idle timeout", len(loads) >= 1, b.where()):
        return
    for fld in sorted(set(loads)):
        writers = []
        for p, wb in F.bodies.items():
            if not re.match(r"^<?net::server::connection::", p) or "::test" in p:
                continue
            for bb, tt in wb.calls():
                if re.search(r"atomic::Atomic(\w+|::<\w+>)::(store|fetch_add|fetch_or|swap|fetch_sub|compare_exchange)$", tt["fn"] or ""):
                    s = show(deep_strip(wb.term_of_operand(tt["args"][0])))
                    nm = set(x for x in re.findall(r"[A-Za-z_][A-Za-z0-9_]*", s))
                    # the same Arc travels under the field's name or a local cloned from it
                    names = {wb.var_name(x[1]) for x in walk(wb.term_of_operand(tt["args"][0])) if x[0] in ("local",)} | nm
                    if fld in names or any(fld in (n or "") for n in names):
                        writers.append(p)
        ctx.ob(R, b, "the flag `%s` that holds the idle timeout back is set somewhere" % fld, bool(writers),
               "process_dns_idle_timeout lets the timeout pass only while `%s` is set, but nothing in net::server::connection ever "
               "writes it: the connection is closed (without flushing) while a request is still being processed -- with "
               "idle_timeout 300 ms a response that takes 800 ms is never sent" % fld, b.where())


def rule_cfgfresh(ctx, F):
    """(C16.size) The size limit a datagram response is held to is the one configured *now*: the value handed to
    UdpTransportContext::new is read from the server's config inside the per-datagram function (a `load()` of the
    shared config there), not carried in from a snapshot taken when the receive loop started -- reconfigure() would
    otherwise never reach a running server."""
    R = "C16.size"
    bs = [b for p, b in F.bodies.items() if re.search(r"^net::server::dgram::DgramServer::<.*>::process_received_message$", p)]
    if not ctx.anchor(R, "DgramServer::process_received_message", len(bs) == 1):
        return
    b = bs[0]
    sites = [(bb, t) for bb, t in b.calls() if re.search(r"UdpTransportContext::new$", t["fn"] or "")]
    if not ctx.anchor(R, "UdpTransportContext::new in process_received_message", len(sites) >= 1, b.where()):
        return
    for bb, t in sites:
        tm = deep_strip(b.term_of_operand(t["args"][0]))
        fresh = any(s_[0] == "call" and re.search(r"::load$", s_[1] or "") and "config" in show(s_) for s_ in walk(tm))
        ctx.ob(R, b, "the response size limit is read from the current configuration", fresh,
               "process_received_message builds the transport context from %s, not from a load() of the server's configuration at "
               "that moment: a limit lowered with reconfigure() is not applied to the datagrams that follow" % show(tm)[:100], b.where(bb))


def rule_conncount(ctx, F):
    """(C16.accept) The connection counter that the accept loop compares with max_concurrent_connections is raised by the
    object that lowers it again: `inc_num_connections` is called only from the type whose Drop calls
    `dec_num_connections`, in the function that arms that Drop (`active = true`).  Raised anywhere earlier -- when a
    connection is merely accepted -- set-ups that fail before the object exists are counted for ever and use up the limit."""
    R = "C16.accept"
    decs = [p for p, b in F.bodies.items() if re.search(r" as core::ops::Drop>::drop$", p) and "net::server" in p
            and b.calls_matching(r"dec_num_connections$")]
    if not ctx.anchor(R, "the Drop impl that lowers the connection count", len(decs) == 1):
        return
    owner = re.match(r"^<([\w:]+)", decs[0]).group(1)
    n = 0
    for p, b in sorted(F.bodies.items()):
        if "::test" in p or not b.calls_matching(r"metrics::ServerMetrics::inc_num_connections$|::inc_num_connections$"):
            continue
        if p.endswith("::inc_num_connections"):
            continue
        n += 1
        arms = False
        for bi in b.reachable_blocks():
            for st in b.blocks[bi]["s"]:
                if st[0] == "=" and len(st[1]) > 1:
                    tgt = show(deep_strip(b.term_of_place(st[1])))
                    if tgt.endswith(".active") and const_value(deep_strip(b.term_of_rvalue(st[2]))) in (1, True):
                        arms = True
        ctx.ob(R, b, "the connection count is raised where its decrement is armed", p.startswith(owner + "::") and arms,
               "%s raises the connection count, but the matching decrement belongs to Drop of %s and is armed elsewhere: a "
               "connection whose set-up fails in between (a failed TLS handshake) is never counted down, and "
               "max_concurrent_connections such failures leave the server refusing everyone" % (p.split("net::server::")[-1], owner.split("::")[-1]))
    ctx.ob(R, "net::server", "a place that raises the connection count", n >= 1, "inc_num_connections is never called", nontrivial=False)


def rule_reqopt(ctx, F):
    """512 octets for a requestor without EDNS: whether the requestor used EDNS is read from the *request*.  Where
    MandatoryMiddlewareSvc::truncate lowers the limit to MINIMUM_RESPONSE_BYTE_LEN, the dominating fact is
    `request.message().opt().is_none()` -- an OPT in the response says what the service attached, not what the
    requestor can receive."""
    R = "C16.reqopt"
    ctx.floor(R, 1)
    b = F.one_body(r"^net::server::middleware::mandatory::MandatoryMiddlewareSvc::<.*>::truncate$")
    if not ctx.anchor(R, "MandatoryMiddlewareSvc::truncate", b):
        return
    n = 0
    for bb, t in b.calls():
        if not (t["fn"] or "").endswith("cmp::min"):
            continue
        args = [deep_strip(b.term_of_operand(a)) for a in t["args"]]
        if not any(const_value(a) == 512 for a in args):
            continue
        n += 1
        from_req = False
        other = None
        for s, o in outcome_facts(b, bb, F):
            s = deep_strip(s)
            if o is True and s[0] == "call" and re.search(r"Option::<.*>::is_none$|<T>::is_none$", s[1] or ""):
                inner = [x for x in walk(s) if x[0] == "call" and re.search(r"Message::<.*>::opt$", x[1] or "")]
                if inner:
                    roots = [x for x in walk(inner[0]) if x[0] == "arg"]
                    if roots and all(r == ("arg", 1) for r in roots):
                        from_req = True
                    else:
                        other = show(inner[0])[:80]
        ctx.ob(R, b, "the 512-octet limit applies when the request has no OPT", from_req,
               "truncate() lowers the limit to 512 octets under a test of %s instead of request.message().opt().is_none(): a "
               "requestor that did not use EDNS is sent more than 512 octets whenever the service put an OPT into the response"
               % (other or "something else"), b.where(bb))
    ctx.anchor(R, "min(max_response_size, 512) in truncate", n >= 1, b.where())
