"""C02 — built messages parse back (structural clauses).

C02.rb      MessageBuilder::push: every failure exit truncates to the length
            saved before the append; success needs append ok, limit ok, count ok;
            count increment only after the limit check.
C02.count   section builders increment the header count of their own section.
C02.rewind  going back to an earlier section drops every later section: each
            backward conversion of a section builder reaches `rewind` of every
            section behind the target, and each `rewind` truncates to its own
            start and zeroes its own header count.
C02.hdr     builders handed to a push closure that write the *message header*
            in place (OptBuilder::set_rcode) are undone when the push fails:
            the section builder restores, on the failure outcome of push, every
            header field such a method sets -- truncating the target does not
            reach the header.
C02.shim    StreamTarget: every length-changing call on the inner target is
            followed by update_shim on all success paths; shim arithmetic.
C02.ptr14   compressors: every position that can be OR-ed with 0xC000 was
            stored behind a guard K <= 0x4000 (14-bit pointer).
C02.trunc   compressors forget positions on truncate.
C02.prefix  RDLENGTH back-patch shape / rdlen(can_compress) agreement.
"""
import re
import sigs

from mirlib import strip, deep_strip, show, walk, const_value, BranchFacts
from rulelib import (
    bool_facts, canon, canon_nobb, dominating_edges, facts_at, failed_calls, fmt_path, must_pass,
    outcome_facts, return_assignments, succeeded_calls, underlying_calls, upper_bounds,
)

MB = "base::message_builder::"


def run(ctx):
    F = ctx.facts
    ctx.extra["explanation"] = (
        "C02: rollback-on-error dominance in MessageBuilder::push, section/count agreement, "
        "StreamTarget shim post-domination, 14-bit bound on every stored compression position, "
        "compressor truncate forgets positions, RDLENGTH back-patch shape. Value-level round-trip "
        "equality is not decided."
    )
    rule_rb(ctx, F)
    rule_count(ctx, F)
    rule_rewind(ctx, F)
    rule_hdr(ctx, F)
    rule_shim(ctx, F)
    rule_ptr14(ctx, F)
    rule_trunc(ctx, F)
    rule_prefix(ctx, F)
    # "parses back ... in the right sections": moving on to a later section skips the records in between;
    # skip and parse must accept the same names (shared with C01)
    import c01
    c01.rule_skip(ctx, F)
    # ... and the parser must know whether the name it has read is compressed (flat-slice fast paths rely on it)
    import c03
    c03.rule_flag(ctx, F)
    rule_seqeq(ctx, F)
    rule_secfwd(ctx, F)
    rule_optiter(ctx, F)
    rule_brorder(ctx, F)
    rule_optttl(ctx, F)


# ---------------------------------------------------------------------------

LEVELS = [("QuestionBuilder", "set_qdcount"), ("AnswerBuilder", "set_ancount"),
          ("AuthorityBuilder", "set_nscount"), ("AdditionalBuilder", "set_arcount")]
TARGET_LEVEL = {"builder": -1, "question": 0, "answer": 1, "authority": 2, "additional": 3}


def rule_rewind(ctx, F):
    R = "C02.rewind"
    ctx.floor(R, 14)
    scope = re.compile(r"^<?base::message_builder::")
    # each rewind: truncate(self.start) and its own count := 0
    for lvl, (bname, setter) in enumerate(LEVELS):
        rb = F.body("base::message_builder::%s::<Target>::rewind" % bname)
        if not ctx.anchor(R, "%s::rewind" % bname, rb):
            continue
        sets = [(bb, tt) for bb, tt in rb.calls() if tt["fn"] and "HeaderCounts::set_" in tt["fn"]]
        names = [tt["fn"].split("::")[-1] for _, tt in sets]
        zero = all(const_value(deep_strip(rb.term_of_operand(tt["args"][1]))) == 0 for _, tt in sets)
        ctx.ob(R, rb, "%s::rewind zeroes its own count" % bname, names == [setter] and zero,
               "%s::rewind must set exactly %s(0) (found %s)" % (bname, setter, names))
        tr = [tt for _, tt in rb.calls() if tt["fn"] and tt["fn"].endswith("::truncate")]
        to_start = any("start" in show(deep_strip(rb.term_of_operand(tt["args"][1])))
                       or (lvl == 0 and (const_value(deep_strip(rb.term_of_operand(tt["args"][1]))) == 12
                                         or "size_of" in show(deep_strip(rb.term_of_operand(tt["args"][1]))))) for tt in tr)
        ctx.ob(R, rb, "%s::rewind truncates to the start of its section" % bname, bool(tr) and to_start,
               "%s::rewind does not truncate the target to self.start" % bname)
    # each backward conversion reaches the rewind of every section behind the target
    for lvl, (bname, _) in enumerate(LEVELS):
        for meth, tl in TARGET_LEVEL.items():
            if tl >= lvl:
                continue
            cb = F.body("base::message_builder::%s::<Target>::%s" % (bname, meth))
            if cb is None:
                if lvl - tl >= 1 and not (bname == "QuestionBuilder" and meth == "builder"):
                    ctx.anchor(R, "%s::%s" % (bname, meth), False)
                continue
            reached = {tt["fn"] for _, _, tt in sigs.callees_deep(F, cb, depth=4, scope=scope) if tt["fn"]}
            need = ["base::message_builder::%s::<Target>::rewind" % LEVELS[k][0] for k in range(max(tl + 1, 0), lvl + 1)]
            if tl == -1:
                # `builder()` also has to drop the questions
                need = ["base::message_builder::%s::<Target>::rewind" % LEVELS[k][0] for k in range(0, lvl + 1)]
            missing = [x.split("::")[2] for x in need if x not in reached]
            ctx.ob(R, cb, "%s::%s drops every later section" % (bname, meth), not missing,
                   "%s::%s() does not go through rewind() of %s: the octets may be cut by an outer truncate, but the header "
                   "count of that section is not reset -- the message announces records it does not contain"
                   % (bname, meth, ", ".join(missing)))


def rule_hdr(ctx, F):
    R = "C02.hdr"
    ctx.floor(R, 1)
    # methods of builders living inside a push closure that obtain the mutable message header
    writers = {}
    for p, b in F.bodies.items():
        m = re.match(r"^base::message_builder::(OptBuilder|\w+Builder)::<.*>::(\w+)$", p)
        if not m:
            continue
        if not any((tt["fn"] or "").endswith("Header::for_message_slice_mut") for _, tt in b.calls()):
            continue
        sets = sorted({tt["fn"].split("::")[-1] for _, tt in b.calls()
                       if tt["fn"] and re.search(r"header::Header::set_\w+$", tt["fn"])})
        if sets:
            writers[(m.group(1), m.group(2))] = sets
    if not ctx.anchor(R, "in-place header writers among the push-closure builders", bool(writers)):
        return
    for (bname, meth), sets in sorted(writers.items()):
        # the section builder method that creates this builder inside MessageBuilder::push
        hosts = []
        for p, b in F.bodies.items():
            if not re.match(r"^base::message_builder::\w+Builder::<Target>::\w+$", p):
                continue
            pushes = [(bb, tt) for bb, tt in b.calls() if (tt["fn"] or "").endswith("MessageBuilder::<Target>::push")]
            if not pushes:
                continue
            made = any(re.search(r"message_builder::%s::<.*>::new$" % bname, tt["fn"] or "")
                       for _, _, tt in sigs.callees_deep(F, b, depth=1, scope=re.compile(r"^<?base::message_builder::")))
            if made:
                hosts.append((b, pushes))
        if not ctx.anchor(R, "section builder method that hands out %s" % bname, bool(hosts)):
            continue
        for hb, pushes in hosts:
            pb = pushes[0][0]
            failed = [bb for bb in hb.reachable_blocks() if pb in failed_calls(hb, bb, F)]
            restored = set()
            for bb in failed:
                tt = hb.blocks[bb]["t"]
                if tt["k"] == "call" and tt["fn"] and re.search(r"header::Header::set_\w+$", tt["fn"]):
                    restored.add(tt["fn"].split("::")[-1])
            missing = [s for s in sets if s not in restored]
            ctx.ob(R, hb, "%s::%s is undone when the push fails" % (bname, meth), not missing,
                   "%s::%s writes the message header in place (%s) inside the closure of MessageBuilder::push; when the push "
                   "fails (no space, push limit) %s truncates the target but does not restore the header: a failed push "
                   "leaves the octets changed" % (bname, meth, ", ".join(sets), hb.path.split("::")[-1]), hb.where(pb))


def _calls_on_param(b, argn, rx=r"FnOnce<.*>>::call_once|::call_once$"):
    out = []
    for bb, t in b.calls():
        if t["fn"] and re.search(r"call_once|call_mut|::call$", t["fn"]) and t["args"]:
            a = deep_strip(b.term_of_operand(t["args"][0]))
            if a == ("arg", argn) or (a[0] == "phi" and ("arg", argn) in [deep_strip(x) for x in a[2]]):
                out.append((bb, t))
    return out


def rule_rb(ctx, F):
    R = "C02.rb"
    b = F.body(MB + "MessageBuilder::<Target>::push")
    if not ctx.anchor(R, MB + "MessageBuilder::push", b):
        return
    ctx.floor(R, 8)
    push_calls = _calls_on_param(b, 2)
    inc_calls = _calls_on_param(b, 3)
    if not ctx.anchor(R, "push closure call in MessageBuilder::push", len(push_calls) == 1, b.where()):
        return
    if not ctx.anchor(R, "inc closure call in MessageBuilder::push", len(inc_calls) == 1, b.where()):
        return
    pbb = push_calls[0][0]
    ibb = inc_calls[0][0]
    rets = return_assignments(b)
    errs = [r for r in rets if r[2] == "Err"]
    oks = [r for r in rets if r[2] == "Ok"]
    ctx.anchor(R, "Err returns of MessageBuilder::push", len(errs) >= 1, b.where())
    truncs = b.calls_matching(r"Truncate::truncate$")
    # the saved position: a `len` call on self.target that dominates the append
    good_truncs = []
    for bb, t in truncs:
        tgt = deep_strip(b.term_of_operand(t["args"][0]))
        pos = deep_strip(b.term_of_operand(t["args"][1]))
        ok_tgt = tgt == ("field", ("arg", 1), "target")
        ok_pos = (
            pos[0] == "call" and pos[1] and pos[1].endswith("::len")
            and b.dominates(pos[5], pbb) and pos[5] != pbb
            and b.path_avoiding(pbb, pos[5]) is None  # taken strictly before the append
            and deep_strip(pos[3][0]) == ("field", ("arg", 1), "target")
        )
        if ok_tgt and ok_pos:
            good_truncs.append(bb)
        ctx.ob(R, b, "truncate#%d target/pos" % len(good_truncs), ok_tgt and ok_pos,
               "truncate must be applied to self.target with the length saved before the append "
               "(found target=%s pos=%s)" % (show(tgt), show(pos)), b.where(bb))
    # every path from the append to an Err return passes a good truncate
    for i, (ebb, si, kind, term) in enumerate(errs):
        ok, p = must_pass(b, pbb, [ebb], good_truncs)
        # exits that fail before the append need no rollback: only paths from the append matter
        ctx.ob(R, b, "err-exit#%d rollback" % i, ok,
               "failure exit reachable from the append without truncating back to the saved position; "
               "bypass path: %s" % fmt_path(p), b.where(ebb))
    # Ok return: needs append success, limit check false edge, inc not err
    for i, (obb, si, kind, term) in enumerate(oks):
        succ = succeeded_calls(b, obb, F)
        ctx.ob(R, b, "ok-exit#%d append checked" % i, pbb in succ,
               "Ok(()) must be dominated by the success edge of the append closure", b.where(obb))
        ctx.ob(R, b, "ok-exit#%d count checked" % i, ibb in succ,
               "Ok(()) must be dominated by the success edge of the count increment", b.where(obb))
        lim = _limit_fact(b, obb, F)
        ctx.ob(R, b, "ok-exit#%d limit checked" % i, lim,
               "Ok(()) must be dominated by the passing edge of the new_len-vs-self.limit comparison",
               b.where(obb))
    # ordering: the count increment happens only after the limit check passed and the append succeeded
    ctx.ob(R, b, "inc after limit", _limit_fact(b, ibb, F),
           "header count incremented before the push limit was checked", b.where(ibb))
    ctx.ob(R, b, "inc after append ok", pbb in succeeded_calls(b, ibb, F),
           "header count incremented on a path where the append may have failed", b.where(ibb))


def _limit_fact(b, bb, F):
    """A dominating fact  Ge(len', self.limit)=False  /  Lt(len', limit)=True  where len' is a
    length taken after the append."""
    for t, v in bool_facts(b, bb, F):
        if t[0] != "bin":
            continue
        op, x, y = t[1], t[2], t[3]
        isl = lambda z: z == ("field", ("arg", 1), "limit")
        isn = lambda z: z[0] == "call" and z[1] and z[1].endswith("::len")
        if isn(x) and isl(y) and ((op == "Ge" and v is False) or (op == "Lt" and v is True)):
            return True
        if isl(x) and isn(y) and ((op == "Le" and v is False) or (op == "Gt" and v is True)):
            return True
    return False


# ---------------------------------------------------------------------------

SECTION_COUNT = {
    "QuestionBuilder": "inc_qdcount",
    "AnswerBuilder": "inc_ancount",
    "AuthorityBuilder": "inc_nscount",
    "AdditionalBuilder": "inc_arcount",
}


def rule_count(ctx, F):
    R = "C02.count"
    ctx.floor(R, 5)
    sites = F.callers_of(r"^base::message_builder::MessageBuilder::<Target>::push$")
    n = 0
    for b, bb, t in sites:
        m = re.match(r"base::message_builder::(\w+)::<", b.path)
        if not m or m.group(1) not in SECTION_COUNT:
            ctx.ob(R, b, "caller", False,
                   "MessageBuilder::push called from outside the four section builders", b.where(bb))
            continue
        want = SECTION_COUNT[m.group(1)]
        inc = deep_strip(b.term_of_operand(t["args"][2]))
        clos = None
        if inc[0] == "agg" and inc[1][0] == "closure":
            clos = F.body(inc[1][1])
        if clos is None:
            ctx.ob(R, b, "inc closure", False, "count-increment argument is not a closure literal", b.where(bb))
            continue
        incs = [tt["fn"].split("::")[-1] for _, tt in clos.calls() if tt["fn"] and "HeaderCounts::" in tt["fn"]]
        n += 1
        fname = b.path.split("::")[-1]
        ctx.ob(R, b, "section count via %s" % fname, incs == [want],
               "section builder %s must increment exactly %s (found %s)" % (m.group(1), want, incs),
               b.where(bb))
    ctx.call_sites += len(sites)


# ---------------------------------------------------------------------------

def rule_shim(ctx, F):
    R = "C02.shim"
    ctx.floor(R, 7)
    ST = "base::message_builder::StreamTarget<Target>"
    bodies = [b for p, b in F.bodies.items()
              if (p.startswith("<" + ST + " as ") or p.startswith(MB + "StreamTarget::<Target>::"))
              and "{closure" not in p]
    ctx.anchor(R, "StreamTarget impl bodies", len(bodies) >= 6)
    mutators = re.compile(r"(OctetsBuilder::append_slice|Truncate::truncate|Composer::append_compressed_name|"
                          r"OctetsBuilder::append_slice)$")
    nmut = 0
    for b in bodies:
        if b.path.endswith("::new"):
            continue
        for bb, t in b.calls():
            if not (t["fn"] and mutators.search(t["fn"])):
                continue
            recv = deep_strip(b.term_of_operand(t["args"][0]))
            if recv != ("field", ("arg", 1), "target"):
                continue
            nmut += 1
            shims = [x for x, _ in b.calls_matching(r"StreamTarget::<Target>::update_shim$")]
            # remove the failure edges of this call's own result
            removed = []
            for sw in b.reachable_blocks():
                if b.blocks[sw]["t"]["k"] != "switch":
                    continue
                for s, lab in b.succs(sw):
                    if bb in failed_calls_on_edge(b, sw, lab, F):
                        removed.append((sw, lab))
            ok, p = must_pass(b, bb, b.return_blocks(), shims, removed_edges=removed)
            ctx.ob(R, b, "after %s" % t["fn"].split("::")[-1], ok,
                   "inner target length changed but update_shim is not called on every success path "
                   "to the return; bypass: %s" % fmt_path(p), b.where(bb))
    ctx.anchor(R, "length-changing calls on StreamTarget.target", nmut >= 3)
    # shim arithmetic: update_shim writes try_from(len - 2) big-endian into [..2]
    us = F.body(MB + "StreamTarget::<Target>::update_shim")
    if ctx.anchor(R, "StreamTarget::update_shim", us):
        cps = us.calls_matching(r"copy_from_slice$")
        ok = False
        detail = ""
        for bb, t in cps:
            dst = deep_strip(us.term_of_operand(t["args"][0]))
            src = deep_strip(us.term_of_operand(t["args"][1]))
            detail = "dst=%s src=%s" % (show(dst), show(src))
            rng_ok = (dst[0] == "call" and "index_mut" in (dst[1] or "") and
                      deep_strip(dst[3][1])[0] == "agg" and deep_strip(dst[3][1])[1][1].endswith("RangeTo")
                      and const_value(deep_strip(dst[3][1])[2][0]) == 2
                      and _is_self_target_slice(deep_strip(dst[3][0]), "as_mut"))
            val = src
            val_ok = False
            if val[0] == "call" and (val[1] or "").endswith("to_be_bytes"):
                inner = deep_strip(val[3][0])
                # (try_from(len-2) as Ok).0
                for s in walk(inner):
                    if s[0] == "call" and (s[1] or "").endswith("TryFrom::try_from"):
                        a = deep_strip(s[3][0])
                        if a[0] == "bin" and a[1] == "Sub" and const_value(a[3]) == 2:
                            ln = deep_strip(a[2])
                            if ln[0] == "call" and ln[1].endswith("::len") and _is_self_target_slice(deep_strip(ln[3][0]), "as_ref"):
                                val_ok = True
            ok = ok or (rng_ok and val_ok)
        ctx.ob(R, us, "shim = be16(len(target) - 2) into target[..2]", ok,
               "update_shim no longer writes the big-endian u16 of (inner length - 2) into the first "
               "two octets (%s)" % detail)
        errs = [r for r in return_assignments(us) if r[2] == "Err"]
        ctx.ob(R, us, "overflow -> Err", len(errs) >= 1,
               "update_shim must fail (not wrap) when the length does not fit 16 bits")
    # the message view of a StreamTarget skips exactly the two shim octets
    for p, what in (("<%s as core::convert::AsRef<[u8]>>::as_ref" % ST, "as_ref"),
                    ("<%s as core::convert::AsMut<[u8]>>::as_mut" % ST, "as_mut"),
                    (MB + "StreamTarget::<Target>::as_dgram_slice", "as_dgram_slice")):
        b = F.body(p)
        if not ctx.anchor(R, p, b):
            continue
        starts = []
        for blk in b.blocks:
            for st in blk["s"]:
                if st[0] == "=" and st[2][0] == "agg" and st[2][1][0] == "adt" and st[2][1][1].endswith("RangeFrom"):
                    starts.append(const_value(b.term_of_operand(st[2][2][0])))
        ctx.ob(R, b, "message view skips 2 octets", starts == [2],
               "%s must expose inner[2..] (found range starts %s)" % (what, starts))
    # StreamTarget::new: truncate(0) then compose a u16 zero
    nb = F.body(MB + "StreamTarget::<Target>::new")
    if ctx.anchor(R, "StreamTarget::new", nb):
        tr = nb.calls_matching(r"Truncate::truncate$")
        cp = nb.calls_matching(r"Compose::compose$")
        ok = (len(tr) == 1 and const_value(nb.term_of_operand(tr[0][1]["args"][1])) == 0 and len(cp) == 1
              and cp[0][1]["targs"][:1] == ["u16"] and nb.dominates(tr[0][0], cp[0][0]))
        ctx.ob(R, nb, "initial shim", ok, "StreamTarget::new must truncate to 0 and then compose a u16 placeholder")


def failed_calls_on_edge(b, sw, lab, F):
    """call bbs known failed right after taking edge (sw,lab)."""
    from mirlib import BranchFacts
    from rulelib import _norm_fact
    ef = BranchFacts(b, F).edge_facts(sw)
    if lab not in ef:
        return set()
    t, v = ef[lab]
    out = set()
    for subj, o in _norm_fact(t, v):
        if o == "failure":
            out |= underlying_calls(subj)
    return out


def _is_self_target_slice(t, how):
    # as_ref/as_mut are transparent to deep_strip
    return deep_strip(t) == ("field", ("arg", 1), "target")


# ---------------------------------------------------------------------------

TAG = 0xC000
PTR_LIMIT = 0x4000

# u16 narrowing sites in the compressor code that are *not* pointer sources.
PTR14_AUDIT = {
    # HashEntry.tail is only a lookup key (compared against `position`), never OR-ed with the tag:
    # C02.ptr14.emit checks that the emitted value comes from the `head` field only.
    (MB + "HashEntry::new", "->tail"): "lookup key only; bounded by head + 64 < 0x10000",
}


def rule_ptr14(ctx, F):
    R = "C02.ptr14"
    ctx.floor(R + ".store", 3)
    ctx.floor(R + ".emit", 3)
    comp_types = []
    for im in F.impls_of(r"^base::wire::Composer$"):
        cc = [it for it in im["items"] if it["name"] == "can_compress"]
        if not cc:
            continue
        b = F.body(cc[0]["path"])
        if b is None:
            continue
        rets = return_assignments(b)
        if len(rets) == 1 and rets[0][2] == "true":
            comp_types.append(im["self_adt"])
    comp_types = sorted(set(x for x in comp_types if x))
    ctx.anchor(R, "compressing Composer impls (can_compress == true)", len(comp_types) >= 3)
    ctx.note("compressor types: %s" % comp_types)
    mods = sorted(set(t.rsplit("::", 1)[0] + "::" for t in comp_types))
    # -- emission sites
    for p, b in F.bodies.items():
        if not any(p.startswith(m) or p.startswith("<" + m) for m in mods):
            continue
        for bi in b.reachable_blocks():
            for si, st in enumerate(b.blocks[bi]["s"]):
                if st[0] != "=" or st[2][0] != "bin" or st[2][1] != "BitOr":
                    continue
                a, c = b.term_of_operand(st[2][2]), b.term_of_operand(st[2][3])
                if const_value(c) == TAG:
                    val = a
                elif const_value(a) == TAG:
                    val = c
                else:
                    continue
                leaves = _leaves(deep_strip(val))
                bad = []
                for lf in leaves:
                    if lf[0] == "k":
                        cv = const_value(lf)
                        if cv is not None and cv < PTR_LIMIT:
                            continue
                        # sentinel constants must be excluded by a dominating inequality
                        if any(t[0] == "bin" and t[1] in ("Ne", "Eq") and cv in (const_value(t[2]), const_value(t[3]))
                               and ((t[1] == "Ne") == v) for t, v in bool_facts(b, bi, F)):
                            continue
                        bad.append(show(lf))
                    else:
                        base = lf
                        while base[0] in ("field", "downcast"):
                            if base[0] == "field" and base[2] == "head":
                                break
                            base = strip(base[1])
                        if base[0] == "field" and base[2] == "head":
                            continue  # HashEntry.head (store sites guarded below)
                        if base[0] == "call" and base[1] and re.search(r"Compressor::<Target>::get$", base[1]):
                            continue  # table read (store sites guarded below)
                        bad.append(show(lf))
                ctx.ob(R + ".emit", b, "pointer source", not bad,
                       "value OR-ed with 0xC000 does not come from a guarded position table: %s" % bad,
                       b.where(bi))
    # -- store sites: every usize -> u16 narrowing outside Truncate impls
    for p, b in F.bodies.items():
        if not any(p.startswith(m) or p.startswith("<" + m) for m in mods):
            continue
        in_trunc = " as octseq::Truncate>::truncate" in p
        if "StreamTarget" in p:
            continue
        k = 0
        for bi in sorted(b.reachable_blocks()):
            for si, st in enumerate(b.blocks[bi]["s"]):
                if st[0] != "=" or st[2][0] != "cast" or st[2][1] != "IntToInt":
                    continue
                if st[2][3] != "u16" or st[2][4] != "usize":
                    continue
                opnd = deep_strip(b.term_of_operand(st[2][2]))
                # name the site by the role of the narrowed value (the struct field it is stored into),
                # falling back to the variable's name
                name = _dest_field(b, st[1]) or _var_of(b, st[2][2]) or show(opnd)
                if (strip_path(p), name) in PTR14_AUDIT:
                    ctx.ob(R + ".store", b, "narrow %s (audited)" % name, True, nontrivial=False,
                           detail=PTR14_AUDIT[(strip_path(p), name)])
                    continue
                ubs = upper_bounds(b, bi, lambda t: canon_nobb(t) == canon_nobb(opnd), F)
                cap = _capture(F, b, opnd)
                if cap:
                    pb, pbb, pterm = cap
                    name = _name_of_term(pb, pterm) or name
                    ubs += upper_bounds(pb, pbb, lambda t: canon_nobb(t) == canon_nobb(pterm), F)
                limit = 0x10000 if in_trunc else PTR_LIMIT
                best = min([u[0] for u in ubs], default=None)
                ok = best is not None and best <= limit
                what = ("comparison key in truncate must not wrap (K <= 65536)" if in_trunc else
                        "a stored name position is later OR-ed with 0xC000 and must fit 14 bits (K <= 16384)")
                ctx.ob(R + (".trunc" if in_trunc else ".store"), b, "narrow %s" % name, ok,
                       "%s; guard found: %s" % (what, ("%s < %d" % (name, best)) if best is not None else "none"),
                       b.where(bi))
                k += 1


def _capture(F, b, t):
    """If `t` is captured variable #i of closure body b, return the parent
    body, the block creating the closure and the captured term there."""
    if b.kind != "Closure" or not b.root:
        return None
    if not (t[0] == "field" and t[1] == ("arg", 1) and isinstance(t[2], int)):
        return None
    for pp, pb in F.bodies.items():
        if not (pp == b.root or b.path.startswith(pp + "::{closure")):
            continue
        for bi in pb.reachable_blocks():
            for st in pb.blocks[bi]["s"]:
                if st[0] == "=" and st[2][0] == "agg" and st[2][1][0] == "closure" and st[2][1][1] == b.path:
                    ops = st[2][2]
                    if t[2] < len(ops):
                        return pb, bi, deep_strip(pb.term_of_operand(ops[t[2]]))
    return None


def _dest_field(b, place):
    """name of the struct field the value assigned to `place` ends up in (via copies), if any"""
    if len(place) != 1:
        return None
    locs = {place[0]}
    for _ in range(3):
        for blk in b.blocks:
            for st in blk["s"]:
                if st[0] != "=":
                    continue
                rv = st[2]
                if rv[0] == "use" and rv[1][0] in ("c", "m") and len(rv[1][1]) == 1 and rv[1][1][0] in locs and len(st[1]) == 1:
                    locs.add(st[1][0])
                if rv[0] == "agg" and rv[1][0] == "adt" and len(rv[1]) > 3:
                    for i, o in enumerate(rv[2]):
                        if o[0] in ("c", "m") and len(o[1]) == 1 and o[1][0] in locs and i < len(rv[1][3]):
                            return "->" + rv[1][3][i]
    return None


def _name_of_term(b, t):
    if t[0] == "arg":
        return b.var_name(t[1])
    return None


def strip_path(p):
    return re.sub(r"::<[^>]*>", "", p)


def _var_of(b, op):
    if op[0] in ("c", "m") and len(op[1]) == 1:
        t = b.defs().get(op[1][0], [])
        n = b.var_name(op[1][0])
        if n:
            return n
        if len(t) == 1 and t[0][0] == "stmt" and t[0][3][0] == "use" and t[0][3][1][0] in ("c", "m") and len(t[0][3][1][1]) == 1:
            return b.var_name(t[0][3][1][1][0])
    return None


def _leaves(t):
    t = deep_strip(t)
    if t[0] == "phi":
        out = []
        for a in t[2]:
            out += _leaves(a)
        return out
    if t[0] == "cast":
        return _leaves(t[2])
    return [t]


# ---------------------------------------------------------------------------

def rule_trunc(ctx, F):
    R = "C02.trunc"
    ctx.floor(R, 3)
    for p, b in F.bodies.items():
        m = re.match(r"<base::message_builder::(\w+Compressor)<Target> as octseq::Truncate>::truncate$", p)
        if not m:
            continue
        inner = [bb for bb, t in b.calls_matching(r"Truncate::truncate$")
                 if deep_strip(b.term_of_operand(t["args"][0])) == ("field", ("arg", 1), "target")
                 and deep_strip(b.term_of_operand(t["args"][1])) == ("arg", 2)]
        # table mutation: assignment into a field of self other than target, or a &mut call on such a field
        muts = []
        for bi in b.reachable_blocks():
            for st in b.blocks[bi]["s"]:
                if st[0] == "=" and len(st[1]) > 1:
                    fp = deep_strip(b.term_of_place(st[1]))
                    if fp[0] == "field" and fp[1] == ("arg", 1) and fp[2] != "target":
                        muts.append(bi)
            t = b.blocks[bi]["t"]
            if t["k"] == "call" and t["args"]:
                r0 = b.term_of_operand(t["args"][0])
                r0s = deep_strip(r0)
                if (r0s[0] == "field" and r0s[1] == ("arg", 1) and r0s[2] != "target"
                        and r0[0] == "ref" and len(r0) > 2 and r0[2]):
                    muts.append(bi)
        ok = bool(inner) and bool(muts)
        # and the forgetting happens whenever len is below the table bound (guard is on `len` only)
        ctx.ob(R, b, "forget positions >= len", ok,
               "%s::truncate must truncate the inner target with the same length and drop remembered "
               "positions (inner truncate: %s, table mutation: %s)" % (m.group(1), bool(inner), bool(muts)))


    # boundary of the retention predicate: a position equal to the new length lies
    # at the truncation point and must be forgotten (kept iff pos < len)
    ctx.floor(R + ".keep", 3)
    scope = []
    for p, b in F.bodies.items():
        if re.match(r"<base::message_builder::\w+Compressor<Target> as octseq::Truncate>::truncate", p) \
                or p.startswith("base::message_builder::Node::drop_above"):
            scope.append(b)
    for b in scope:
        for bi in sorted(b.reachable_blocks()):
            for st in b.blocks[bi]["s"]:
                if st[0] != "=" or st[2][0] != "bin" or st[2][1] not in ("Lt", "Le", "Gt", "Ge"):
                    continue
                x, y = deep_strip(b.term_of_operand(st[2][2])), deep_strip(b.term_of_operand(st[2][3]))
                px, py = _is_pos(x), _is_pos(y)
                lx, ly = _is_len(x), _is_len(y)
                if px and ly:
                    rel = st[2][1]
                elif py and lx:
                    rel = {"Lt": "Gt", "Le": "Ge", "Gt": "Lt", "Ge": "Le"}[st[2][1]]
                else:
                    continue
                ctx.ob(R + ".keep", b, "retention boundary", rel in ("Lt", "Ge"),
                       "remembered position compared with the new length using %s(pos, len): a name written "
                       "exactly at the truncation point would be kept and later referenced" % rel, b.where(bi))


def _is_pos(t):
    return any(s[0] == "field" and s[2] in ("value", "head", "entries") for s in walk(t))


def _is_len(t):
    while t[0] == "cast":
        t = deep_strip(t[2])
    if t[0] == "arg":
        return True
    if t[0] == "field" and t[1] == ("arg", 1) and isinstance(t[2], int):
        return True  # closure capture
    # a local copy `let len = len as u16`
    return False


# ---------------------------------------------------------------------------

def rule_prefix(ctx, F):
    R = "C02.prefix"
    for adt, rb, ok, names in sigs.rdlen_compress_agreement(F):
        ctx.ob(R, adt, "rdlen(compress) is None when names are compressed", ok,
               "%s::rdlen(true) announces a length although compose_rdata compresses %s: on a compressing target "
               "the RDLENGTH written differs from the record data, and the message no longer parses back"
               % (adt.split("::")[-1], names), where=rb.where())
    ctx.floor(R, 5)
    b = F.body("base::rdata::compose_prefixed")
    if ctx.anchor(R, "base::rdata::compose_prefixed", b):
        ops = _calls_on_param(b, 2)
        ph = b.calls_matching(r"OctetsBuilder::append_slice$")
        ok_ph = False
        if ops and ph:
            obb = ops[0][0]
            a = deep_strip(b.term_of_operand(ph[0][1]["args"][1]))
            ok_ph = (a[0] == "repeat" and a[2] == 2 and b.dominates(ph[0][0], obb)
                     and ph[0][0] in succeeded_calls(b, obb, F))
        ctx.ob(R, b, "2-octet placeholder first", ok_ph,
               "the RDLENGTH placeholder ([0;2]) must be appended (checked) before the data")
        # back-patch: copy_from_slice(as_mut(target)[pos-2..pos], be(try_from(len_after - pos)))
        ok_patch = False
        detail = ""
        for bb, t in b.calls_matching(r"copy_from_slice$"):
            dst = deep_strip(b.term_of_operand(t["args"][0]))
            src = deep_strip(b.term_of_operand(t["args"][1]))
            detail = "dst=%s src=%s" % (show(dst), show(src))
            if not (dst[0] == "call" and "index_mut" in (dst[1] or "")):
                continue
            rng = deep_strip(dst[3][1])
            if not (rng[0] == "agg" and rng[1][1].endswith("::Range")):
                continue
            lo, hi = deep_strip(rng[2][0]), deep_strip(rng[2][1])
            pos_ok = (hi[0] == "call" and hi[1].endswith("::len") and ops and b.dominates(hi[5], ops[0][0])
                      and hi[5] != ops[0][0] and ph and b.dominates(ph[0][0], hi[5]))
            lo_ok = lo[0] == "bin" and lo[1] == "Sub" and canon(lo[2]) == canon(hi) and const_value(lo[3]) == 2
            val_ok = False
            for s in walk(src):
                if s[0] == "call" and (s[1] or "").endswith("TryFrom::try_from"):
                    a = deep_strip(s[3][0])
                    if (a[0] == "bin" and a[1] == "Sub" and canon(a[3]) == canon(hi)
                            and deep_strip(a[2])[0] == "call" and deep_strip(a[2])[1].endswith("::len")
                            and ops and b.dominates(ops[0][0], deep_strip(a[2])[5])):
                        val_ok = True
            ok_patch = ok_patch or (pos_ok and lo_ok and val_ok and ops[0][0] in succeeded_calls(b, bb, F))
        ctx.ob(R, b, "back-patch be16(len_after - pos) into [pos-2..pos]", ok_patch,
               "RDLENGTH back-patch shape changed (%s)" % detail)
        # on failure: truncate to pos
        errs = [r for r in return_assignments(b) if r[2] == "Err"]
        if ops:
            truncs = [bb for bb, t in b.calls_matching(r"Truncate::truncate$")]
            for i, e in enumerate(errs):
                ok, p = must_pass(b, ops[0][0], [e[0]], truncs)
                ctx.ob(R, b, "err-exit#%d truncates" % i, ok,
                       "data append failed but target not truncated; bypass %s" % fmt_path(p), b.where(e[0]))
    # compose_len_rdata: rdlen(target.can_compress()) / canonical: rdlen(false)
    for name, want in (("compose_len_rdata", "can_compress"), ("compose_canonical_len_rdata", False)):
        bs = F.find_bodies(r"^base::rdata::ComposeRecordData::%s$" % name)
        if not ctx.anchor(R, "ComposeRecordData::%s" % name, len(bs) == 1):
            continue
        b = bs[0]
        rd = b.calls_matching(r"ComposeRecordData::rdlen$")
        ok = False
        found = None
        if len(rd) == 1:
            a = deep_strip(b.term_of_operand(rd[0][1]["args"][1]))
            found = show(a)
            if want == "can_compress":
                ok = a[0] == "call" and (a[1] or "").endswith("Composer::can_compress") and deep_strip(a[3][0]) == ("arg", 2)
            else:
                ok = const_value(a) == 0
        ctx.ob(R, b, "rdlen argument", ok,
               "%s must ask rdlen(%s) so the advertised length matches what is written (found %s)"
               % (name, "target.can_compress()" if want else "false", found))
        # the data composer used in both arms is the matching one
        wantc = "compose_rdata" if want else "compose_canonical_rdata"
        other = "compose_canonical_rdata" if want else "compose_rdata"
        names = set()
        for bb, t in b.calls():
            if t["fn"] and re.search(r"ComposeRecordData::compose_(canonical_)?rdata$", t["fn"]):
                names.add(t["fn"].split("::")[-1])
        for cp, cb in F.bodies.items():
            if cb.root == b.path or cp.startswith(b.path + "::{closure"):
                for bb, t in cb.calls():
                    if t["fn"] and re.search(r"ComposeRecordData::compose_(canonical_)?rdata$", t["fn"]):
                        names.add(t["fn"].split("::")[-1])
        ctx.ob(R, b, "data composer", names == {wantc},
               "%s must write the data with %s in both arms (found %s)" % (name, wantc, sorted(names)))


def run_thorough(ctx):
    # type-level part of the property: compile-fail witnesses (rules/witness.py)
    import witness
    witness.run(ctx, "C02")


# ---------------------------------------------------------------------------
# compressors compare whole label sequences
# ---------------------------------------------------------------------------

def rule_seqeq(ctx, F):
    """A compressor may only point at a remembered name that *is* the name (suffix) being written.  Comparing two label
    iterators with `zip(..).all(..)` stops at the shorter one: `www.www.example.com` being written matches its own
    half-written suffix.  Sequence equality has to be length-aware (`Iterator::eq`, slice `==`)."""
    R = "C02.seqeq"
    ctx.floor(R, 1)
    n = 0
    anchored = 0
    for p, b in sorted(F.bodies.items()):
        if "::test" in p or not re.match(r"^<?base::(message_builder|name)::", p):
            continue
        for bb, tt in b.calls():
            fn = tt["fn"] or ""
            if re.search(r"Iterator::eq$", fn) and "StaticCompressor" in p:
                anchored += 1
            if not re.search(r"Iterator::(all|any)$", fn):
                continue
            recv = b.term_of_operand(tt["args"][0])
            z = [s for s in walk(recv) if s[0] == "call" and re.search(r"Iterator::zip$", s[1] or "")]
            if not z:
                continue
            labelish = any("Label" in str(x) for s in z for x in (s[4] if len(s) > 4 and s[4] else ()))
            if not labelish and "Label" not in " ".join(str(x) for x in (tt.get("targs") or [])):
                continue
            n += 1
            ctx.ob(R, b, "label sequences are not compared with zip().all()", False,
                   "%s decides whether two label sequences are equal with zip(..).%s(..), which ignores the longer one's tail: a "
                   "name is taken for its own prefix / suffix and the compressor points at the wrong name (or at the name being "
                   "written)" % (p.split("::{closure")[0].split("::")[-1], fn.split("::")[-1]), b.where(bb))
    ctx.ob(R, "base::message_builder::StaticCompressor", "compares names with a length-aware sequence equality", anchored >= 1,
           "StaticCompressor::get no longer compares the name with the remembered one through Iterator::eq")
    ctx.call_sites += n


def rule_secfwd(ctx, F):
    """The generic face of a record section (`impl RecordSectionBuilder for XBuilder`) adds to *that* section: its
    push forwards to the inherent push of the same builder type, so the record is counted in that section's header
    count -- not to the builder it wraps (an authority record counted as an answer makes the message unparsable after a
    rewind and puts records into the wrong section for every generic caller)."""
    R = "C02.secfwd"
    ctx.floor(R, 3)
    n = 0
    for p, b in sorted(F.bodies.items()):
        m = re.match(r"^<base::message_builder::(\w+)<Target> as base::message_builder::RecordSectionBuilder<Target>>::push$", p)
        if not m:
            continue
        n += 1
        own = m.group(1)
        pushes = [(t["fn"] or "") for _, t in b.calls() if re.search(r"Builder::<Target>::push$", t["fn"] or "")]
        ok = len(pushes) == 1 and re.search(r"base::message_builder::%s::<Target>::push$" % own, pushes[0]) is not None
        ctx.ob(R, b, "%s's trait push is its own push" % own, ok,
               "<%s as RecordSectionBuilder>::push forwards to %s: records pushed through the trait are counted in another "
               "section's header count" % (own, [x.split("message_builder::")[-1] for x in pushes] or "nothing"))
    ctx.ob(R, "base::message_builder", "RecordSectionBuilder impls found", n >= 3, "only %d found" % n, nontrivial=False)


def rule_optiter(ctx, F):
    """What was pushed into an OPT record comes out again, in order: the option iterator goes on as long as *any*
    octet is left (an option without data is four octets of header) and reports what does not parse; a threshold
    above zero silently drops a trailing option."""
    R = "C02.optiter"
    ctx.floor(R, 1)
    b = F.one_body(r"^<base::opt::OptIter<'a, Octs, Data> as core::iter::Iterator>::next$")
    if not ctx.anchor(R, "<OptIter as Iterator>::next", b):
        return
    n = 0
    for bi in sorted(b.reachable_blocks()):
        t = b.blocks[bi]["t"]
        if t["k"] != "switch" or t["ty"] != "bool":
            continue
        d = deep_strip(b.term_of_operand(t["d"]))
        if d[0] != "bin" or d[1] not in ("Gt", "Ge", "Ne", "Lt", "Le", "Eq"):
            continue
        l, r = deep_strip(d[2]), deep_strip(d[3])
        if not ((l[0] == "call" and (l[1] or "").endswith("::remaining")) or (r[0] == "call" and (r[1] or "").endswith("::remaining"))):
            continue
        n += 1
        k = const_value(r) if l[0] == "call" else const_value(l)
        op = d[1] if l[0] == "call" else {"Gt": "Lt", "Lt": "Gt", "Ge": "Le", "Le": "Ge"}.get(d[1], d[1])
        ok = (op in ("Gt", "Ne", "Eq", "Le") and k == 0) or (op in ("Ge", "Lt") and k == 1)
        ctx.ob(R, b, "the iterator continues while any octet remains", ok,
               "OptIter::next compares the remaining octets with %s %s: options in the last %s octet(s) of the OPT record are never "
               "yielded -- an option without data (NSID request, padding of length 0) at the end disappears on the way through a "
               "message" % (op, k, k), b.where(bi))
    ctx.ob(R, b, "loop condition found", n >= 1, "no comparison of Parser::remaining found in OptIter::next", nontrivial=False)


def rule_brorder(ctx, F):
    """A record-data type that compresses names has two writers, chosen by `target.can_compress()`.  Both write the
    fields of the record in the same order (the parser knows one order only): the sequence of `self` fields handed to
    calls on the compressing branch equals the sequence on the plain branch."""
    R = "C02.brorder"
    ctx.floor(R, 6)
    n = 0
    for p, b in sorted(F.bodies.items()):
        if "::test" in p or not re.search(r" as base::rdata::ComposeRecordData>::compose_rdata$", p):
            continue
        bf = None
        for sw in b.reachable_blocks():
            tsw = b.blocks[sw]["t"]
            if tsw["k"] != "switch":
                continue
            d = deep_strip(b.term_of_operand(tsw["d"]))
            if not (d[0] == "call" and (d[1] or "").endswith("can_compress")):
                continue
            bf = bf or BranchFacts(b, F)
            ef = bf.edge_facts(sw)
            tgt = {}
            for lab, (tm, v) in ef.items():
                if isinstance(v, bool):
                    tgt[v] = b.edge_target(sw, lab)
            if True not in tgt or False not in tgt:
                continue
            rt, rf = b.reach_from(tgt[True]) | {tgt[True]}, b.reach_from(tgt[False]) | {tgt[False]}
            rpo = b.rpo()

            def seq(blocks):
                out = []
                for bb in sorted(blocks, key=lambda x: rpo.get(x, 1 << 30)):
                    t = b.blocks[bb]["t"]
                    if t["k"] != "call":
                        continue
                    for a in t["args"]:
                        tm = deep_strip(b.term_of_operand(a))
                        if tm[0] == "field" and deep_strip(tm[1]) == ("arg", 1):
                            out.append(tm[2])
                return out
            st, sf = seq(rt - rf), seq(rf - rt)
            if not st or not sf:
                continue
            n += 1
            ctx.ob(R, b, "both writers of %s emit the fields in one order" % p.split(" as ")[0].split("::")[-1].split("<")[0], st == sf,
                   "compose_rdata writes the fields %s when the target compresses and %s when it does not: under a compressing "
                   "builder the record parses back with its fields exchanged" % (st, sf), b.where(sw))
    ctx.call_sites += n


def _symbits(t, width, src_width, depth=0):
    """`t` as `width` symbolic bits, LSB first: each None (zero) or (source, bit).  Sources are whatever `src_width`
    gives a width for.  None if the shape is unknown."""
    t = deep_strip(t)
    if depth > 24:
        return None
    cv = const_value(t)
    if cv is not None and isinstance(cv, int):
        return ("const", cv)
    w = src_width(t)
    if w is not None:
        return ([(str(show(t)), j) for j in range(w)] + [None] * width)[:width]
    if t[0] == "cast":
        inner = _symbits(t[2], width, src_width, depth + 1)
        if isinstance(inner, list):
            tw = {"u8": 8, "u16": 16, "u32": 32, "u64": 64, "usize": 64}.get(t[3])
            if tw is None:
                return None
            return [inner[j] if j < tw and j < len(inner) else None for j in range(width)]
        return inner
    if t[0] == "bin":
        op = t[1].replace("Unchecked", "")
        a, c = _symbits(t[2], width, src_width, depth + 1), _symbits(t[3], width, src_width, depth + 1)
        if a is None or c is None:
            return None
        if op == "BitAnd":
            if isinstance(a, tuple) and isinstance(c, list):
                a, c = c, a
            if isinstance(a, list) and isinstance(c, tuple):
                return [a[j] if (c[1] >> j) & 1 else None for j in range(width)]
            return None
        if op in ("Shl", "Shr") and isinstance(a, list) and isinstance(c, tuple):
            k = c[1]
            return ([None] * k + a)[:width] if op == "Shl" else (a[k:] + [None] * k)[:width]
        if op == "BitOr" and isinstance(a, list) and isinstance(c, list):
            out = []
            for x, y in zip(a, c):
                if x is not None and y is not None:
                    return None
                out.append(x if x is not None else y)
            return out
    return None


def rule_optttl(ctx, F):
    """The OPT record keeps extended RCODE, version and flags in the TTL field.  Writer (`OptRecord::as_record`) and
    reader (`OptRecord::from_record`) agree bit for bit: every bit of each of the three fields is placed at a TTL bit
    from which the reader takes exactly that bit back.  (Symbolic evaluation of both expressions over 32 bits.)"""
    R = "C02.optttl"
    ctx.floor(R, 3)
    wb = F.one_body(r"^base::opt::OptRecord::<Octs>::as_record$")
    rb = F.one_body(r"^base::opt::OptRecord::<Octs>::from_record$")
    if not (ctx.anchor(R, "OptRecord::as_record", wb) and ctx.anchor(R, "OptRecord::from_record", rb)):
        return
    widths = {"ext_rcode": 8, "version": 8, "flags": 16}

    def wsrc(t):
        if t[0] == "field" and deep_strip(t[1]) == ("arg", 1) and t[2] in widths:
            return widths[t[2]]
        return None

    def rsrc(t):
        if t[0] == "call" and (t[1] or "").endswith("Ttl::as_secs"):
            return 32
        return None
    W = None
    for bb, t in wb.calls():
        if (t["fn"] or "").endswith("Ttl::from_secs"):
            W = _symbits(wb.term_of_operand(t["args"][0]), 32, wsrc)
    Rf = {}
    for bi in rb.reachable_blocks():
        for st in rb.blocks[bi]["s"]:
            if st[0] == "=" and st[2][0] == "agg" and st[2][1][0] == "adt" and st[2][1][1].endswith("opt::OptRecord"):
                names = st[2][1][3]
                for nme, op in zip(names, st[2][2]):
                    if nme in widths:
                        Rf[nme] = _symbits(rb.term_of_operand(op), 32, rsrc)
    if not ctx.anchor(R, "TTL expression of as_record and field expressions of from_record are bit expressions",
                      isinstance(W, list) and len(Rf) == 3 and all(isinstance(v, list) for v in Rf.values()), wb.where()):
        return
    for f, w in sorted(widths.items()):
        bad = []
        for j in range(w):
            pos = [k for k in range(32) if W[k] is not None and W[k][1] == j and W[k][0].endswith(f)]
            back = Rf[f][j]
            if len(pos) != 1 or back is None or back[1] != pos[0]:
                bad.append(j)
        ctx.ob(R, wb, "every bit of OptRecord.%s goes through the TTL and comes back" % f, not bad,
               "bits %s of OptRecord.%s are not written by as_record at the TTL position from_record reads them from: an OPT record "
               "copied into a message (OptBuilder::clone_from, which goes through as_record) comes back with these bits changed"
               % (bad[:8], f))
