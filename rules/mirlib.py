"""mirlib: fact base, CFG utilities, def-use and symbolic operand terms over
the JSON MIR emitted by the domain-facts driver.

Everything here is purely structural: nothing executes or solves `domain`
code.  Terms are nested tuples:

  ('arg', n)                      function parameter n (1-based local)
  ('k', value, ty, def)           constant (evaluated value or None, def-path)
  ('call', fn, res, [args], targs, (bb,))   result of a call
  ('field', base, name|index)
  ('deref', base) ('ref', base) ('idx', base, i) ('downcast', base, variant)
  ('bin', op, a, b) ('un', op, a) ('cast', kind, x, to_ty, from_ty)
  ('discr', x) ('agg', kind, [xs]) ('local', n) ('phi', n, [terms])
  ('resume', bb)                  value produced by a yield
"""
import json
import re
from collections import defaultdict, deque


# ---------------------------------------------------------------------------
# Fact base
# ---------------------------------------------------------------------------

class Facts:
    def __init__(self, path, inline=True):
        self.path = path
        self.bodies = {}
        self.adts = {}
        self.impls = []
        self.fns = {}
        self.consts = {}
        self.traits = {}
        self.nbodies_declared = None
        self.crate = None
        with open(path) as fh:
            for line in fh:
                r = json.loads(line)
                k = r["rec"]
                if k == "body":
                    p = r["path"]
                    if p in self.bodies:
                        # anonymous `const _` items (derive output, tracing
                        # callsites) share a printed path: keep all, suffixed
                        n = 2
                        while "%s#%d" % (p, n) in self.bodies:
                            n += 1
                        p = "%s#%d" % (p, n)
                        r["path"] = p
                    self.bodies[p] = Body(r)
                elif k == "adt":
                    self.adts[r["path"]] = r
                elif k == "impl":
                    self.impls.append(r)
                elif k == "fn":
                    self.fns[r["path"]] = r
                elif k == "const":
                    self.consts[r["path"]] = r
                elif k == "trait":
                    self.traits[r["path"]] = r
                elif k == "crate":
                    self.crate = r["name"]
                elif k == "end":
                    self.nbodies_declared = r["bodies"]
        self._callers = None
        self.unknown_fns = []
        self.inlined = {}
        if inline:
            import inline as _inl
            self.inlined = _inl.inline_unknown_helpers(self)

    # -- lookup helpers ----------------------------------------------------
    def find_bodies(self, regex):
        rx = re.compile(regex)
        return [b for p, b in self.bodies.items() if rx.search(p)]

    def body(self, path):
        return self.bodies.get(path)

    def one_body(self, regex):
        bs = self.find_bodies(regex)
        if len(bs) != 1:
            return None
        return bs[0]

    def impls_of(self, trait_regex):
        rx = re.compile(trait_regex)
        return [i for i in self.impls if i["trait"] and rx.search(i["trait"])]

    def callers_of(self, fn_regex):
        """[(body, bb, term)] for every call whose callee or resolved callee
        matches."""
        rx = re.compile(fn_regex)
        out = []
        for b in self.bodies.values():
            for bb, t in b.calls():
                if (t["fn"] and rx.search(t["fn"])) or (t["res"] and rx.search(t["res"])):
                    out.append((b, bb, t))
        return out

    def call_graph(self):
        """callee names per body (declared fn, resolved fn), plus closures
        created in the body."""
        if self._callers is not None:
            return self._callers
        g = {}
        for p, b in self.bodies.items():
            s = set()
            for bb, t in b.calls():
                if t["fn"]:
                    s.add(t["fn"])
                if t["res"]:
                    s.add(t["res"])
            for blk in b.blocks:
                for st in blk["s"]:
                    if st[0] == "=" and st[2][0] == "agg" and st[2][1][0] in ("closure", "coroutine", "coroclosure"):
                        s.add(st[2][1][1])
            g[p] = s
        self._callers = g
        return g


def strip_generics(path):
    """`a::B::<T>::c` -> `a::B::c`;  `<a::B<T> as X>::c` kept as is."""
    out = []
    depth = 0
    i = 0
    while i < len(path):
        c = path[i]
        if path.startswith("::<", i) and depth == 0 and not path.startswith("<", 0):
            depth = 1
            i += 3
            continue
        if depth:
            if c == "<":
                depth += 1
            elif c == ">":
                depth -= 1
            i += 1
            continue
        out.append(c)
        i += 1
    return "".join(out)


# ---------------------------------------------------------------------------
# Bodies
# ---------------------------------------------------------------------------

class Body:
    def __init__(self, r):
        self.r = r
        self.path = r["path"]
        self.file = r["file"]
        self.line = r["line"]
        self.kind = r["kind"]
        self.root = r["root"]
        self.nargs = r["nargs"]
        self.locals = r["locals"]
        self.vars = r["vars"]
        self.blocks = r["blocks"]
        self.is_coroutine = r["coroutine"]
        self._defs = None
        self._preds = None
        self._dom = None
        self._reach = None

    def __repr__(self):
        return "<Body %s>" % self.path

    def where(self, bb=None):
        if bb is None:
            return "%s:%d" % (self.file, self.line)
        return "%s:%d" % (self.file, self.blocks[bb]["t"].get("l", 0))

    # -- CFG -------------------------------------------------------------
    def term(self, bb):
        return self.blocks[bb]["t"]

    def succs(self, bb, unwind=False):
        """list of (succ_bb, label) ; label identifies the edge."""
        t = self.blocks[bb]["t"]
        k = t["k"]
        out = []
        if k == "goto":
            out.append((t["t"], "goto"))
        elif k == "switch":
            for v, tb in t["v"]:
                out.append((tb, ("v", v)))
            out.append((t["o"], ("o",)))
        elif k in ("call", "assert", "drop", "falseunwind"):
            if t.get("t") is not None:
                out.append((t["t"], "ok"))
            if unwind and t.get("u") is not None:
                out.append((t["u"], "unwind"))
        elif k == "yield":
            out.append((t["t"], "resume"))
            if unwind and t.get("drop") is not None:
                out.append((t["drop"], "drop"))
        elif k == "false":
            out.append((t["t"], "real"))
        return out

    def calls(self):
        for i, blk in enumerate(self.blocks):
            t = blk["t"]
            if t["k"] in ("call", "tailcall"):
                yield i, t

    def calls_matching(self, regex):
        rx = re.compile(regex) if isinstance(regex, str) else regex
        out = []
        for bb, t in self.calls():
            if (t["fn"] and rx.search(t["fn"])) or (t["res"] and rx.search(t["res"])) or (
                t.get("full") and rx.search(t["full"])
            ):
                out.append((bb, t))
        return out

    def reachable_blocks(self):
        if self._reach is None:
            self._reach = self.reach_from(0)
        return self._reach

    def reach_from(self, start, removed_edges=(), removed_blocks=(), stop_at=()):
        """Set of blocks reachable from `start` over normal edges, not
        traversing `removed_edges` ((bb,label) pairs) or entering
        `removed_blocks`.  `start` itself is included even if removed.
        Blocks in stop_at are included but not expanded."""
        removed_edges = set(removed_edges)
        removed_blocks = set(removed_blocks)
        stop_at = set(stop_at)
        starts = [start] if isinstance(start, int) else list(start)
        seen = set(starts)
        dq = deque(starts)
        while dq:
            b = dq.popleft()
            if b in stop_at:
                continue
            for s, lab in self.succs(b):
                if (b, lab) in removed_edges or s in removed_blocks or s in seen:
                    continue
                seen.add(s)
                dq.append(s)
        return seen

    def path_avoiding(self, start, goal, removed_edges=(), removed_blocks=()):
        """A block path start..goal (list) avoiding the given edges/blocks, or
        None.  `goal` may be a set."""
        goals = {goal} if isinstance(goal, int) else set(goal)
        removed_edges = set(removed_edges)
        removed_blocks = set(removed_blocks)
        prev = {start: None}
        dq = deque([start])
        while dq:
            b = dq.popleft()
            if b in goals and (b != start or prev[b] is not None or True) and b in goals:
                if b != start or start in goals:
                    path = []
                    while b is not None:
                        path.append(b)
                        b = prev[b]
                    return path[::-1]
            for s, lab in self.succs(b):
                if (b, lab) in removed_edges or s in removed_blocks or s in prev:
                    continue
                prev[s] = b
                dq.append(s)
        return None

    def preds(self):
        if self._preds is None:
            p = defaultdict(list)
            for i in range(len(self.blocks)):
                for s, lab in self.succs(i):
                    p[s].append((i, lab))
            self._preds = p
        return self._preds

    def dominators(self):
        """idom map over reachable blocks (normal edges)."""
        if self._dom is not None:
            return self._dom
        order = []
        seen = set()
        stack = [(0, iter([s for s, _ in self.succs(0)]))]
        seen.add(0)
        while stack:
            b, it = stack[-1]
            adv = False
            for s in it:
                if s not in seen:
                    seen.add(s)
                    stack.append((s, iter([x for x, _ in self.succs(s)])))
                    adv = True
                    break
            if not adv:
                order.append(b)
                stack.pop()
        rpo = order[::-1]
        idx = {b: i for i, b in enumerate(rpo)}
        preds = self.preds()
        idom = {0: 0}
        changed = True
        while changed:
            changed = False
            for b in rpo[1:]:
                ps = [p for p, _ in preds[b] if p in idom]
                if not ps:
                    continue
                new = ps[0]
                for p in ps[1:]:
                    a, c = p, new
                    while a != c:
                        while idx[a] > idx[c]:
                            a = idom[a]
                        while idx[c] > idx[a]:
                            c = idom[c]
                    new = a
                if idom.get(b) != new:
                    idom[b] = new
                    changed = True
        self._dom = idom
        return idom

    def dominates(self, a, b):
        idom = self.dominators()
        if b not in idom or a not in idom:
            return False
        while True:
            if a == b:
                return True
            if b == 0:
                return False
            b = idom[b]

    def rpo(self):
        """{block: index in reverse postorder over the normal edges}: a linear order of the blocks that agrees with
        dominance (a dominator comes first) and, for the forward edges of a reducible CFG, with execution order"""
        if getattr(self, "_rpo", None) is None:
            seen, post = set(), []
            stack = [(0, iter([s for s, _ in self.succs(0)]))]
            seen.add(0)
            while stack:
                n, it = stack[-1]
                adv = False
                for s in it:
                    if s not in seen:
                        seen.add(s)
                        stack.append((s, iter([x for x, _ in self.succs(s)])))
                        adv = True
                        break
                if not adv:
                    post.append(n)
                    stack.pop()
            self._rpo = {n: i for i, n in enumerate(reversed(post))}
        return self._rpo

    def return_blocks(self):
        return [i for i in self.reachable_blocks() if self.blocks[i]["t"]["k"] == "ret"]

    def back_edges(self):
        out = []
        for b in self.reachable_blocks():
            for s, lab in self.succs(b):
                if self.dominates(s, b):
                    out.append((b, s, lab))
        return out

    # -- def-use ---------------------------------------------------------
    def defs(self):
        """local -> list of ('stmt', bb, idx, rvalue) | ('call', bb, term) |
        ('resume', bb) for whole-local definitions; partial writes are in
        self.partial_defs."""
        if self._defs is not None:
            return self._defs
        d = defaultdict(list)
        pd = defaultdict(list)
        for bi, blk in enumerate(self.blocks):
            for si, st in enumerate(blk["s"]):
                if st[0] == "=":
                    pl = st[1]
                    if len(pl) == 1:
                        d[pl[0]].append(("stmt", bi, si, st[2]))
                    else:
                        pd[pl[0]].append(("stmt", bi, si, st))
                elif st[0] == "setdiscr":
                    pd[st[1][0]].append(("setdiscr", bi, si, st))
            t = blk["t"]
            if t["k"] == "call" and t["dest"] is not None:
                if len(t["dest"]) == 1:
                    d[t["dest"][0]].append(("call", bi, t))
                else:
                    pd[t["dest"][0]].append(("call", bi, None, t))
            elif t["k"] == "yield":
                if len(t["p"]) == 1:
                    d[t["p"][0]].append(("resume", bi))
        self._defs = d
        self.partial_defs = pd
        return d

    def var_name(self, local):
        for n, pl in self.vars:
            if pl == [local]:
                return n
        return None

    def local_of_var(self, name):
        return [pl for n, pl in self.vars if n == name]

    # -- symbolic terms --------------------------------------------------
    def term_of_operand(self, op, depth=0, seen=None):
        k = op[0]
        if k == "k":
            return ("k", op[2], op[1], op[3])
        if k in ("c", "m"):
            return self.term_of_place(op[1], depth, seen)
        return ("rt",)

    def term_of_place(self, pl, depth=0, seen=None):
        base = self.term_of_local(pl[0], depth, seen)
        for pr in pl[1:]:
            if pr == "*":
                base = ("deref", base)
            elif pr[0] == ".":
                if base[0] == "bin" and base[1].endswith("WithOverflow"):
                    # (a op b).0 of a checked arithmetic pair is the result
                    if pr[1] == 0:
                        base = ("bin", base[1][: -len("WithOverflow")], base[2], base[3])
                    else:
                        base = ("ovf", base)
                else:
                    base = ("field", base, pr[2] if pr[2] is not None else pr[1])
            elif pr[0] == "[]":
                base = ("idx", base, self.term_of_local(pr[1], depth + 1, seen))
            elif pr[0] == "as":
                base = ("downcast", base, pr[1])
            elif pr[0] == "c[]":
                base = ("idx", base, ("k", pr[1], "usize", None))
            else:
                base = ("proj", base, tuple(pr) if isinstance(pr, list) else pr)
        return base

    def term_of_local(self, n, depth=0, seen=None):
        if 1 <= n <= self.nargs:
            ds = self.defs().get(n, [])
            if not ds:
                return ("arg", n)
            return ("phi", n, [("arg", n)])
        if seen is None:
            seen = frozenset()
        if n in seen or depth > 40:
            return ("local", n)
        ds = self.defs().get(n, [])
        if len(ds) == 0:
            return ("local", n)
        seen2 = seen | {n}
        if len(ds) == 1:
            return self._term_of_def(ds[0], depth + 1, seen2)
        return ("phi", n, [self._term_of_def(d, depth + 1, seen2) for d in ds[:6]])

    def _term_of_def(self, d, depth, seen):
        if d[0] == "stmt":
            return self.term_of_rvalue(d[3], depth, seen)
        if d[0] == "call":
            t = d[2]
            return (
                "call",
                t["fn"],
                t["res"],
                [self.term_of_operand(a, depth + 1, seen) for a in t["args"]],
                tuple(t["targs"]),
                d[1],
            )
        if d[0] == "resume":
            return ("resume", d[1])
        return ("local", -1)

    def term_of_rvalue(self, rv, depth=0, seen=None):
        k = rv[0]
        if k == "use":
            return self.term_of_operand(rv[1], depth, seen)
        if k == "ref":
            return ("ref", self.term_of_place(rv[2], depth, seen), bool(rv[1]))
        if k == "ptr":
            return ("ref", self.term_of_place(rv[2], depth, seen), "Mut" in str(rv[1]))
        if k == "deref":
            return self.term_of_place(rv[1], depth, seen)
        if k == "cast":
            return ("cast", rv[1], self.term_of_operand(rv[2], depth, seen), rv[3], rv[4])
        if k == "bin":
            return ("bin", rv[1], self.term_of_operand(rv[2], depth, seen), self.term_of_operand(rv[3], depth, seen))
        if k == "un":
            return ("un", rv[1], self.term_of_operand(rv[2], depth, seen))
        if k == "discr":
            return ("discr", self.term_of_place(rv[1], depth, seen), rv[2])
        if k == "agg":
            return ("agg", tuple(_tupl(rv[1])), [self.term_of_operand(o, depth, seen) for o in rv[2]])
        if k == "repeat":
            return ("repeat", self.term_of_operand(rv[1], depth, seen), rv[2])
        return ("other", k)

    # -- branch predicates -----------------------------------------------
    def switch_pred(self, bb):
        """For a switch block return the symbolic term of the discriminant."""
        t = self.blocks[bb]["t"]
        if t["k"] != "switch":
            return None
        return self.term_of_operand(t["d"])

    def edge_target(self, bb, label):
        for s, lab in self.succs(bb):
            if lab == label:
                return s
        return None


def iter_operands(body):
    """Yield every operand (JSON form) occurring in statements and terminators."""
    def from_rv(rv):
        k = rv[0]
        if k in ("use", "repeat"):
            yield rv[1]
        elif k == "cast":
            yield rv[2]
        elif k == "bin":
            yield rv[2]
            yield rv[3]
        elif k == "un":
            yield rv[2]
        elif k == "agg":
            for o in rv[2]:
                yield o
    for blk in body.blocks:
        for st in blk["s"]:
            if st[0] == "=":
                yield from from_rv(st[2])
        t = blk["t"]
        for a in t.get("args") or []:
            yield a
        if t["k"] == "switch":
            yield t["d"]
        if t["k"] == "assert":
            yield t["cond"]
        if t["k"] == "yield":
            yield t["v"]
        if t.get("fnop"):
            yield t["fnop"]


def const_defs(body):
    """def-paths of all named constants referenced by the body."""
    return [o[3] for o in iter_operands(body) if o and o[0] == "k" and o[3]]


def _tupl(x):
    if isinstance(x, list):
        return tuple(_tupl(i) for i in x)
    return x


# ---------------------------------------------------------------------------
# Term utilities
# ---------------------------------------------------------------------------

TRANSPARENT_CALLS = re.compile(
    r"^(core::ops::Deref::deref|core::ops::DerefMut::deref_mut|core::convert::AsRef::as_ref|"
    r"core::convert::AsMut::as_mut|core::borrow::Borrow::borrow|core::borrow::BorrowMut::borrow_mut|"
    r"core::clone::Clone::clone|core::convert::Into::into|core::convert::From::from|"
    r"core::iter::IntoIterator::into_iter|core::future::IntoFuture::into_future|"
    r"core::pin::Pin::<Ptr>::new_unchecked|core::pin::Pin::<Ptr>::as_mut|core::pin::Pin::<Ptr>::new)$"
)


def strip(t, calls=True):
    """Remove refs, derefs, no-op casts, single-alternative phis and (when
    `calls`) identity-like calls (deref/as_ref/clone/into/from)."""
    while True:
        k = t[0]
        if k in ("ref", "deref"):
            t = t[1]
        elif k == "cast" and t[1] in ("PointerCoercion", "PtrToPtr", "Transmute"):
            t = t[2]
        elif k == "phi" and len(t[2]) == 1:
            t = t[2][0]
        elif calls and k == "call" and t[1] and TRANSPARENT_CALLS.match(t[1]) and t[3]:
            t = t[3][0]
        else:
            return t


def deep_strip(t, calls=True):
    t = strip(t, calls)
    k = t[0]
    if k == "field":
        return ("field", deep_strip(t[1], calls), t[2])
    if k == "idx":
        return ("idx", deep_strip(t[1], calls), deep_strip(t[2], calls))
    if k == "downcast":
        return ("downcast", deep_strip(t[1], calls), t[2])
    if k == "bin":
        return ("bin", t[1], deep_strip(t[2], calls), deep_strip(t[3], calls))
    if k == "un":
        return ("un", t[1], deep_strip(t[2], calls))
    if k == "cast":
        return ("cast", t[1], deep_strip(t[2], calls), t[3], t[4])
    if k == "call":
        return ("call", t[1], t[2], [deep_strip(a, calls) for a in t[3]], t[4], t[5])
    if k == "discr":
        return ("discr", deep_strip(t[1], calls), t[2])
    if k == "agg":
        return ("agg", t[1], [deep_strip(a, calls) for a in t[2]])
    if k == "phi":
        return ("phi", t[1], [deep_strip(a, calls) for a in t[2]])
    return t


def show(t, depth=0):
    """Human-readable rendering of a term."""
    if depth > 8:
        return "…"
    k = t[0]
    if k == "arg":
        return "arg%d" % t[1]
    if k == "k":
        if t[1] is not None:
            return str(t[1]) if not isinstance(t[1], str) else repr(t[1])
        return t[3] or ("const:" + t[2])
    if k == "call":
        name = (t[2] or t[1] or "?").split("::")
        return "%s(%s)" % ("::".join(name[-2:]), ", ".join(show(a, depth + 1) for a in t[3]))
    if k == "field":
        return "%s.%s" % (show(t[1], depth + 1), t[2])
    if k == "deref":
        return "*%s" % show(t[1], depth + 1)
    if k == "ref":
        return "&%s" % show(t[1], depth + 1)
    if k == "idx":
        return "%s[%s]" % (show(t[1], depth + 1), show(t[2], depth + 1))
    if k == "downcast":
        return "(%s as %s)" % (show(t[1], depth + 1), t[2])
    if k == "bin":
        return "%s(%s, %s)" % (t[1], show(t[2], depth + 1), show(t[3], depth + 1))
    if k == "un":
        return "%s(%s)" % (t[1], show(t[2], depth + 1))
    if k == "cast":
        return "(%s as %s)" % (show(t[2], depth + 1), t[3])
    if k == "discr":
        return "discr(%s)" % show(t[1], depth + 1)
    if k == "agg":
        return "%s{%s}" % (":".join(str(x) for x in t[1][:3] if not isinstance(x, tuple)), ", ".join(show(a, depth + 1) for a in t[2]))
    if k == "phi":
        return "phi%d[%s]" % (t[1], " | ".join(show(a, depth + 1) for a in t[2]))
    if k == "local":
        return "_%d" % t[1]
    if k == "resume":
        return "resume@bb%d" % t[1]
    return str(t)


def walk(t):
    """Yield every sub-term."""
    yield t
    k = t[0]
    if k in ("field", "deref", "ref", "downcast", "discr", "un"):
        sub = [t[1]] if k != "un" else [t[2]]
    elif k == "idx":
        sub = [t[1], t[2]]
    elif k == "bin":
        sub = [t[2], t[3]]
    elif k == "cast":
        sub = [t[2]]
    elif k == "call":
        sub = t[3]
    elif k in ("agg", "phi"):
        sub = t[2]
    elif k == "repeat":
        sub = [t[1]]
    else:
        sub = []
    for s in sub:
        yield from walk(s)


def map_term(t, fn):
    """Rebuild term t bottom-up, replacing every sub-term s by fn(s) when that
    is not None (fn sees already rebuilt children)."""
    k = t[0]
    if k in ("field", "deref", "ref", "downcast", "discr"):
        r = (k, map_term(t[1], fn)) + tuple(t[2:])
    elif k == "un":
        r = (k, t[1], map_term(t[2], fn)) + tuple(t[3:])
    elif k == "idx":
        r = (k, map_term(t[1], fn), map_term(t[2], fn)) + tuple(t[3:])
    elif k == "bin":
        r = (k, t[1], map_term(t[2], fn), map_term(t[3], fn)) + tuple(t[4:])
    elif k == "cast":
        r = (k, t[1], map_term(t[2], fn)) + tuple(t[3:])
    elif k == "call":
        r = (k, t[1], t[2], [map_term(a, fn) for a in t[3]]) + tuple(t[4:])
    elif k in ("agg", "phi"):
        r = (k, t[1], [map_term(a, fn) for a in t[2]]) + tuple(t[3:])
    elif k == "repeat":
        r = (k, map_term(t[1], fn)) + tuple(t[2:])
    else:
        r = t
    n = fn(r)
    return r if n is None else n


def closures_created_in(F, b):
    """[(block, closure body, capture operands)] for the closures b creates."""
    out = []
    for bi in sorted(b.reachable_blocks()):
        for st in b.blocks[bi]["s"]:
            if st[0] == "=" and st[2][0] == "agg" and st[2][1][0] in ("closure", "coroutine", "coroclosure"):
                cb = F.bodies.get(st[2][1][1])
                if cb is not None:
                    out.append((bi, cb, st[2][2]))
    return out


def resolve_captures(F, b, term, parent=None, depth=0):
    """Express a term of closure body b over its creator: every captured
    upvar `(*env).k` is replaced by the (resolved) term the creator captured.
    The closure's own parameters become ('carg', n) so that they cannot be
    mistaken for the creator's parameters.  Non-closure bodies: identity."""
    if b.kind not in ("Closure",) or not b.root or depth > 3:
        return term
    if parent is None:
        parent = _creator_of(F, b)
    if parent is None:
        return term
    pb, ops = parent

    def fn(s):
        if s[0] == "field" and strip(s[1]) == ("arg", 1) and isinstance(s[2], int) and s[2] < len(ops):
            return resolve_captures(F, pb, pb.term_of_operand(ops[s[2]]), depth=depth + 1)
        if s[0] == "arg" and s[1] >= 2:
            return ("carg", s[1])
        return None
    return map_term(term, fn)


def _creator_of(F, b):
    cache = F.__dict__.setdefault("_creators", {})
    if b.path in cache:
        return cache[b.path]
    res = None
    for pp, pb in F.bodies.items():
        if not (pp == b.root or b.path.startswith(pp + "::{closure")) or pb is b:
            continue
        for bi, cb, ops in closures_created_in(F, pb):
            if cb is b:
                res = (pb, ops)
                break
        if res:
            break
    cache[b.path] = res
    return res


def const_value(t):
    t = strip(t)
    if t[0] == "k" and isinstance(t[1], int):
        return t[1]
    if t[0] == "cast" and t[1] == "IntToInt":
        return const_value(t[2])
    return None


def is_call_to(t, regex):
    t = strip(t, calls=False)
    if t[0] != "call":
        return False
    rx = re.compile(regex) if isinstance(regex, str) else regex
    return bool((t[1] and rx.search(t[1])) or (t[2] and rx.search(t[2])))


# ---------------------------------------------------------------------------
# Checked-call / branch-fact normalisation
# ---------------------------------------------------------------------------

RESULT_VARIANTS = {
    "core::result::Result": ["Ok", "Err"],
    "core::option::Option": ["None", "Some"],
    "core::ops::ControlFlow": ["Continue", "Break"],
    "core::ops::control_flow::ControlFlow": ["Continue", "Break"],
    "core::task::Poll": ["Ready", "Pending"],
    "core::task::poll::Poll": ["Ready", "Pending"],
    "core::ops::Bound": ["Included", "Excluded", "Unbounded"],
    "core::ops::range::Bound": ["Included", "Excluded", "Unbounded"],
    "core::cmp::Ordering": None,  # discriminants -1/0/1: handled by the rules that need it
}


def adt_of_type(ty):
    """`core::result::Result<A, B>` -> `core::result::Result`; strips refs."""
    ty = ty.strip()
    while ty.startswith("&"):
        ty = ty[1:].lstrip()
        if ty.startswith("mut "):
            ty = ty[4:]
        if ty.startswith("'"):
            ty = ty.split(" ", 1)[1] if " " in ty else ty
    i = ty.find("<")
    return ty if i < 0 else ty[:i]


class BranchFacts:
    """Edge facts of a body: for every switch edge, a normalised predicate.

    A fact is (pred_term, value) where value is
      True/False for boolean switches,
      ('variant', name) / ('notvariant', [names]) for discriminant switches,
      ('eq', n) / ('ne', [n..]) for integer switches.
    Boolean negation (`Not`) and `Eq(x, false)` are folded into polarity.
    """

    def __init__(self, body, facts=None):
        self.b = body
        self.facts = facts

    def edge_facts(self, bb):
        """{label: (term, value)} for the switch terminating bb."""
        t = self.b.blocks[bb]["t"]
        if t["k"] != "switch":
            return {}
        term = self.b.term_of_operand(t["d"])
        ty = t["ty"]
        out = {}
        if ty == "bool":
            pol = True
            tt = strip(term, calls=False)
            while tt[0] == "un" and tt[1] == "Not":
                pol = not pol
                tt = strip(tt[2], calls=False)
            for v, tb in t["v"]:
                raw = v != 0
                out[("v", v)] = (tt, raw if pol else not raw)
            # otherwise edge: value is the complement of the listed one
            listed = [v for v, _ in t["v"]]
            if listed == [0]:
                out[("o",)] = (tt, pol)
            elif listed == [1]:
                out[("o",)] = (tt, not pol)
            return out
        tt = strip(term, calls=False)
        if tt[0] == "discr":
            inner = tt[1]
            names = self._variant_names(tt[2])
            listed = []
            for v, tb in t["v"]:
                nm = names[v] if names and v < len(names) else v
                listed.append(nm)
                out[("v", v)] = (inner, ("variant", nm))
            if names and len(listed) == len(names) - 1:
                rest = [n for n in names if n not in listed]
                out[("o",)] = (inner, ("variant", rest[0]))
            else:
                out[("o",)] = (inner, ("notvariant", tuple(listed)))
            return out
        listed = []
        for v, tb in t["v"]:
            listed.append(v)
            out[("v", v)] = (tt, ("eq", v))
        out[("o",)] = (tt, ("ne", tuple(listed)))
        return out

    def _variant_names(self, ty):
        if ty is None:
            return None
        adt = adt_of_type(ty)
        if adt in RESULT_VARIANTS:
            return RESULT_VARIANTS[adt]
        if self.facts is not None and adt in self.facts.adts:
            a = self.facts.adts[adt]
            names = [v["name"] for v in a["variants"]]
            discrs = a.get("discrs") or []
            if discrs and [int(d) for d in discrs] != list(range(len(names))):
                # explicit discriminants: map by value
                m = {}
                for n, d in zip(names, discrs):
                    m[int(d)] = n
                mx = max(m) + 1
                if mx <= 4096:
                    return [m.get(i, i) for i in range(mx)]
                return None
            return names
        return None

    def type_of_term(self, t):
        """Best-effort type of a place-like term (only locals/args roots and
        call results resolvable through local types)."""
        k = t[0]
        if k == "arg":
            return self.b.locals[t[1]]
        if k in ("local",):
            return self.b.locals[t[1]] if t[1] >= 0 else None
        if k == "phi":
            return self.b.locals[t[1]]
        if k == "call":
            bb = t[5]
            dest = self.b.blocks[bb]["t"]["dest"]
            if dest and len(dest) == 1:
                return self.b.locals[dest[0]]
            return None
        if k in ("deref", "ref"):
            inner = self.type_of_term(t[1])
            if inner is None:
                return None
            if k == "deref":
                s = inner.strip()
                if s.startswith("&"):
                    s = s[1:].lstrip()
                    if s.startswith("'"):
                        s = s.split(" ", 1)[1]
                    if s.startswith("mut "):
                        s = s[4:]
                    return s
                return s
            return "&" + inner
        return None


def local_type(body, place):
    if len(place) == 1:
        return body.locals[place[0]]
    return None
