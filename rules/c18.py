"""C18 — Base16/32hex/64 codecs (narrow: compiler-evaluated tables).

C18.tab   encode/decode alphabet tables (read through the const evaluator)
          are mutual inverses, equal the RFC 4648 alphabets, and map nothing
          else.
C18.sib   every decoder sibling (Decoder::push, SymbolConverter::process_char,
          constructors) reads the same decode table constant; every encoder
          indexes the encode table; base16 decodes with radix 16.

The incremental state machines, padding and chunking independence are
value-level and are not decided.
"""
import re

from mirlib import walk, const_value, deep_strip

B64 = "ABCDEFGHIJKLMNOPQRSTUVWXYZabcdefghijklmnopqrstuvwxyz0123456789+/"
B32HEX = "0123456789ABCDEFGHIJKLMNOPQRSTUV"
INVALID = 0xFF


def _const(ctx, R, path):
    c = ctx.facts.consts.get(path)
    if not ctx.anchor(R, path, c is not None and c.get("value") is not None):
        return None
    return c["value"]


def run(ctx):
    F = ctx.facts
    ctx.extra["explanation"] = (
        "C18: the 256+128+128+64+32 table entries of the Base16/32hex/64 alphabets are read from the "
        "compiler's constant evaluator and checked exhaustively for inverse/RFC 4648 agreement; sibling "
        "decoders must reference the same table. State machines/padding are not decided."
    )
    R = "C18.tab"
    ctx.floor(R, 9)
    # ---- base64
    enc = _const(ctx, R, "utils::base64::ENCODE_ALPHABET")
    dec = _const(ctx, R, "utils::base64::DECODE_ALPHABET")
    pad = _const(ctx, R, "utils::base64::PAD")
    padm = _const(ctx, R, "utils::base64::PAD_MARKER")
    if enc is not None and dec is not None:
        s = "".join(chr(x) for x in enc)
        ctx.ob(R, "utils::base64::ENCODE_ALPHABET", "== RFC 4648 table 1", s == B64,
               "base64 encode alphabet differs from RFC 4648: %r" % s)
        bad = [i for i, ch in enumerate(enc) if ch >= len(dec) or dec[ch] != i]
        ctx.ob(R, "utils::base64::DECODE_ALPHABET", "DECODE[ENCODE[i]] == i for all 64 i", not bad,
               "decode table is not the inverse of the encode table at values %s" % bad[:8])
        valid = set(enc)
        extra = [i for i, v in enumerate(dec) if i not in valid and v != INVALID]
        ctx.ob(R, "utils::base64::DECODE_ALPHABET", "no other character decodes", not extra,
               "characters outside the alphabet are accepted: %s" % [chr(i) for i in extra[:8]])
        ctx.ob(R, "utils::base64::DECODE_ALPHABET", "pad handled outside the table",
               pad == ord("=") and padm is not None and padm >= 64 and padm != INVALID and dec[pad] == INVALID
               and padm not in dec,
               "'=' must not decode through the table and PAD_MARKER must be neither a sextet nor the "
               "invalid marker")
        ctx.ob(R, "utils::base64::DECODE_ALPHABET", "128 entries", len(dec) == 128 and len(enc) == 64,
               "table sizes changed")
    # ---- base32hex
    enc = _const(ctx, R, "utils::base32::ENCODE_HEX_ALPHABET")
    dec = _const(ctx, R, "utils::base32::DECODE_HEX_ALPHABET")
    if enc is not None and dec is not None:
        s = "".join(chr(x) for x in enc)
        ctx.ob(R, "utils::base32::ENCODE_HEX_ALPHABET", "== RFC 4648 table 4", s == B32HEX,
               "base32hex encode alphabet differs from RFC 4648: %r" % s)
        bad = [i for i, ch in enumerate(enc) if dec[ch] != i or dec[ord(chr(ch).lower())] != i]
        ctx.ob(R, "utils::base32::DECODE_HEX_ALPHABET", "DECODE[ENCODE[i]] == i (both cases)", not bad,
               "decode table is not the (case-insensitive) inverse of the encode table at %s" % bad[:8])
        valid = set(enc) | {ord(chr(c).lower()) for c in enc}
        extra = [i for i, v in enumerate(dec) if i not in valid and v != INVALID]
        ctx.ob(R, "utils::base32::DECODE_HEX_ALPHABET", "no other character decodes", not extra,
               "characters outside the alphabet are accepted: %s" % [chr(i) for i in extra[:8]])
    # ---- base16
    enc = _const(ctx, R, "utils::base16::ENCODE_ALPHABET")
    if enc is not None:
        bad = [i for i, e in enumerate(enc) if "".join(chr(x) for x in e) != "%02X" % i]
        ctx.ob(R, "utils::base16::ENCODE_ALPHABET", "entry i == two upper-case hex digits of i (256 entries)",
               not bad and len(enc) == 256, "base16 table wrong at octets %s" % bad[:8])

    # ---- siblings
    R = "C18.sib"
    ctx.floor(R, 8)

    def refs(body, const_path):
        n = 0
        for blk in body.blocks:
            for st in blk["s"]:
                if st[0] == "=" and const_path in repr(st[2]):
                    n += 1
            if const_path in repr(blk["t"].get("args", "")):
                n += 1
        return n

    for fn, table in (
        ("utils::base64::Decoder::<Builder>::push", "utils::base64::DECODE_ALPHABET"),
        ("utils::base64::SymbolConverter::process_char", "utils::base64::DECODE_ALPHABET"),
        ("utils::base32::Decoder::<Builder>::new_hex", "utils::base32::DECODE_HEX_ALPHABET"),
        ("<utils::base32::SymbolConverter as core::default::Default>::default", "utils::base32::DECODE_HEX_ALPHABET"),
        ("utils::base64::display", "utils::base64::ENCODE_ALPHABET"),
        ("utils::base32::display_hex", "utils::base32::ENCODE_HEX_ALPHABET"),
        ("utils::base16::display", "utils::base16::ENCODE_ALPHABET"),
    ):
        bs = [b for p, b in F.bodies.items() if p == fn or p.startswith(fn + "::")]
        if not ctx.anchor(R, fn, bs):
            continue
        n = sum(refs(b, table) for b in bs)
        ctx.ob(R, fn, "uses %s" % table.split("::")[-1], n >= 1,
               "%s no longer reads the shared table %s (sibling decoders/encoders would diverge)" % (fn, table))
    # base32 decoders index self.alphabet (set only by the constructors above)
    for fn in ("utils::base32::Decoder::<Builder>::push", "utils::base32::SymbolConverter::process_char"):
        b = F.body(fn)
        if not ctx.anchor(R, fn, b):
            continue
        idx = 0
        for blk in b.blocks:
            for st in blk["s"]:
                if st[0] == "=" and st[2][0] == "use" and st[2][1][0] in ("c", "m"):
                    pl = st[2][1][1]
                    if any(isinstance(pr, list) and pr[0] == "." and pr[2] == "alphabet" for pr in pl[1:]) and any(
                            isinstance(pr, list) and pr[0] == "[]" for pr in pl[1:]):
                        idx += 1
        ctx.ob(R, fn, "indexes self.alphabet", idx >= 1,
               "%s must look characters up in the decoder's alphabet field" % fn)
    # base16 decoder: char::to_digit(16)
    for fn in ("utils::base16::Decoder::<Builder>::push",
               "<utils::base16::SymbolConverter as base::scan::ConvertSymbols<Sym, Error>>::process_symbol"):
        b = F.body(fn)
        if not ctx.anchor(R, fn, b):
            continue
        cs = b.calls_matching(r"<impl char>::to_digit$")
        ok = bool(cs) and all(const_value(b.term_of_operand(t["args"][1])) == 16 for _, t in cs)
        ctx.ob(R, fn, "to_digit(16)", ok, "base16 decoding must use radix 16")
