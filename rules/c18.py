"""C18 — Base16/32hex/64 codecs (narrow: compiler-evaluated tables).

C18.tab   encode/decode alphabet tables (read through the const evaluator)
          are mutual inverses, equal the RFC 4648 alphabets, and map nothing
          else.
C18.sib   every decoder sibling (Decoder::push, SymbolConverter::process_char,
          constructors) reads the same decode table constant; every encoder
          indexes the encode table; base16 decodes with radix 16.

The incremental state machines, padding and chunking independence are
value-level and are not decided.
"""
import re

from mirlib import walk, const_value, deep_strip

B64 = "ABCDEFGHIJKLMNOPQRSTUVWXYZabcdefghijklmnopqrstuvwxyz0123456789+/"
B32HEX = "0123456789ABCDEFGHIJKLMNOPQRSTUV"
INVALID = 0xFF


def _const(ctx, R, path):
    c = ctx.facts.consts.get(path)
    if not ctx.anchor(R, path, c is not None and c.get("value") is not None):
        return None
    return c["value"]


def run(ctx):
    F = ctx.facts
    ctx.extra["explanation"] = (
        "C18: the 256+128+128+64+32 table entries of the Base16/32hex/64 alphabets are read from the "
        "compiler's constant evaluator and checked exhaustively for inverse/RFC 4648 agreement; sibling "
        "decoders must reference the same table. State machines/padding are not decided."
    )
    R = "C18.tab"
    ctx.floor(R, 9)
    # ---- base64
    enc = _const(ctx, R, "utils::base64::ENCODE_ALPHABET")
    dec = _const(ctx, R, "utils::base64::DECODE_ALPHABET")
    pad = _const(ctx, R, "utils::base64::PAD")
    padm = _const(ctx, R, "utils::base64::PAD_MARKER")
    if enc is not None and dec is not None:
        s = "".join(chr(x) for x in enc)
        ctx.ob(R, "utils::base64::ENCODE_ALPHABET", "== RFC 4648 table 1", s == B64,
               "base64 encode alphabet differs from RFC 4648: %r" % s)
        bad = [i for i, ch in enumerate(enc) if ch >= len(dec) or dec[ch] != i]
        ctx.ob(R, "utils::base64::DECODE_ALPHABET", "DECODE[ENCODE[i]] == i for all 64 i", not bad,
               "decode table is not the inverse of the encode table at values %s" % bad[:8])
        valid = set(enc)
        extra = [i for i, v in enumerate(dec) if i not in valid and v != INVALID]
        ctx.ob(R, "utils::base64::DECODE_ALPHABET", "no other character decodes", not extra,
               "characters outside the alphabet are accepted: %s" % [chr(i) for i in extra[:8]])
        ctx.ob(R, "utils::base64::DECODE_ALPHABET", "pad handled outside the table",
               pad == ord("=") and padm is not None and padm >= 64 and padm != INVALID and dec[pad] == INVALID
               and padm not in dec,
               "'=' must not decode through the table and PAD_MARKER must be neither a sextet nor the "
               "invalid marker")
        ctx.ob(R, "utils::base64::DECODE_ALPHABET", "128 entries", len(dec) == 128 and len(enc) == 64,
               "table sizes changed")
    # ---- base32hex
    enc = _const(ctx, R, "utils::base32::ENCODE_HEX_ALPHABET")
    dec = _const(ctx, R, "utils::base32::DECODE_HEX_ALPHABET")
    if enc is not None and dec is not None:
        s = "".join(chr(x) for x in enc)
        ctx.ob(R, "utils::base32::ENCODE_HEX_ALPHABET", "== RFC 4648 table 4", s == B32HEX,
               "base32hex encode alphabet differs from RFC 4648: %r" % s)
        bad = [i for i, ch in enumerate(enc) if dec[ch] != i or dec[ord(chr(ch).lower())] != i]
        ctx.ob(R, "utils::base32::DECODE_HEX_ALPHABET", "DECODE[ENCODE[i]] == i (both cases)", not bad,
               "decode table is not the (case-insensitive) inverse of the encode table at %s" % bad[:8])
        valid = set(enc) | {ord(chr(c).lower()) for c in enc}
        extra = [i for i, v in enumerate(dec) if i not in valid and v != INVALID]
        ctx.ob(R, "utils::base32::DECODE_HEX_ALPHABET", "no other character decodes", not extra,
               "characters outside the alphabet are accepted: %s" % [chr(i) for i in extra[:8]])
    # ---- base16
    enc = _const(ctx, R, "utils::base16::ENCODE_ALPHABET")
    if enc is not None:
        bad = [i for i, e in enumerate(enc) if "".join(chr(x) for x in e) != "%02X" % i]
        ctx.ob(R, "utils::base16::ENCODE_ALPHABET", "entry i == two upper-case hex digits of i (256 entries)",
               not bad and len(enc) == 256, "base16 table wrong at octets %s" % bad[:8])

    # ---- siblings
    R = "C18.sib"
    ctx.floor(R, 8)

    def refs(body, const_path):
        n = 0
        for blk in body.blocks:
            for st in blk["s"]:
                if st[0] == "=" and const_path in repr(st[2]):
                    n += 1
            if const_path in repr(blk["t"].get("args", "")):
                n += 1
        return n

    for fn, table in (
        ("utils::base64::Decoder::<Builder>::push", "utils::base64::DECODE_ALPHABET"),
        ("utils::base64::SymbolConverter::process_char", "utils::base64::DECODE_ALPHABET"),
        ("utils::base32::Decoder::<Builder>::new_hex", "utils::base32::DECODE_HEX_ALPHABET"),
        ("<utils::base32::SymbolConverter as core::default::Default>::default", "utils::base32::DECODE_HEX_ALPHABET"),
        ("utils::base64::display", "utils::base64::ENCODE_ALPHABET"),
        ("utils::base32::display_hex", "utils::base32::ENCODE_HEX_ALPHABET"),
        ("utils::base16::display", "utils::base16::ENCODE_ALPHABET"),
    ):
        bs = [b for p, b in F.bodies.items() if p == fn or p.startswith(fn + "::")]
        if not ctx.anchor(R, fn, bs):
            continue
        n = sum(refs(b, table) for b in bs)
        ctx.ob(R, fn, "uses %s" % table.split("::")[-1], n >= 1,
               "%s no longer reads the shared table %s (sibling decoders/encoders would diverge)" % (fn, table))
    # base32 decoders index self.alphabet (set only by the constructors above)
    for fn in ("utils::base32::Decoder::<Builder>::push", "utils::base32::SymbolConverter::process_char"):
        b = F.body(fn)
        if not ctx.anchor(R, fn, b):
            continue
        idx = 0
        for blk in b.blocks:
            for st in blk["s"]:
                if st[0] == "=" and st[2][0] == "use" and st[2][1][0] in ("c", "m"):
                    pl = st[2][1][1]
                    if any(isinstance(pr, list) and pr[0] == "." and pr[2] == "alphabet" for pr in pl[1:]) and any(
                            isinstance(pr, list) and pr[0] == "[]" for pr in pl[1:]):
                        idx += 1
        ctx.ob(R, fn, "indexes self.alphabet", idx >= 1,
               "%s must look characters up in the decoder's alphabet field" % fn)
    # base16 decoder: char::to_digit(16)
    for fn in ("utils::base16::Decoder::<Builder>::push",
               "<utils::base16::SymbolConverter as base::scan::ConvertSymbols<Sym, Error>>::process_symbol"):
        b = F.body(fn)
        if not ctx.anchor(R, fn, b):
            continue
        cs = b.calls_matching(r"<impl char>::to_digit$")
        ok = bool(cs) and all(const_value(b.term_of_operand(t["args"][1])) == 16 for _, t in cs)
        ctx.ob(R, fn, "to_digit(16)", ok, "base16 decoding must use radix 16")
    rule_tail(ctx, F)
    rule_state(ctx, F)


# ---------------------------------------------------------------------------
# C18.tail / C18.state: sibling agreement of the incremental decoders
# ---------------------------------------------------------------------------
import re as _re

from mirlib import BranchFacts, strip, show
from rulelib import bool_facts, return_assignments, facts_at


def _err_only(b, start):
    """Every path from `start` to a return assigns Err / diverges (never Ok / Some / unit)."""
    rets = {rb: kind for rb, si, kind, term in return_assignments(b)}
    reach = b.reach_from(start)
    kinds = {rets[x] for x in reach if x in rets}
    return bool(kinds) and kinds <= {"Err"}


def _next_switches(b):
    """[(bb, {value: target})] for integer switches on self.next"""
    out = []
    for bi in sorted(b.reachable_blocks()):
        t = b.blocks[bi]["t"]
        if t["k"] != "switch" or t["ty"] == "bool":
            continue
        d = deep_strip(b.term_of_operand(t["d"]))
        if d[0] == "field" and d[2] == "next":
            out.append((bi, {v: tb for v, tb in t["v"]}, t["o"]))
    return out


def _tail_reject_set(b):
    """Values of self.next for which the tail handler can only fail."""
    rej = set()
    for bi, arms, other in _next_switches(b):
        for v, tb in arms.items():
            if _err_only(b, tb):
                rej.add(v)
    return rej


def _valid_tails(bits, upto):
    """Symbol counts n < upto whose last symbol is needed: ceil(8*floor(bits*n/8)/bits) == n."""
    ok = set()
    for n in range(1, upto):
        by = (bits * n) // 8
        if by > 0 and -(-8 * by // bits) == n:
            ok.add(n)
    return ok


def rule_tail(ctx, F):
    R = "C18.tail"
    ctx.floor(R, 4)
    want_reject = set(range(1, 8)) - _valid_tails(5, 8)      # {1, 3, 6}
    for fn in ("utils::base32::Decoder::<Builder>::finalize",
               "<utils::base32::SymbolConverter as base::scan::ConvertSymbols<Sym, Error>>::process_tail"):
        b = F.body(fn)
        if not ctx.anchor(R, fn, b):
            continue
        got = _tail_reject_set(b)
        ctx.ob(R, b, "rejected tail lengths == {1,3,6}", got == want_reject,
               "a Base32 tail of n symbols is well-formed iff its last symbol contributes bits to a whole octet "
               "(n in {2,4,5,7}); this function rejects %s" % sorted(got))
    # octets produced for each accepted tail length: floor(5n/8)
    b = F.body("utils::base32::Decoder::<Builder>::finalize")
    if b is not None:
        for bi, arms, other in _next_switches(b):
            bad = []
            for v, tb in arms.items():
                if v in want_reject or v == 0 or v > 7:
                    continue
                # calls to octet_k reachable from this arm before the join
                seen = set()
                cur = tb
                guard = 0
                while guard < 40:
                    guard += 1
                    t = b.blocks[cur]["t"]
                    if t["k"] == "call" and t["fn"] and _re.search(r"::octet_(\d)$", t["fn"]):
                        seen.add(int(t["fn"][-1]))
                    nx = [s for s, _ in b.succs(cur)]
                    if len(nx) != 1:
                        break
                    if len(b.preds().get(nx[0], [])) > 1:
                        break
                    cur = nx[0]
                if seen != set(range((5 * v) // 8)):
                    bad.append((v, sorted(seen)))
            ctx.ob(R, b, "octets emitted per tail length == floor(5n/8)", not bad,
                   "tail length -> octet helpers called: %s" % bad)
    # base64 finalize: a pending partial group is an error
    for fn in ("utils::base64::Decoder::<Builder>::finalize",):
        b = F.body(fn)
        if ctx.anchor(R, fn, b):
            bodies = [b] + [cb for p, cb in F.bodies.items() if cb.root == fn or p.startswith(fn + "::{closure")]
            ok = False
            for bb_ in bodies:
                for rb, si, kind, term in return_assignments(bb_):
                    if kind != "Err":
                        continue
                    for tt, vv in bool_facts(bb_, rb, F):
                        # (next & 0x0F) != 0  -> ShortInput
                        if tt[0] == "bin" and tt[1] in ("Ne", "Eq") and const_value(tt[3]) == 0 and ((tt[1] == "Ne") == vv):
                            l = deep_strip(tt[2])
                            if l[0] == "bin" and l[1] == "BitAnd" and const_value(l[3]) == 0x0F:
                                ok = True
            ctx.ob(R, b, "partial group rejected", ok,
                   "Base64 finalize must reject an unfinished group (state with a non-zero low nibble)")


def _state_signature(b, pad_value):
    """{(K, frozenset(facts on slot 3 vs the pad marker))} for every `self.next = K` (K constant)."""
    sig = set()
    for bi in sorted(b.reachable_blocks()):
        for st in b.blocks[bi]["s"]:
            if st[0] != "=" or len(st[1]) < 2:
                continue
            tgt = deep_strip(b.term_of_place(st[1]))
            if not (tgt[0] == "field" and tgt[2] == "next"):
                continue
            k = const_value(b.term_of_rvalue(st[2]))
            if k is None:
                continue
            facts = set()
            for t, v in bool_facts(b, bi, F_GLOBAL[0]):
                if t[0] == "bin" and t[1] in ("Eq", "Ne") and const_value(t[3]) == pad_value:
                    lhs = deep_strip(t[2])
                    if lhs[0] == "idx" and const_value(lhs[2]) is not None:
                        eq = (t[1] == "Eq") == v
                        if const_value(lhs[2]) == 3:
                            facts.add((3, eq))
            sig.add((k, frozenset(facts)))
    return sig


F_GLOBAL = [None]


def rule_state(ctx, F):
    R = "C18.state"
    ctx.floor(R, 2)
    F_GLOBAL[0] = F
    padm = F.consts.get("utils::base64::PAD_MARKER", {}).get("value")
    eof = F.consts.get("utils::base64::EOF_MARKER", {}).get("value")
    a = F.body("utils::base64::Decoder::<Builder>::push")
    c = F.body("utils::base64::SymbolConverter::process_char")
    if not (ctx.anchor(R, "base64 Decoder::push", a) and ctx.anchor(R, "base64 SymbolConverter::process_char", c)
            and ctx.anchor(R, "base64 PAD_MARKER/EOF_MARKER", padm is not None and eof is not None)):
        return
    sa, sc = _state_signature(a, padm), _state_signature(c, padm)
    want = {(0, frozenset({(3, False)})), (eof, frozenset({(3, True)}))}
    for b, s, nm in ((a, sa, "Decoder::push"), (c, sc, "SymbolConverter::process_char")):
        ctx.ob(R, b, "group end: next=0 iff last symbol is data, next=EOF iff it is padding", s == want,
               "%s: after a complete group the decoder must return to state 0 only when the fourth symbol "
               "is data and enter the end-of-data state when it is '='; found transitions %s"
               % (nm, sorted((k, sorted(f)) for k, f in s)))
    # both reject input after the end-of-data state
    for b, nm in ((a, "Decoder::push"), (c, "SymbolConverter::process_char")):
        ok = False
        for rb, si, kind, term in return_assignments(b):
            if kind != "Err":
                continue
            for t, v in bool_facts(b, rb, F):
                if t[0] == "bin" and t[1] == "Eq" and v and const_value(t[3]) == eof:
                    lhs = deep_strip(t[2])
                    if lhs[0] == "field" and lhs[2] == "next":
                        ok = True
        ctx.ob(R, b, "input after end-of-data is rejected", ok,
               "%s must fail when called in the end-of-data state (next == EOF_MARKER)" % nm)
