"""C18 — Base16/32hex/64 codecs (narrow: compiler-evaluated tables).

C18.tab   encode/decode alphabet tables (read through the const evaluator)
          are mutual inverses, equal the RFC 4648 alphabets, and map nothing
          else.
C18.sib   every decoder sibling (Decoder::push, SymbolConverter::process_char,
          constructors) reads the same decode table constant; every encoder
          indexes the encode table; base16 decodes with radix 16.

C18.enc   every value an encoder uses to index its alphabet is below the
          alphabet's size, by the masks and shifts that produce it (bit-width
          upper bound of the index expression at each call of the indexing
          helper): no input octets can make `display` / `encode` panic.

C18.bits  every octet a Base32 / Base64 decoder assembles (`(buf[i] << s) |
          (buf[j] >> r) | ..`) equals the RFC 4648 bit layout: the set of
          (symbol index, direction, amount) of the expression is the one
          computed from the group width (5 / 6 bits) for some output octet --
          in the Decoders and the SymbolConverters, full groups and tails.
C18.split the scanners' convert_entry / convert_token call the converter's
          process_tail once, after the loop over tokens and symbols, on every
          path to a successful return: the result does not depend on how the
          text is split into tokens.
C18.symok a function that walks a `Symbols` iterator (which *stops* at a
          malformed escape sequence) asks it `ok()` on every path to a
          successful return, or hands out only a borrow of it and asks then:
          text after a bad escape is never dropped silently.
C18.sticky  the three incremental Decoders document "it is okay to push more
          data after the first error, the method will just keep returning
          errors": every error push() returns is also recorded in
          self.target, so that finalize() cannot succeed after a failed push.

The incremental state machines, padding and chunking independence are
value-level and are not decided.
"""
import re

from mirlib import walk, const_value, deep_strip, show

B64 = "ABCDEFGHIJKLMNOPQRSTUVWXYZabcdefghijklmnopqrstuvwxyz0123456789+/"
B32HEX = "0123456789ABCDEFGHIJKLMNOPQRSTUV"
INVALID = 0xFF


def _const(ctx, R, path):
    c = ctx.facts.consts.get(path)
    if not ctx.anchor(R, path, c is not None and c.get("value") is not None):
        return None
    return c["value"]


def rule_tab(ctx, F):
    """the alphabets: compiler-evaluated tables against RFC 4648, encode and decode tables mutual inverses"""
    R = "C18.tab"
    ctx.floor(R, 9)
    # ---- base64
    enc = _const(ctx, R, "utils::base64::ENCODE_ALPHABET")
    dec = _const(ctx, R, "utils::base64::DECODE_ALPHABET")
    pad = _const(ctx, R, "utils::base64::PAD")
    padm = _const(ctx, R, "utils::base64::PAD_MARKER")
    if enc is not None and dec is not None:
        s = "".join(chr(x) for x in enc)
        ctx.ob(R, "utils::base64::ENCODE_ALPHABET", "== RFC 4648 table 1", s == B64,
               "base64 encode alphabet differs from RFC 4648: %r" % s)
        bad = [i for i, ch in enumerate(enc) if ch >= len(dec) or dec[ch] != i]
        ctx.ob(R, "utils::base64::DECODE_ALPHABET", "DECODE[ENCODE[i]] == i for all 64 i", not bad,
               "decode table is not the inverse of the encode table at values %s" % bad[:8])
        valid = set(enc)
        extra = [i for i, v in enumerate(dec) if i not in valid and v != INVALID]
        ctx.ob(R, "utils::base64::DECODE_ALPHABET", "no other character decodes", not extra,
               "characters outside the alphabet are accepted: %s" % [chr(i) for i in extra[:8]])
        ctx.ob(R, "utils::base64::DECODE_ALPHABET", "pad handled outside the table",
               pad == ord("=") and padm is not None and padm >= 64 and padm != INVALID and dec[pad] == INVALID
               and padm not in dec,
               "'=' must not decode through the table and PAD_MARKER must be neither a sextet nor the "
               "invalid marker")
        ctx.ob(R, "utils::base64::DECODE_ALPHABET", "128 entries", len(dec) == 128 and len(enc) == 64,
               "table sizes changed")
    # ---- base32hex
    enc = _const(ctx, R, "utils::base32::ENCODE_HEX_ALPHABET")
    dec = _const(ctx, R, "utils::base32::DECODE_HEX_ALPHABET")
    if enc is not None and dec is not None:
        s = "".join(chr(x) for x in enc)
        ctx.ob(R, "utils::base32::ENCODE_HEX_ALPHABET", "== RFC 4648 table 4", s == B32HEX,
               "base32hex encode alphabet differs from RFC 4648: %r" % s)
        bad = [i for i, ch in enumerate(enc) if dec[ch] != i or dec[ord(chr(ch).lower())] != i]
        ctx.ob(R, "utils::base32::DECODE_HEX_ALPHABET", "DECODE[ENCODE[i]] == i (both cases)", not bad,
               "decode table is not the (case-insensitive) inverse of the encode table at %s" % bad[:8])
        valid = set(enc) | {ord(chr(c).lower()) for c in enc}
        extra = [i for i, v in enumerate(dec) if i not in valid and v != INVALID]
        ctx.ob(R, "utils::base32::DECODE_HEX_ALPHABET", "no other character decodes", not extra,
               "characters outside the alphabet are accepted: %s" % [chr(i) for i in extra[:8]])
    # ---- base16
    enc = _const(ctx, R, "utils::base16::ENCODE_ALPHABET")
    if enc is not None:
        bad = [i for i, e in enumerate(enc) if "".join(chr(x) for x in e) != "%02X" % i]
        ctx.ob(R, "utils::base16::ENCODE_ALPHABET", "entry i == two upper-case hex digits of i (256 entries)",
               not bad and len(enc) == 256, "base16 table wrong at octets %s" % bad[:8])


def run(ctx):
    F = ctx.facts
    ctx.extra["explanation"] = (
        "C18: the 256+128+128+64+32 table entries of the Base16/32hex/64 alphabets are read from the "
        "compiler's constant evaluator and checked exhaustively for inverse/RFC 4648 agreement; sibling "
        "decoders must reference the same table. State machines/padding are not decided."
    )
    rule_tab(ctx, F)
    rule_encbits(ctx, F)
    rule_tabidx(ctx, F)
    rule_eot(ctx, F)

    # ---- siblings
    R = "C18.sib"
    ctx.floor(R, 8)

    def refs(body, const_path):
        n = 0
        for blk in body.blocks:
            for st in blk["s"]:
                if st[0] == "=" and const_path in repr(st[2]):
                    n += 1
            if const_path in repr(blk["t"].get("args", "")):
                n += 1
        return n

    for fn, table in (
        ("utils::base64::Decoder::<Builder>::push", "utils::base64::DECODE_ALPHABET"),
        ("utils::base64::SymbolConverter::process_char", "utils::base64::DECODE_ALPHABET"),
        ("utils::base32::Decoder::<Builder>::new_hex", "utils::base32::DECODE_HEX_ALPHABET"),
        ("<utils::base32::SymbolConverter as core::default::Default>::default", "utils::base32::DECODE_HEX_ALPHABET"),
        ("utils::base64::display", "utils::base64::ENCODE_ALPHABET"),
        ("utils::base32::display_hex", "utils::base32::ENCODE_HEX_ALPHABET"),
        ("utils::base16::display", "utils::base16::ENCODE_ALPHABET"),
    ):
        bs = [b for p, b in F.bodies.items() if p == fn or p.startswith(fn + "::")]
        if not ctx.anchor(R, fn, bs):
            continue
        n = sum(refs(b, table) for b in bs)
        ctx.ob(R, fn, "uses %s" % table.split("::")[-1], n >= 1,
               "%s no longer reads the shared table %s (sibling decoders/encoders would diverge)" % (fn, table))
    # base32 decoders index self.alphabet (set only by the constructors above)
    for fn in ("utils::base32::Decoder::<Builder>::push", "utils::base32::SymbolConverter::process_char"):
        b = F.body(fn)
        if not ctx.anchor(R, fn, b):
            continue
        idx = 0
        for blk in b.blocks:
            for st in blk["s"]:
                if st[0] == "=" and st[2][0] == "use" and st[2][1][0] in ("c", "m"):
                    pl = st[2][1][1]
                    if any(isinstance(pr, list) and pr[0] == "." and pr[2] == "alphabet" for pr in pl[1:]) and any(
                            isinstance(pr, list) and pr[0] == "[]" for pr in pl[1:]):
                        idx += 1
        ctx.ob(R, fn, "indexes self.alphabet", idx >= 1,
               "%s must look characters up in the decoder's alphabet field" % fn)
    # base16 decoder: char::to_digit(16)
    for fn in ("utils::base16::Decoder::<Builder>::push",
               "<utils::base16::SymbolConverter as base::scan::ConvertSymbols<Sym, Error>>::process_symbol"):
        b = F.body(fn)
        if not ctx.anchor(R, fn, b):
            continue
        cs = b.calls_matching(r"<impl char>::to_digit$")
        ok = bool(cs) and all(const_value(b.term_of_operand(t["args"][1])) == 16 for _, t in cs)
        ctx.ob(R, fn, "to_digit(16)", ok, "base16 decoding must use radix 16")
    rule_tail(ctx, F)
    rule_state(ctx, F)
    rule_idx(ctx, F)
    rule_enc(ctx, F)
    rule_sticky(ctx, F)
    rule_bits(ctx, F)
    rule_tailcall(ctx, F)
    rule_symok(ctx, F)
    rule_eofguard(ctx, F)


# ---------------------------------------------------------------------------
# C18.tail / C18.state: sibling agreement of the incremental decoders
# ---------------------------------------------------------------------------
import re as _re

from mirlib import BranchFacts, strip, show
from rulelib import bool_facts, return_assignments, facts_at


def _err_only(b, start):
    """Every path from `start` to a return assigns Err / diverges (never Ok / Some / unit)."""
    rets = {rb: kind for rb, si, kind, term in return_assignments(b)}
    reach = b.reach_from(start)
    kinds = {rets[x] for x in reach if x in rets}
    return bool(kinds) and kinds <= {"Err"}


def _next_switches(b):
    """[(bb, {value: target})] for integer switches on self.next"""
    out = []
    for bi in sorted(b.reachable_blocks()):
        t = b.blocks[bi]["t"]
        if t["k"] != "switch" or t["ty"] == "bool":
            continue
        d = deep_strip(b.term_of_operand(t["d"]))
        if d[0] == "field" and d[2] == "next":
            out.append((bi, {v: tb for v, tb in t["v"]}, t["o"]))
    return out


def _tail_reject_set(b):
    """Values of self.next for which the tail handler can only fail."""
    rej = set()
    for bi, arms, other in _next_switches(b):
        for v, tb in arms.items():
            if _err_only(b, tb):
                rej.add(v)
    return rej


def _valid_tails(bits, upto):
    """Symbol counts n < upto whose last symbol is needed: ceil(8*floor(bits*n/8)/bits) == n."""
    ok = set()
    for n in range(1, upto):
        by = (bits * n) // 8
        if by > 0 and -(-8 * by // bits) == n:
            ok.add(n)
    return ok


def rule_tail(ctx, F):
    R = "C18.tail"
    ctx.floor(R, 4)
    want_reject = set(range(1, 8)) - _valid_tails(5, 8)      # {1, 3, 6}
    for fn in ("utils::base32::Decoder::<Builder>::finalize",
               "<utils::base32::SymbolConverter as base::scan::ConvertSymbols<Sym, Error>>::process_tail"):
        b = F.body(fn)
        if not ctx.anchor(R, fn, b):
            continue
        got = _tail_reject_set(b)
        ctx.ob(R, b, "rejected tail lengths == {1,3,6}", got == want_reject,
               "a Base32 tail of n symbols is well-formed iff its last symbol contributes bits to a whole octet "
               "(n in {2,4,5,7}); this function rejects %s" % sorted(got))
    # octets produced for each accepted tail length: floor(5n/8)
    b = F.body("utils::base32::Decoder::<Builder>::finalize")
    if b is not None:
        for bi, arms, other in _next_switches(b):
            bad = []
            for v, tb in arms.items():
                if v in want_reject or v == 0 or v > 7:
                    continue
                # calls to octet_k reachable from this arm before the join
                seen = set()
                cur = tb
                guard = 0
                while guard < 40:
                    guard += 1
                    t = b.blocks[cur]["t"]
                    if t["k"] == "call" and t["fn"] and _re.search(r"::octet_(\d)$", t["fn"]):
                        seen.add(int(t["fn"][-1]))
                    nx = [s for s, _ in b.succs(cur)]
                    if len(nx) != 1:
                        break
                    if len(b.preds().get(nx[0], [])) > 1:
                        break
                    cur = nx[0]
                if seen != set(range((5 * v) // 8)):
                    bad.append((v, sorted(seen)))
            ctx.ob(R, b, "octets emitted per tail length == floor(5n/8)", not bad,
                   "tail length -> octet helpers called: %s" % bad)
    # base64 finalize: a pending partial group is an error
    for fn in ("utils::base64::Decoder::<Builder>::finalize",):
        b = F.body(fn)
        if ctx.anchor(R, fn, b):
            bodies = [b] + [cb for p, cb in F.bodies.items() if cb.root == fn or p.startswith(fn + "::{closure")]
            ok = False
            for bb_ in bodies:
                for rb, si, kind, term in return_assignments(bb_):
                    if kind != "Err":
                        continue
                    for tt, vv in bool_facts(bb_, rb, F):
                        # (next & 0x0F) != 0  -> ShortInput
                        if tt[0] == "bin" and tt[1] in ("Ne", "Eq") and const_value(tt[3]) == 0 and ((tt[1] == "Ne") == vv):
                            l = deep_strip(tt[2])
                            if l[0] == "bin" and l[1] == "BitAnd" and const_value(l[3]) == 0x0F:
                                ok = True
            ctx.ob(R, b, "partial group rejected", ok,
                   "Base64 finalize must reject an unfinished group (state with a non-zero low nibble)")


def _state_signature(b, pad_value):
    """{(K, frozenset({(3, is_pad)}))}: the value `self.next` holds on each *successful* exit that completed a
    group, together with what the path established about slot 3 (the fourth symbol) being the pad marker.
    Path-sensitive over the (loop-free) body: constants assigned to temporaries are tracked, so
    `self.next = if .. { 0 } else { EOF }` reads the same as two separate stores."""
    F = F_GLOBAL[0]
    bf = BranchFacts(b, F)
    oks = {r[0] for r in return_assignments(b) if r[2] == "Ok"}
    rets = set(b.return_blocks())
    sig = set()
    count = [0]

    def dfs(bb, env, nxt, slot3, onpath):
        count[0] += 1
        if count[0] > 20000 or bb in onpath:
            return
        env = dict(env)
        blk = b.blocks[bb]
        saw_ok = False
        for st in blk["s"]:
            if st[0] != "=":
                continue
            if len(st[1]) == 1:
                rv = st[2]
                if rv[0] == "use" and rv[1][0] == "k" and isinstance(rv[1][2], int) and not isinstance(rv[1][2], bool):
                    env[st[1][0]] = rv[1][2]
                elif rv[0] == "use" and rv[1][0] in ("c", "m") and len(rv[1][1]) == 1 and rv[1][1][0] in env:
                    env[st[1][0]] = env[rv[1][1][0]]
                else:
                    env.pop(st[1][0], None)
                if st[1] == [0] and rv[0] == "agg" and rv[1][0] == "adt" and rv[1][2] == "Ok":
                    saw_ok = True
            else:
                tgt = deep_strip(b.term_of_place(st[1]))
                if tgt[0] == "field" and tgt[2] == "next":
                    rv = st[2]
                    k = None
                    if rv[0] == "use" and rv[1][0] == "k" and isinstance(rv[1][2], int):
                        k = rv[1][2]
                    elif rv[0] == "use" and rv[1][0] in ("c", "m") and len(rv[1][1]) == 1:
                        k = env.get(rv[1][1][0])
                    if k is None:
                        k = const_value(b.term_of_rvalue(rv))
                    nxt = ("const", k) if k is not None else ("other",)
        t = blk["t"]
        if t["k"] == "ret" or bb in rets:
            return
        succs = b.succs(bb)
        # an Ok value assigned here (or in a call returning into _0) marks a successful exit
        if (saw_ok or bb in oks) and nxt is not None and nxt[0] == "const":
            sig.add((nxt[1], frozenset({(3, slot3)} if slot3 is not None else set())))
        if t["k"] == "switch":
            ef = bf.edge_facts(bb)
            for s, lab in succs:
                s3 = slot3
                if lab in ef:
                    tt, vv = ef[lab]
                    tt = deep_strip(tt)
                    if tt[0] == "bin" and tt[1] in ("Eq", "Ne") and const_value(tt[3]) == pad_value and isinstance(vv, bool):
                        lhs = deep_strip(tt[2])
                        if lhs[0] == "idx" and const_value(lhs[2]) == 3:
                            s3 = (tt[1] == "Eq") == vv
                            if slot3 is not None and s3 != slot3:
                                continue   # contradicts what this path already established about slot 3
                dfs(s, env, nxt, s3, onpath | {bb})
            return
        for s, lab in succs:
            dfs(s, env, nxt, slot3, onpath | {bb})

    dfs(0, {}, None, None, frozenset())
    return sig


F_GLOBAL = [None]


def _machine(F, path):
    """The body that holds a decoder's state machine: `path` itself, or -- when `path` has become a thin wrapper around a
    new private method (which the inliner folded into it) -- that method's own body, in which `self` is still argument 1
    and the return place still _0 (what the path walks below look at)."""
    b = F.body(path)
    if b is None:
        return None
    for blk in b.blocks:
        callee = blk["t"].get("inlined") if isinstance(blk.get("t"), dict) else None
        cb = F.bodies.get(callee) if callee else None
        if cb is None:
            continue
        for cblk in cb.blocks:
            for st in cblk["s"]:
                if st[0] == "=" and len(st[1]) >= 3 and isinstance(st[1][-1], list) and st[1][-1][0] == "." and st[1][-1][2] == "next":
                    return cb
    return b


def rule_state(ctx, F):
    R = "C18.state"
    ctx.floor(R, 2)
    F_GLOBAL[0] = F
    padm = F.consts.get("utils::base64::PAD_MARKER", {}).get("value")
    eof = F.consts.get("utils::base64::EOF_MARKER", {}).get("value")
    a = _machine(F, "utils::base64::Decoder::<Builder>::push")
    c = _machine(F, "utils::base64::SymbolConverter::process_char")
    if not (ctx.anchor(R, "base64 Decoder::push", a) and ctx.anchor(R, "base64 SymbolConverter::process_char", c)
            and ctx.anchor(R, "base64 PAD_MARKER/EOF_MARKER", padm is not None and eof is not None)):
        return
    sa, sc = _state_signature(a, padm), _state_signature(c, padm)
    want = {(0, frozenset({(3, False)})), (eof, frozenset({(3, True)}))}
    for b, s, nm in ((a, sa, "Decoder::push"), (c, sc, "SymbolConverter::process_char")):
        ctx.ob(R, b, "group end: next=0 iff last symbol is data, next=EOF iff it is padding", s == want,
               "%s: after a complete group the decoder must return to state 0 only when the fourth symbol "
               "is data and enter the end-of-data state when it is '='; found transitions %s"
               % (nm, sorted((k, sorted(f)) for k, f in s)))
    # both reject input after the end-of-data state
    for b, nm in ((a, "Decoder::push"), (c, "SymbolConverter::process_char")):
        ok = False
        for rb, si, kind, term in return_assignments(b):
            if kind != "Err":
                continue
            for t, v in bool_facts(b, rb, F):
                if t[0] == "bin" and t[1] == "Eq" and v and const_value(t[3]) == eof:
                    lhs = deep_strip(t[2])
                    if lhs[0] == "field" and lhs[2] == "next":
                        ok = True
        ctx.ob(R, b, "input after end-of-data is rejected", ok,
               "%s must fail when called in the end-of-data state (next == EOF_MARKER)" % nm)


# ---------------------------------------------------------------------------
# the group buffer index stays inside the buffer whatever push returned
# ---------------------------------------------------------------------------

def _ub(t, cap=255):
    """upper bound of an octet expression built from masks, shifts and ors (everything is a u8 here)"""
    t = deep_strip(t)
    cv = const_value(t)
    if cv is not None:
        return cv
    if t[0] == "cast":
        return _ub(t[2], cap)
    if t[0] == "phi":
        return max(_ub(a, cap) for a in t[2])
    if t[0] == "bin":
        op = t[1].replace("Unchecked", "")
        a, c = _ub(t[2], cap), _ub(t[3], cap)
        if op == "BitAnd":
            return min(a, c)
        if op == "Shr" and const_value(deep_strip(t[3])) is not None:
            return a >> c
        if op == "Shl" and const_value(deep_strip(t[3])) is not None:
            return min(a << c, cap)
        if op == "BitOr" or op == "BitXor":
            return min((1 << max(a.bit_length(), c.bit_length())) - 1, cap)
        if op == "Add":
            return min(a + c, cap)
        if op in ("Rem",) and const_value(deep_strip(t[3])) is not None and c > 0:
            return c - 1
    return cap


def rule_enc(ctx, F):
    R = "C18.enc"
    ctx.floor(R, 20)
    n = 0
    for p, b in sorted(F.bodies.items()):
        if not re.match(r"^utils::base(16|32|64)::", p.lstrip("<")) or "::test" in p:
            continue
        for bi in sorted(b.reachable_blocks()):
            t = b.blocks[bi]["t"]
            if t["k"] != "assert" or t["msg"][0] != "bounds":
                continue
            ln = const_value(b.term_of_operand(t["msg"][1]))
            it = deep_strip(b.term_of_operand(t["msg"][2]))
            while it[0] == "cast":
                it = deep_strip(it[2])
            if ln is None or it[0] != "arg" or b.nargs != 1:
                continue
            # an indexing helper `fn ch(i: u8) -> char { ALPHABET[i as usize] }`: the obligation is on its callers
            for cb, cbb, ct in F.callers_of("^" + re.escape(p) + "$"):
                n += 1
                arg = cb.term_of_operand(ct["args"][0])
                ub = _ub(arg)
                per = "%s#%d" % (p.split("::")[-2], n)
                ctx.ob(R, cb, "alphabet index at call %s" % per, ub < ln,
                       "%s passes a value of up to %d to the helper that indexes a %d-entry alphabet (%s): some input "
                       "octets make the encoder panic" % (cb.path.split("::")[-1], ub, ln, show(deep_strip(arg))[:80]),
                       cb.where(cbb), detail="upper bound %d < %d" % (ub, ln))
    ctx.call_sites += n


def rule_idx(ctx, F):
    """The incremental decoders collect a group in `buf[self.next]` and reset
    `next` when the group is complete.  Both document that pushing more input
    after an error is fine.  So no exit of the function may leave
    `next == buf.len()`: every path from the "group complete" edge to a
    return (error returns included) must pass a store to `self.next`."""
    R = "C18.idx"
    ctx.floor(R, 2)
    n = 0
    for p, b in sorted(F.bodies.items()):
        if not re.match(r"^utils::base(16|32|64)::", p.lstrip("<")) or "::test" in p or b.kind != "AssocFn":
            continue
        # buffer writes indexed by self.next
        idx_sites = []
        for bi in sorted(b.reachable_blocks()):
            t = b.blocks[bi]["t"]
            if t["k"] == "assert" and t["msg"][0] == "bounds":
                it = deep_strip(b.term_of_operand(t["msg"][2]))
                ln = const_value(b.term_of_operand(t["msg"][1]))
                if it[0] == "field" and it[2] == "next" and deep_strip(it[1]) == ("arg", 1) and ln is not None:
                    idx_sites.append((bi, ln))
        if not idx_sites:
            continue
        N = idx_sites[0][1]
        stores = set()
        for bi in b.reachable_blocks():
            for st in b.blocks[bi]["s"]:
                if st[0] == "=" and len(st[1]) >= 3 and isinstance(st[1][-1], list) and st[1][-1][0] == "." \
                        and st[1][-1][2] == "next" and (st[1][0] == 1 or deep_strip(b.term_of_place(st[1][:-1]))[:2] == ("arg", 1)
                                                        or deep_strip(b.term_of_place(st[1]))[1:2] == (("arg", 1),)):
                    rv = deep_strip(b.term_of_rvalue(st[2]))
                    alts = rv[2] if rv[0] == "phi" else [rv]
                    if all(const_value(a) is not None and const_value(a) != N for a in alts):
                        stores.add(bi)     # reset to a constant (0 / done marker), possibly chosen by an if-expression
        full_edges = []
        bf = BranchFacts(b, F)
        for sw in sorted(b.reachable_blocks()):
            if b.blocks[sw]["t"]["k"] != "switch":
                continue
            for lab, (tt, vv) in bf.edge_facts(sw).items():
                s = deep_strip(tt)
                if s[0] == "bin" and s[1] == "Eq" and vv is True and const_value(s[3]) == N and \
                        any(x[0] == "field" and x[2] == "next" for x in walk(s[2])):
                    full_edges.append((sw, b.edge_target(sw, lab)))
        if not full_edges:
            continue
        rets = set(b.return_blocks())
        for sw, tgt in full_edges:
            n += 1
            reach = {tgt} if tgt in stores else b.reach_from(tgt, removed_blocks=stores)
            leak = sorted(r for r in rets if r in reach) if tgt not in stores else []
            ctx.ob(R, b, "group-complete path resets the buffer index on every exit", not leak,
                   "%s can return with self.next == %d (the length of buf): the documentation allows pushing more input "
                   "after an error, and the next push indexes buf[%d] out of bounds — a panic instead of an error"
                   % (p.split("::")[-2] + "::" + p.split("::")[-1], N, N), b.where(sw))
    ctx.call_sites += n


# ---------------------------------------------------------------------------
# C18.sticky: an error returned by Decoder::push stays
# ---------------------------------------------------------------------------

def rule_sticky(ctx, F):
    from rulelib import must_pass
    R = "C18.sticky"
    ctx.floor(R, 4)
    from rulelib import failed_calls
    work = []
    for mod in ("base16", "base32", "base64"):
        b = F.body("utils::%s::Decoder::<Builder>::push" % mod)
        if not ctx.anchor(R, "utils::%s::Decoder::push" % mod, b):
            continue
        work.append((mod, b))
    done = set()
    while work:
        mod, b = work.pop(0)
        if b.path in done:
            continue
        done.add(b.path)
        # blocks that record an error in self.target
        rec = set()
        b.defs()
        for n, lst in b.partial_defs.items():
            for d in lst:
                if d[0] == "stmt" and not b.blocks[d[1]].get("c"):
                    st = d[3]
                    last = st[1][-1]
                    if isinstance(last, list) and last[0] == "." and last[2] == "target":
                        tmv = deep_strip(b.term_of_rvalue(st[2]))
                        if tmv[0] == "agg" and "core::result::Result" in str(tmv[1]) and "Err" in str(tmv[1]):
                            rec.add(d[1])
        # helper calls that record the error themselves (append in base16/base32)
        for bb, tt in b.calls():
            cb = F.bodies.get(tt.get("res") or tt["fn"] or "")
            if cb is not None and cb is not b and re.search(r"utils::%s::Decoder::<Builder>::" % mod, cb.path):
                pass
        rets = b.return_blocks()
        k = 0
        ok_edges = None
        # locals whose value is returned as it is: _0, and `res` in `let res = ..; ..; res` (also the return place of a
        # helper that was inlined)
        ret_locals = {0}
        grew = True
        while grew:
            grew = False
            for bi in b.reachable_blocks():
                for st in b.blocks[bi]["s"]:
                    if st[0] == "=" and len(st[1]) == 1 and st[1][0] in ret_locals and st[2][0] == "use" \
                            and st[2][1][0] in ("c", "m") and len(st[2][1][1]) == 1 and st[2][1][1][0] not in ret_locals \
                            and "Result<" in b.locals[st[2][1][1][0]]:
                        ret_locals.add(st[2][1][1][0])
                        grew = True
        for bi in sorted(b.reachable_blocks()):
            if b.blocks[bi].get("c"):
                continue
            sites = []
            for st in b.blocks[bi]["s"]:
                if st[0] == "=" and len(st[1]) == 1 and st[1][0] in ret_locals and st[2][0] == "agg" and st[2][1][0] == "adt" \
                        and st[2][1][1] == "core::result::Result" and st[2][1][2] == "Err":
                    sites.append(("lit", st))
            tm = b.blocks[bi]["t"]
            if tm["k"] == "call" and tm.get("dest") and len(tm["dest"]) == 1 and tm["dest"][0] in ret_locals \
                    and (tm["fn"] or "").endswith("FromResidual::from_residual"):
                sites.append(("residual", tm))
            # the result of another Decoder method handed on as it is (`self.push_char(ch)` as tail expression, or
            # `let res = self.push_char(ch); ..; res`): its errors are this function's errors
            if tm["k"] == "call" and re.search(r"utils::%s::Decoder::<Builder>::\w+$" % mod, tm["fn"] or "") and tm.get("dest") \
                    and len(tm["dest"]) == 1 and "Result<" in b.locals[tm["dest"][0]]:
                d0 = tm["dest"][0]
                returned = d0 == 0 or any(
                    st2[0] == "=" and st2[1] == [0] and st2[2][0] == "use" and st2[2][1][0] in ("c", "m") and st2[2][1][1] == [d0]
                    for bi2 in b.reachable_blocks() for st2 in b.blocks[bi2]["s"])
                if returned:
                    k += 1
                    recorded_here = any(bi in failed_calls(b, a, F) for a in rec)
                    callee = F.bodies.get(tm.get("res") or tm["fn"])
                    if not recorded_here and callee is not None:
                        work.append((mod, callee))     # then the callee has to record every error it returns
                    ctx.ob(R, b, "errors of %s are recorded (here or there) #%d" % ((tm["fn"] or "").split("::")[-1], k),
                           recorded_here or callee is not None,
                           "%s::Decoder::%s hands on the result of %s without recording its error" % (mod, b.path.split("::")[-1], tm["fn"]),
                           b.where(bi), detail="recorded on the Err edge here" if recorded_here else "checked in the callee")
            for kind, s in sites:
                k += 1
                # the value just produced is an Err: where the function later looks at the returned local's variant
                # (`if let Err(err) = res`), only the Err edge is taken
                if ok_edges is None:
                    ok_edges = set()
                    bf_ = BranchFacts(b, F)
                    for sw in b.reachable_blocks():
                        if b.blocks[sw]["t"]["k"] != "switch":
                            continue
                        # `_d = discriminant(res); switchInt(_d)` in one block, res a returned Result local (Ok = 0, Err = 1)
                        tsw = b.blocks[sw]["t"]
                        for st_ in b.blocks[sw]["s"]:
                            if st_[0] == "=" and st_[2][0] == "discr" and len(st_[2][1]) == 1 and st_[2][1][0] in ret_locals \
                                    and tsw["d"][0] in ("c", "m") and tsw["d"][1] == st_[1] and "Result<" in str(st_[2][2]):
                                for s_, lab in b.succs(sw):
                                    if lab != ("v", 1):
                                        ok_edges.add((sw, lab))
                        for lab, (tt_, vv_) in bf_.edge_facts(sw).items():
                            if isinstance(vv_, tuple) and vv_[0] == "variant" and vv_[1] == "Ok":
                                root = deep_strip(tt_)
                                if root[0] in ("local", "phi") and root[1] in ret_locals:
                                    ok_edges.add((sw, lab))
                ok = any(b.dominates(a, bi) for a in rec) or (rec and all(must_pass(b, bi, [r], rec, removed_edges=ok_edges)[0]
                                                                          for r in rets if r in b.reach_from(bi)))
                if not ok and kind == "lit":
                    # `match self.target { Err(err) => Err(err) }`: the error *is* the recorded one
                    payload = deep_strip(b.term_of_operand(s[2][2][0])) if s[2][2] else None
                    if payload is not None and "target" in show(payload):
                        ok = True
                ctx.ob(R, b, "error return #%d is recorded in self.target" % k, bool(ok),
                       "%s::Decoder::push (or the helper that does its work) returns an error without recording it in self.target (its base16/base32 siblings "
                       "do): later pushes succeed and finalize() returns Ok -- `Zm9v!YmFy` pushed character by character decodes "
                       "to `foobar`, a failed append to a full buffer leaves a shorter result" % mod, b.where(bi))
        ctx.ob(R, b, "%s::Decoder::%s has error returns" % (mod, b.path.split("::")[-1]), k >= 1, "no error return found in push", nontrivial=False)
        # the helper that writes a decoded octet records a failed append (ShortBuf of a bounded target)
        for ab in [x for pth, x in F.bodies.items() if re.match(r"^utils::%s::Decoder::<Builder>::(append|push|push_char)$" % mod, pth)]:
            for bb, tt in ab.calls():
                if not re.search(r"OctetsBuilder::append_slice$", tt["fn"] or ""):
                    continue
                # the call's result must be looked at: propagated with `?` / returned, or its Err arm stores into self.target
                dest = tt.get("dest")
                read = False
                if dest and len(dest) == 1:
                    d0 = dest[0]
                    for bi2 in ab.reachable_blocks():
                        blk = ab.blocks[bi2]
                        for st2 in blk["s"]:
                            if st2[0] == "=" and st2[2][0] == "discr" and st2[2][1] and st2[2][1][0] == d0:
                                read = True
                            if st2[0] == "=" and st2[2][0] == "use" and st2[2][1][0] in ("c", "m") and st2[2][1][1][0] == d0:
                                read = True
                        t2 = blk["t"]
                        if t2["k"] == "call" and any(a[0] in ("c", "m") and a[1][0] == d0 for a in t2["args"]):
                            read = True
                ctx.ob(R, ab, "the outcome of append_slice is not discarded", read,
                       "%s::Decoder::%s throws the result of append_slice away: when a bounded target is full the octet is "
                       "dropped, no error is recorded, and finalize() returns a shorter value as if it were the whole"
                       % (mod, ab.path.split("::")[-1]), ab.where(bb))


# ---------------------------------------------------------------------------
# C18.bits: bit layout of the assembled octets
# ---------------------------------------------------------------------------

def _layout(g, n_octets):
    out = []
    for k in range(n_octets):
        lo, hi = 8 * k, 8 * k + 8
        s = set()
        i = 0
        while g * i < hi:
            a, e = g * i, g * i + g
            if e > lo:
                s.add((i, "l", hi - e) if e <= hi else (i, "r", e - hi))
            i += 1
        out.append(frozenset(s))
    return out


def _or_leaves(tm):
    tm = deep_strip(tm)
    if tm[0] == "bin" and tm[1] == "BitOr":
        a, b = _or_leaves(tm[2]), _or_leaves(tm[3])
        return None if a is None or b is None else a | b
    if tm[0] == "bin" and tm[1].replace("Unchecked", "") in ("Shl", "Shr"):
        base = deep_strip(tm[2])
        amt = const_value(deep_strip(tm[3]))
        if base[0] == "idx" and const_value(base[2]) is not None and amt is not None:
            return {(const_value(base[2]), "l" if "Shl" in tm[1] else "r", amt)}
        return None
    if tm[0] == "idx" and const_value(tm[2]) is not None:
        return {(const_value(tm[2]), "l", 0)}
    return None


def rule_bits(ctx, F):
    R = "C18.bits"
    ctx.floor(R, 20)
    n = 0
    for p, b in sorted(F.bodies.items()):
        m = re.match(r"^<?utils::base(32|64)::", p)
        if not m or "::test" in p or re.search(r"encode|display|Display|Encoder|fmt", p):
            continue
        want = _layout(5, 5) if m.group(1) == "32" else _layout(6, 3)
        ors = []
        used = set()
        for bi in b.reachable_blocks():
            if b.blocks[bi].get("c"):
                continue
            for st in b.blocks[bi]["s"]:
                if st[0] == "=" and st[2][0] == "bin" and st[2][1] == "BitOr":
                    ors.append((bi, st))
                    for op in st[2][2:4]:
                        if op[0] in ("c", "m") and len(op[1]) == 1:
                            used.add(op[1][0])
        for bi, st in ors:
            if len(st[1]) == 1 and st[1][0] in used:
                continue                # operand of a larger OR
            leaves = _or_leaves(b.term_of_rvalue(st[2]))
            if leaves is None:
                continue                # not an octet assembled from buffer elements
            n += 1
            ks = [k for k, w in enumerate(want) if w == frozenset(leaves)]
            ctx.ob(R, b, "assembled octet #%d (symbols %s) matches the RFC 4648 bit layout" % (n, sorted({i for i, _, _ in leaves})), bool(ks),
                   "%s assembles an octet from %s; no octet of a %s-bit-per-symbol group is laid out like that (expected one of "
                   "%s): the decoded octets are wrong for some inputs"
                   % (p.split("::")[-1], sorted(leaves), "5" if m.group(1) == "32" else "6", [sorted(w) for w in want]), b.where(bi))
    ctx.call_sites += n


# ---------------------------------------------------------------------------
# C18.split: process_tail exactly at the end
# ---------------------------------------------------------------------------

def rule_tailcall(ctx, F):
    from rulelib import cyclic_blocks, must_pass
    R = "C18.split"
    ctx.floor(R, 2)
    k = 0
    for p, b in sorted(F.bodies.items()):
        if "::test" in p or not re.search(r"::convert_(entry|token)(::<.*>)?$", p):
            continue
        tails = [bb for bb, tt in b.calls() if re.search(r"ConvertSymbols(<.*>)?::process_tail$|::process_tail$", tt["fn"] or "")]
        if not tails:
            continue
        k += 1
        cyc = cyclic_blocks(b)
        ctx.ob(R, b, "process_tail is called after the loop, not inside it", not any(tb in cyc for tb in tails),
               "%s finishes the converter inside its loop over tokens / symbols: data split over several tokens is decoded "
               "token by token, and a split that is not at a group boundary is refused (or decoded differently)" % p.split("::")[-1],
               b.where(tails[0]))
        oks = [r[0] for r in return_assignments(b) if r[2] == "Ok" or str(r[2]).startswith("call:") and "from_builder" in str(r[2])]
        oks = oks or [r[0] for r in return_assignments(b) if "Err" not in str(r[2]) and "from_residual" not in str(r[2])]
        ok = bool(oks) and all(must_pass(b, 0, [o], tails)[0] for o in oks)
        ctx.ob(R, b, "every successful return passes process_tail", ok,
               "%s can return successfully without giving the converter its end-of-data call: a trailing partial group is "
               "dropped silently" % p.split("::")[-1], b.where())
    ctx.ob(R, "convert_entry / convert_token", "implementations found", k >= 2, "only %d scanner conversion function(s) call process_tail" % k,
           nontrivial=False)


# ---------------------------------------------------------------------------
# C18.symok: Symbols stops silently at a bad escape; its users must ask
# ---------------------------------------------------------------------------

def rule_symok(ctx, F):
    from rulelib import must_pass
    R = "C18.symok"
    ctx.floor(R, 8)
    n = 0
    for p, b in sorted(F.bodies.items()):
        if "::test" in p or p.startswith("new::") or p.startswith("<new::"):
            continue
        news = [(bb, tt) for bb, tt in b.calls() if re.search(r"base::scan::Symbols::<.*>::new$", tt["fn"] or "")]
        if not news:
            continue
        oks = [bb for bb, tt in b.calls() if re.search(r"base::scan::Symbols::<.*>::ok$", tt["fn"] or "")]
        good = [r[0] for r in return_assignments(b) if r[2] == "Ok" or (str(r[2]).startswith("call:") and "from_residual" not in str(r[2]))]
        if not good:
            good = [rb for rb in b.return_blocks()]
        for bb, tt in news:
            n += 1
            ok = bool(oks) and all(must_pass(b, bb, [g], oks)[0] for g in good if g in b.reach_from(bb))
            ctx.ob(R, b, "Symbols#%d is asked ok() before a successful return" % n, ok,
                   "%s walks a Symbols iterator and returns successfully without asking it ok(): the iterator ends at a malformed "
                   "escape sequence, so `Zm9v\\9YmFy` yields the data in front of the bad escape (`foo`) and drops the rest -- the "
                   "zone-file scanner rejects the same text" % p.split("::")[-1], b.where(bb))
    ctx.call_sites += n


def rule_eofguard(ctx, F):
    """The Base64 decoders mark 'padding seen, nothing may follow' by setting `next` to a value far beyond the group buffer
    (0xF0).  Every store `buf[self.next] = ..` must therefore be behind the test for that marker -- in every arm, the padding
    arm included: a surplus `=` must be an error, not an index out of bounds."""
    R = "C18.state"
    eof = F.consts.get("utils::base64::EOF_MARKER", {}).get("value")
    if eof is None:
        return
    for path in ("utils::base64::Decoder::<Builder>::push", "utils::base64::SymbolConverter::process_char"):
        b = _machine(F, path)
        if not ctx.anchor(R, path.split("::")[-2] + "::" + path.split("::")[-1], b):
            continue
        k = 0
        for bi in sorted(b.reachable_blocks()):
            tm = b.blocks[bi]["t"]
            if tm["k"] != "assert" or not tm.get("msg") or tm["msg"][0] != "bounds":
                continue
            it = deep_strip(b.term_of_operand(tm["msg"][2]))
            if not (it[0] == "field" and it[2] == "next"):
                continue
            k += 1
            ok = False
            for tt, vv in bool_facts(b, bi, F):
                tt = deep_strip(tt)
                if tt[0] == "bin" and tt[1] in ("Eq", "Ne") and const_value(deep_strip(tt[3])) == eof:
                    lhs = deep_strip(tt[2])
                    if lhs[0] == "field" and lhs[2] == "next" and ((tt[1] == "Eq" and vv is False) or (tt[1] == "Ne" and vv is True)):
                        ok = True
            ctx.ob(R, b, "buffer store #%d indexed by `next` is behind the end-of-data test" % k, ok,
                   "%s stores a symbol at buf[self.next] on a path on which `next` may be the end-of-data marker (0x%X): one "
                   "surplus `=` after a complete padded group indexes the 4-octet buffer at 240 -- a panic instead of "
                   "'trailing data'" % (path.split("::")[-2] + "::" + path.split("::")[-1], eof), b.where(bi))


# ---------------------------------------------------------------------------
# C18.encbits: bit layout of the symbols the encoders write
# ---------------------------------------------------------------------------

def _bitvec(t, depth=0):
    """value of an octet expression as 8 symbolic bits (LSB first): each bit is None (zero) or (source octet index,
    source bit); None for the whole if the shape is unknown or two sources meet in one bit"""
    t = deep_strip(t)
    if depth > 20:
        return None
    cv = const_value(t)
    if cv is not None and isinstance(cv, int):
        return ("const", cv)
    if t[0] == "idx":
        i = const_value(deep_strip(t[2]))
        if i is None:
            return None
        return [(i, bit) for bit in range(8)]
    if t[0] == "cast":
        return _bitvec(t[2], depth + 1)
    if t[0] == "bin":
        op = t[1].replace("Unchecked", "")
        a, c = _bitvec(t[2], depth + 1), _bitvec(t[3], depth + 1)
        if a is None or c is None:
            return None
        if op == "BitAnd":
            if isinstance(a, tuple) and isinstance(c, list):
                a, c = c, a
            if isinstance(a, list) and isinstance(c, tuple):
                return [a[j] if (c[1] >> j) & 1 else None for j in range(8)]
            return None
        if op in ("Shl", "Shr") and isinstance(a, list) and isinstance(c, tuple):
            k = c[1]
            if op == "Shl":
                return ([None] * k + a)[:8]
            return (a[k:] + [None] * k)[:8]
        if op == "BitOr" and isinstance(a, list) and isinstance(c, list):
            out = []
            for x, y in zip(a, c):
                if x is not None and y is not None:
                    return None
                out.append(x if x is not None else y)
            return out
    return None


def rule_encbits(ctx, F):
    """RFC 4648: symbol k of a group is bits [g*k, g*k+g) of the group's octets taken MSB first (g = 5 or 6), zero
    filled behind the last octet of a tail.  Every value the Base 32 / Base 64 encoders hand to their alphabet
    helper is evaluated to symbolic bits and has to be exactly that, for some k and some number of octets present."""
    R = "C18.encbits"
    ctx.floor(R, 20)
    n = 0
    for p, b in sorted(F.bodies.items()):
        m = re.match(r"^<?utils::base(32|64)::", p)
        if not m or "::test" in p:
            continue
        g, per = (5, 5) if m.group(1) == "32" else (6, 3)
        for bb, t in b.calls():
            if not re.search(r"::ch$", t["fn"] or "") or not t["args"]:
                continue
            tm = b.term_of_operand(t["args"][0])
            if not any(s_[0] == "idx" for s_ in walk(deep_strip(tm))):
                continue
            n += 1
            bv = _bitvec(tm)
            ok, which = False, None
            if isinstance(bv, list) and all(x is None for x in bv[g:]):
                for k in range((per * 8 + g - 1) // g):
                    for L in range(1, per + 1):
                        exp = []
                        for j in range(g):
                            q = g * k + (g - 1 - j)
                            i, bit = q // 8, 7 - q % 8
                            exp.append((i, bit) if i < L else None)
                        if exp == bv[:g] and any(x is not None for x in exp):
                            ok, which = True, (k, L)
            ctx.ob(R, b, "symbol#%d carries the bits RFC 4648 assigns to it" % n, ok,
                   "base%s encoder (%s) writes a symbol computed as %s, whose bits %s are not those of any symbol position of "
                   "a %d-octet group: some inputs encode to the text of a different input (decode(encode(x)) != x)"
                   % (m.group(1), p.split("::")[-1], show(deep_strip(tm))[:110],
                      "cannot be determined" if not isinstance(bv, list) else [x for x in bv[:g]], per),
                   b.where(bb), detail=("symbol %d of a group with %d octet(s)" % which) if which else None)
    ctx.call_sites += n


def rule_tabidx(ctx, F):
    """A decoder looks a character up in a 128-entry table: every such index (`TABLE[ch as usize]`) is behind a test that
    puts the character below the table's size -- `ch > 127` refused, `(ch as usize) < TABLE.len()` and the like.  An
    off-by-one (`> len`) lets exactly U+0080 through, and the lookup panics."""
    from rulelib import relations, canon_nobb
    R = "C18.tabidx"
    ctx.floor(R, 4)
    n = 0
    for p, b in sorted(F.bodies.items()):
        if not re.match(r"^<?utils::base(16|32|64)::", p) or "::test" in p:
            continue
        for bi in sorted(b.reachable_blocks()):
            t = b.blocks[bi]["t"]
            if t["k"] != "assert" or t["msg"][0] != "bounds":
                continue
            ln = const_value(b.term_of_operand(t["msg"][1]))
            it = deep_strip(b.term_of_operand(t["msg"][2]))
            if ln != 128 or it[0] != "cast":
                continue
            inner = deep_strip(it[2])
            n += 1
            ub = None
            for x, rel, y in relations(b, bi, F):
                x, y = deep_strip(x), deep_strip(y)
                for subj in (it, inner):
                    k = None
                    if canon_nobb(x) == canon_nobb(subj):
                        k = const_value(y)
                        if k is not None and rel in ("<", "<="):
                            v = k - 1 if rel == "<" else k
                            ub = v if ub is None else min(ub, v)
                    yy = y
                    while yy[0] == "cast":
                        yy = deep_strip(yy[2])
                    if canon_nobb(yy) == canon_nobb(subj) and const_value(x) is not None and rel in (">", ">="):
                        v = const_value(x) - 1 if rel == ">" else const_value(x)
                        ub = v if ub is None else min(ub, v)
            ctx.ob(R, b, "alphabet lookup#%d is behind `character < 128`" % n, ub is not None and ub < ln,
                   "%s indexes a %d-entry table with a character that the tests in front of it only bound by %s: the character "
                   "U+%04X is let through and the lookup panics (the sibling decoder refuses it with IllegalChar)"
                   % (p.split("utils::")[-1], ln, ub, ln), b.where(bi))
    ctx.call_sites += n


def rule_eot(ctx, F):
    """The result of decoding does not depend on how the text is cut into tokens: when a converter is told that a token
    has ended (EntrySymbol::EndOfToken) it changes nothing of what it has collected so far -- no store into the
    converter's fields on that arm, in any of the three SymbolConverters (a digit or symbol group may straddle tokens)."""
    from rulelib import outcome_facts
    R = "C18.eot"
    ctx.floor(R, 3)
    n = 0
    for p, b in sorted(F.bodies.items()):
        if not re.match(r"^<utils::base(16|32|64)::SymbolConverter as base::scan::ConvertSymbols<.*>>::process_symbol$", p):
            continue
        n += 1
        bad = []
        seen_arm = False
        for bi in sorted(b.reachable_blocks()):
            if b.blocks[bi].get("c"):
                continue
            on_eot = any(isinstance(o, tuple) and o[0] == "variant" and o[1] == "EndOfToken" for tm, o in outcome_facts(b, bi, F))
            if not on_eot:
                continue
            seen_arm = True
            for st in b.blocks[bi]["s"]:
                if st[0] == "=" and len(st[1]) > 1 and st[1][0] == 1 and "*" in st[1]:
                    bad.append(bi)
            t = b.blocks[bi]["t"]
            if t["k"] == "call" and t["args"] and deep_strip(b.term_of_operand(t["args"][0])) in (("arg", 1), ("deref", ("arg", 1))) \
                    and re.search(r"SymbolConverter::\w+$", t["fn"] or ""):
                bad.append(bi)
        ctx.ob(R, b, "%s: the end of a token leaves the converter's state alone" % p.split("utils::")[1].split("::")[0], seen_arm and not bad,
               "%s changes the converter's state when a token ends: what was collected from the end of one token is forgotten, so "
               "`ABC DEF` decodes differently from `ABCDEF` (and malformed input of odd length is accepted)"
               % p.split("utils::")[1].split(" as ")[0], b.where(bad[0]) if bad else b.where())
    ctx.ob(R, "utils::base*::SymbolConverter", "process_symbol impls found", n >= 3, "found %d" % n, nontrivial=False)
