"""C19 — new codec vs established codec (partial, structural clauses).

C19.class  the new decompressors classify the head octet like the
           established one: 0x00 root, 0x01..0x3F label, 0xC0..0xFF pointer
           (all 256 octets enumerated); pointers are masked with 0x3FFF.
C19.len    the label-length guard of both new parse_segment siblings admits
           exactly names of up to 255 octets (same limit as the established
           ParsedName::parse_ref: accumulated length before the root <= 254).
C19.ptr    every pointer followed by the new message parsers passed a strict
           backward check against the previous start, re-evaluated on each
           iteration, after removing the 12-octet header.
C19.cmp    the new compressor only remembers names all of whose suffix
           offsets (+12) fit a 14-bit pointer; the last-use stamp orders a
           parent after its children (contents.len() + remaining name length).
C19.sig    cross-codec wire layout of header, question and record header.
"""
import re

from mirlib import BranchFacts, strip, deep_strip, show, walk, const_value
from rulelib import (
    bool_facts, canon_nobb, facts_at, fmt_path, on_every_cycle, relations, relation_edges, return_assignments,
    succeeded_calls, leaf_def_blocks, outcome_facts,
)
import c03

NB = "new::base::name::"


def run(ctx):
    F = ctx.facts
    ctx.extra["explanation"] = (
        "C19: octet classification and pointer mask of the new decompressors, exact name-length limit in both "
        "parse_segment siblings (agreeing with the established codec), strict fresh backward guards in the new "
        "message parsers, 14-bit bound (header included) and eviction-stamp formula of the new compressor, wire "
        "layout agreement of header/question/record header. Differential acceptance on all byte strings is not decided."
    )
    rule_class_len(ctx, F)
    rule_ptr(ctx, F)
    rule_cmp(ctx, F)
    rule_sig(ctx, F)
    rule_order(ctx, F)
    rule_lookup(ctx, F)
    rule_bound(ctx, F)
    rule_whole(ctx, F)
    rule_rev(ctx, F)
    rule_cmpr(ctx, F)
    rule_prefix(ctx, F)
    rule_rollback(ctx, F)
    rule_trunc(ctx, F)
    rule_lsuffix(ctx, F)
    rule_dispatch(ctx, F)
    rule_flags(ctx, F)
    rule_hdr12(ctx, F)
    rule_rdend(ctx, F)
    rule_room(ctx, F)


SEGS = [("new::base::name::absolute::parse_segment", "size", +1), ("new::base::name::reversed::parse_segment", "offset", -1)]


def rule_class_len(ctx, F):
    R = "C19.class"
    RL = "C19.len"
    ctx.floor(R, 6)
    ctx.floor(RL, 3)
    consts = []
    for path, fld, sign in SEGS:
        b = F.body(path)
        if not ctx.anchor(R, path, b):
            continue

        def subj(tt):
            tt = deep_strip(tt)
            while tt[0] == "cast":
                tt = deep_strip(tt[2])
            return tt[0] == "idx" and const_value(tt[2]) == 0 and deep_strip(tt[1])[0] in ("phi", "arg")
        out = c03.octet_outcomes(b, F, subj)
        ptr = set()
        root = set()
        for k, s in out.items():
            if len(s) == 256:
                continue
            if "Some" in k:
                ptr |= s
        # classification by which return the octet can reach
        parts = c03.byte_partition(b, F, subj)
        label = set()
        err_only = set(range(256))
        rets = {rb: (kind, term) for rb, si, kind, term in return_assignments(b)}
        for octs, leaf, pth in parts:
            blocks = list(pth) + [leaf]
            hit = [x for x in blocks if x in rets]
            calls = [b.blocks[x]["t"].get("fn") or "" for x in blocks if b.blocks[x]["t"]["k"] == "call"]
            appended = any(c.endswith("NameBuf::append_bytes") or c.endswith("RevNameBuf::prepend_bytes") for c in calls)
            if hit and rets[hit[-1]][0] == "Ok":
                err_only -= octs
                term = rets[hit[-1]][1]
                some = term is not None and any(s[0] == "agg" and s[1][:3] == ("adt", "core::option::Option", "Some") for s in walk(term))
                if some:
                    ptr |= octs
                else:
                    root |= octs
            elif appended and len(octs) < 256:
                label |= octs
                err_only -= octs
        ctx.ob(R, b, "root label head == 0x00", root - label - ptr == {0} or (0 in root and len(root - ptr - label) <= 1),
               "%s: octets ending a name: %s" % (path.split("::")[-2], c03._ranges(root - ptr)))
        ctx.ob(R, b, "label heads == 0x01..0x3F", label - {0} == set(range(1, 64)),
               "%s treats head octets %s as ordinary labels" % (path.split("::")[-2], c03._ranges(label - {0})))
        ctx.ob(R, b, "pointer heads == 0xC0..0xFF", ptr == set(range(0xC0, 0x100)),
               "%s treats head octets %s as compression pointers" % (path.split("::")[-2], c03._ranges(ptr)))
        # mask
        masks = [const_value(b.term_of_operand(st[2][3])) for blk in b.blocks for st in blk["s"]
                 if st[0] == "=" and st[2][0] == "bin" and st[2][1] == "BitAnd"]
        ctx.ob(R, b, "pointer masked with 0x3FFF", 0x3FFF in masks, "pointer offset mask(s): %s" % masks)
        # ---- length guard: the label append is dominated by a fact equivalent to size + l + 2 <= 255
        app = [bb for bb, t in b.calls() if (t["fn"] or "").endswith("append_bytes") or (t["fn"] or "").endswith("prepend_bytes")]
        best = None
        for bb in app:
            arg = deep_strip(b.term_of_operand(b.blocks[bb]["t"]["args"][1]))
            if arg[0] == "agg":
                continue  # the root label
            for (x, rel, y) in relations(b, bb, F):
                lx, ly = _lin(x, fld), _lin(y, fld)
                if lx is None or ly is None:
                    continue
                e = dict(lx)
                for s, v in ly.items():
                    e[s] = e.get(s, 0) - v
                if rel == "<":
                    e[1] = e.get(1, 0) + 1
                if e.get("l") and e.get("f"):
                    best = e
        # normal form  l*1 + f*sign + c <= 0 ; with f=size: c must be -253 ; with f=offset (=255-size): c must be 2
        want = {"l": 1, "f": sign, 1: (-253 if sign > 0 else 2)}
        got = {k: v for k, v in (best or {}).items() if v != 0 or k == 1}
        ctx.ob(RL, b, "label accepted iff name length stays <= 254 before the root", got == want,
               "%s: a label of l octets is appended when %s; required %s (total name of at most 255 octets, "
               "exactly the established codec's limit)" % (path.split("::")[-2], _fmt(got), _fmt(want)))
        consts.append(got.get(1))
    # established codec limit for comparison (C03.cap): accumulated <= 254
    pb = F.body("base::name::parsed::ParsedName::<&'a Octs>::parse_ref")
    if pb is not None:
        caps = c03._caps(pb, F)
        ctx.ob(RL, pb, "established codec accepts the same maximum (254 before the root)",
               bool(caps) and all(mx == 254 for _, mx in caps.values()), "established caps: %s" % sorted(mx for _, mx in caps.values()))


def _lin(t, fld):
    t = deep_strip(t)
    cv = const_value(t)
    if cv is not None:
        return {1: cv}
    if t[0] == "cast":
        return _lin(t[2], fld)
    if t[0] == "bin" and t[1] in ("Add", "Sub"):
        a, c = _lin(t[2], fld), _lin(t[3], fld)
        if a is None or c is None:
            return None
        out = dict(a)
        for s, v in c.items():
            out[s] = out.get(s, 0) + (v if t[1] == "Add" else -v)
        return out
    if t[0] == "field" and t[2] == fld:
        return {"f": 1}
    if t[0] == "idx" and const_value(t[2]) == 0:
        return {"l": 1}
    return None


def _fmt(e):
    if not e:
        return "no guard found"
    return " + ".join("%s%s" % (v, "" if k == 1 else "*" + {"l": "l", "f": "field"}.get(k, str(k))) for k, v in sorted(e.items(), key=lambda x: str(x[0]))) + " <= 0"


PARSERS = [
    r"^<new::base::name::absolute::NameBuf as new::base::parse::SplitMessageBytes<'a>>::split_message_bytes$",
    r"^<new::base::name::absolute::NameBuf as new::base::parse::ParseMessageBytes<'a>>::parse_message_bytes$",
    r"^<new::base::name::reversed::RevNameBuf as new::base::parse::SplitMessageBytes<'a>>::split_message_bytes$",
    r"^<new::base::name::reversed::RevNameBuf as new::base::parse::ParseMessageBytes<'a>>::parse_message_bytes$",
]


def rule_ptr(ctx, F):
    R = "C19.ptr"
    ctx.floor(R, 8)
    for rx in PARSERS:
        b = F.one_body(rx)
        nm = rx.split("::")[-1].rstrip("$") + " for " + ("RevNameBuf" if "Rev" in rx else "NameBuf")
        if not ctx.anchor(R, nm, b):
            continue
        # pointer-follow sites: contents.get(start..) inside the loop
        gets = [(bb, t) for bb, t in b.calls() if re.search(r"<impl \[u8\]>::get$|slice::<impl \[T\]>::get$", t["fn"] or "")]
        cyc = set()
        for bb, t in gets:
            if any(s == bb or bb in b.reach_from(s) for s, _ in b.succs(bb)) and bb in b.reach_from(b.succs(bb)[0][0] if b.succs(bb) else bb):
                pass
        from rulelib import cyclic_blocks
        cyc = cyclic_blocks(b)
        loop_gets = [(bb, t) for bb, t in gets if bb in cyc]
        if not ctx.anchor(R, nm + ": pointer follow inside the loop", len(loop_gets) == 1, b.where()):
            continue
        bb, t = loop_gets[0]
        rng = deep_strip(b.term_of_operand(t["args"][1]))
        start = deep_strip(rng[2][0]) if rng[0] == "agg" else rng
        # start = checked_sub(ptr, 12)
        sub12 = any(s[0] == "call" and (s[1] or "").endswith("checked_sub") and const_value(s[3][1]) == 12 for s in walk(start))
        ctx.ob(R, b, "%s: header offset removed" % nm, sub12,
               "the pointer (an offset from the start of the message) must be reduced by the 12-octet header before "
               "indexing the contents", b.where(bb))
        strict = None
        for (x, rel, y, e) in relation_edges(b, bb, F):
            if canon_nobb(x) == canon_nobb(start) and deep_strip(y)[0] == "phi":
                strict = (rel, e, deep_strip(y)[1])
        ctx.ob(R, b, "%s: strictly before the previous start" % nm, strict is not None and strict[0] == "<",
               "a compression pointer is followed without having been checked to point strictly before the position "
               "it was read from (found %s)" % (strict[0] if strict else "no guard"), b.where(bb))
        if strict is not None:
            fresh = on_every_cycle(b, bb, strict[1][0])
            # old_start is updated in the loop
            upd = False
            for bi in cyc:
                for st in b.blocks[bi]["s"]:
                    if st[0] == "=" and len(st[1]) == 1 and st[1][0] == strict[2]:
                        upd = True   # the bound the pointer is compared with is reassigned inside the loop
            ctx.ob(R, b, "%s: guard re-evaluated against an updated bound" % nm, fresh and upd,
                   "the backward check is not re-evaluated per followed pointer, or old_start is never advanced", b.where(bb))


def rule_cmp(ctx, F):
    R = "C19.cmp"
    ctx.floor(R, 4)
    for fn in ("compress_name", "compress_revname"):
        b = F.one_body(r"^new::base::name::compressor::NameCompressor::%s$" % fn)
        if not ctx.anchor(R, "NameCompressor::%s" % fn, b):
            continue
        # store sites into self.pos[..]
        stores = []
        stamps = []
        for bi in b.reachable_blocks():
            for st in b.blocks[bi]["s"]:
                if st[0] == "=" and len(st[1]) > 2:
                    names = [pr[2] for pr in st[1][1:] if isinstance(pr, list) and pr[0] == "."]
                    if names[:1] == ["pos"]:
                        stores.append((bi, st))
                    if names[:1] == ["last_use"]:
                        stamps.append((bi, st))
                elif st[0] == "=" and len(st[1]) == 2 and st[1][1] == "*":
                    # store through a `&mut self.last_use[i]` reference
                    tp = deep_strip(b.term_of_place(st[1]))
                    if tp[0] == "idx" and deep_strip(tp[1])[0] == "field" and deep_strip(tp[1])[2] == "last_use":
                        stamps.append((bi, st))
        if not ctx.anchor(R, "%s: store into self.pos[..]" % fn, len(stores) == 1, b.where()):
            continue
        bi, st = stores[0]
        # facts: a*len(contents) + b*len(name) + c <= K
        best = None
        for (x, rel, y) in relations(b, bi, F):
            lx, ly = _lin2(b, x), _lin2(b, y)
            if lx is None or ly is None:
                continue
            e = dict(lx)
            for s, v in ly.items():
                e[s] = e.get(s, 0) - v
            if rel == "<":
                e[1] = e.get(1, 0) + 1
            if e.get("C", 0) == 1:
                # C + (N?) + c <= 0
                if e.get("N", 0) == 1:
                    maxoff = -e.get(1, 0) - 1          # C + N <= -c  => last offset C+N-1
                elif e.get("N", 0) == 0:
                    maxoff = -e.get(1, 0) + 252        # C <= -c ; entry up to 253 octets
                else:
                    continue
                best = maxoff if best is None else min(best, maxoff)
        ctx.ob(R, b, "%s: every offset inside a remembered name (+12) fits 14 bits" % fn, best is not None and best + 12 <= 0x3FFF,
               "NameCompressor::%s registers a name whose suffix offsets can reach %s (+12 for the header = %s > 0x3FFF): "
               "`addr + 0xC00C` overflows / points elsewhere" % (fn, best, (best + 12) if best is not None else None), b.where(bi))
        # stamp of a used entry = contents.len() + name.len()
        used = []
        for sbi, sst in stamps:
            v = deep_strip(b.term_of_rvalue(sst[2]))
            idx = [pr for pr in sst[1][1:] if isinstance(pr, list) and pr[0] == "[]"]
            itxt = show(deep_strip(b.term_of_local(idx[0][1]))) if idx else ""
        if True:
            # fall back: the stamp written inside the lookup loop
            from rulelib import cyclic_blocks
            cyc = cyclic_blocks(b)
            used = [(sbi, deep_strip(b.term_of_rvalue(sst[2]))) for sbi, sst in stamps if sbi in cyc]
        okst = False
        for sbi, v in used:
            lens = [s for s in walk(v) if s[0] == "call" and (s[1] or "").endswith("::len")]
            has_add = any(s[0] == "bin" and s[1] == "Add" for s in walk(v))
            kinds = {("contents" if deep_strip(s[3][0]) == ("arg", 2) else "name") for s in lens}
            if has_add and kinds == {"contents", "name"}:
                okst = True
        # stamp of a newly registered entry = contents.len() alone: strictly below the stamp its parent just
        # received (contents.len() + a non-empty remainder), so the child is evicted first
        fresh = [(sbi, deep_strip(b.term_of_rvalue(sst[2]))) for sbi, sst in stamps if sbi not in cyc and sbi == bi]
        if not fresh:
            fresh = [(sbi, deep_strip(b.term_of_rvalue(sst[2]))) for sbi, sst in stamps if sbi not in cyc]
        okf = bool(fresh)
        for sbi, v in fresh:
            lv = _lin2(b, v)
            if lv is None or {k: c for k, c in lv.items() if c} != {"C": 1}:
                okf = False
        ctx.ob(R, b, "%s: a new entry is stamped contents.len() (below its parent's stamp)" % fn, okf,
               "the stamp of a newly registered entry must be contents.len(): stamped like (or above) the parent it was "
               "compressed against, parent and child tie and the parent can be evicted first — a later name is then "
               "compressed against a slot that no longer holds the parent and resolves to a different name")
        ctx.ob(R, b, "%s: last-use stamp = contents.len() + remaining name length" % fn, okst and bool(used),
               "the stamp of an entry used for compression must grow with the length of the name still to be written, "
               "so that a parent is always stamped later than its children and evicted after them")


def _lin2(b, t):
    t = deep_strip(t)
    cv = const_value(t)
    if cv is not None:
        return {1: cv}
    if t[0] == "cast":
        return _lin2(b, t[2])
    if t[0] == "bin" and t[1] in ("Add", "Sub"):
        a, c = _lin2(b, t[2]), _lin2(b, t[3])
        if a is None or c is None:
            return None
        out = dict(a)
        for s, v in c.items():
            out[s] = out.get(s, 0) + (v if t[1] == "Add" else -v)
        return out
    if t[0] == "call" and (t[1] or "").endswith("::len") and t[3]:
        a = deep_strip(t[3][0])
        if a == ("arg", 2):
            return {"C": 1}
        return {"N": 1}
    return None


def rule_sig(ctx, F):
    """Wire layout of the fixed-size structures: field types in declaration order."""
    R = "C19.sig"
    ctx.floor(R, 3)
    want = {
        "new::base::message::Header": (["id", "flags", "counts"], None),
        "new::base::message::SectionCounts": (["questions", "answers", "authorities", "additionals"], "U16"),
        "new::base::question::Question": (["qname", "qtype", "qclass"], None),
        "new::base::record::Record": (["rname", "rtype", "rclass", "ttl", "rdata"], None),
        # OPT pseudo-record (RFC 6891 6.1.3): CLASS = payload size, TTL = ext-rcode, version, flags
        "new::edns::EdnsRecord": (["max_udp_payload", "ext_rcode", "version", "flags", "data"], None),
    }
    for adt, (fields, ty) in want.items():
        a = F.adts.get(adt)
        if not ctx.anchor(R, adt, a):
            continue
        got = [f["name"] for f in a["variants"][0]["fields"]]
        ok = got == fields and (ty is None or all(ty in f["ty"] for f in a["variants"][0]["fields"]))
        ctx.ob(R, adt, "field order == wire order", ok,
               "%s fields %s (wire order %s): the derive-based codec writes fields in declaration order" % (adt.split("::")[-1], got, fields))
    # the established header accessors read the same offsets: qdcount 4, ancount 6, nscount 8, arcount 10
    offs = {}
    for nm, off in (("qdcount", 0), ("ancount", 2), ("nscount", 4), ("arcount", 6)):
        b = F.body("base::header::HeaderCounts::%s" % nm)
        if b is None:
            continue
        cs = [const_value(s) for blk in b.blocks for st in blk["s"] if st[0] == "=" for s in walk(b.term_of_rvalue(st[2])) if const_value(s) is not None]
        cs += [const_value(b.term_of_operand(a)) for _, t in b.calls() for a in t["args"] if const_value(b.term_of_operand(a)) is not None]
        offs[nm] = cs
    if offs:
        ok = all(off in offs.get(nm, []) for nm, off in (("qdcount", 0), ("ancount", 2), ("nscount", 4), ("arcount", 6)))
        ctx.ob(R, "base::header::HeaderCounts", "established count accessors use offsets 0,2,4,6 (same order as SectionCounts)", ok,
               "offset constants found: %s" % offs)


# ---------------------------------------------------------------------------
# hand-written builders write the fields in declaration order (which is what
# the derive-based parsers read)
# ---------------------------------------------------------------------------

def rule_order(ctx, F):
    R = "C19.order"
    ctx.floor(R, 18)
    n = 0
    for im in F.impls:
        tr = im["trait"] or ""
        if not re.search(r"^new::.*::(BuildBytes|BuildInMessage)$", tr):
            continue
        adt = im["self_adt"]
        if not adt or adt not in F.adts or not adt.startswith("new::"):
            continue
        a = F.adts[adt]
        if len(a["variants"]) != 1:
            continue
        fields = [fd["name"] for fd in a["variants"][0]["fields"]]
        for it in im["items"]:
            if it["name"] not in ("build_bytes", "build_in_message"):
                continue
            b = F.bodies.get(it["path"])
            if b is None:
                continue
            order = []
            blocks = {}
            for bi, t in b.calls():
                if re.search(r"::(build_bytes|build_in_message)$", t["fn"] or "") and t["args"]:
                    x = deep_strip(b.term_of_operand(t["args"][0]))
                    while x[0] == "field" and deep_strip(x[1]) != ("arg", 1):
                        x = deep_strip(x[1])
                    if x[0] == "field" and deep_strip(x[1]) == ("arg", 1) and str(x[2]) in fields and str(x[2]) not in order:
                        order.append(str(x[2]))
                        blocks[str(x[2])] = bi
            if len(order) < 2:
                continue
            n += 1
            # execution order = dominance order of the first write of each field
            rpo = b.rpo()
            order.sort(key=lambda fd: rpo.get(blocks[fd], 1 << 30))
            idx = [fields.index(fd) for fd in order]
            ctx.ob(R, b, "fields written in declaration order", idx == sorted(idx),
                   "%s::%s writes the fields in the order %s but the struct declares %s: the parsers of the new codec "
                   "(derive-based, declaration order) and the established codec read the octets in the declared order"
                   % (adt.split("::")[-1], it["name"], order, fields), nontrivial=len(order) > 2)
    ctx.call_sites += n


# ---------------------------------------------------------------------------
# the compressor's lookups: remainder / pointer agreement, parent identity,
# initialised entries only, monotone stamps
# ---------------------------------------------------------------------------

NC = "new::base::name::compressor::NameCompressor::"


def _some_tuples(b):
    """[(block, [operand terms])] for every `Some((..))` the function returns"""
    out = []
    for bi in sorted(b.reachable_blocks()):
        for st in b.blocks[bi]["s"]:
            if st[0] == "=" and st[1] == [0] and st[2][0] == "agg" and st[2][1][0] == "adt" and st[2][1][2] == "Some":
                tt = deep_strip(b.term_of_operand(st[2][2][0]))
                if tt[0] == "agg" and tt[1][0] == "tuple":
                    out.append((bi, st[2][2][0], tt[2]))
    return out


def rule_lookup(ctx, F):
    R = "C19.lookup"
    ctx.floor(R, 6)
    from rulelib import cyclic_blocks, bool_facts
    # (1) revname: the label loop trims `entry` per matched label; the returned remainder must shrink with it
    b = F.one_body("^" + re.escape(NC) + r"lookup_entry_for_revname$")
    if ctx.anchor(R, "NameCompressor::lookup_entry_for_revname", b):
        cyc = cyclic_blocks(b)
        somes = _some_tuples(b)
        ctx.anchor(R, "Some((index, rest, pos)) of lookup_entry_for_revname", len(somes) >= 1, b.where())
        for bi, op, elems in somes:
            if len(elems) < 3:
                continue
            rest_raw = b.term_of_operand(op)
            # root local the remainder is computed from (the iterator behind remaining(), or a slice variable)
            roots = set()
            rt = b.term_of_operand(op)
            for s in walk(rt):
                if s[0] == "local":
                    roots.add(s[1])
            # statements: find the tuple's second operand local
            agg_local = op[1][0] if op[0] in ("c", "m") else None
            second = None
            for blk in b.blocks:
                for st in blk["s"]:
                    if st[0] == "=" and st[1] == [agg_local] and st[2][0] == "agg" and st[2][1][0] == "tuple" and len(st[2][2]) >= 2:
                        second = st[2][2][1]
            src = set()
            if second is not None and second[0] in ("c", "m"):
                # follow copies / the receiver of `remaining(&X)`
                work = [second[1][0]]
                seen = set()
                while work:
                    l = work.pop()
                    if l in seen:
                        continue
                    seen.add(l)
                    for d in b.defs().get(l, []):
                        if d[0] == "stmt":
                            rv = d[3]
                            if rv[0] in ("use",) and rv[1][0] in ("c", "m"):
                                work.append(rv[1][1][0])
                            elif rv[0] in ("ref", "deref"):
                                work.append((rv[2] if rv[0] == "ref" else rv[1])[0])
                        elif d[0] == "call":
                            tcall = b.blocks[d[1]]["t"]
                            for a in tcall["args"]:
                                if a[0] in ("c", "m"):
                                    work.append(a[1][0])
                    src.add(l)
            # blocks of the label loop that re-slice the matched entry
            trims = set()
            for ci in cyc:
                for st in b.blocks[ci]["s"]:
                    if st[0] == "=" and len(st[1]) == 1 and b.locals[st[1][0]].startswith("&[u8]"):
                        trims.add(st[1][0])
            # is anything the remainder derives from written (or mutably borrowed) inside the loop?
            advanced = False
            for ci in cyc:
                for st in b.blocks[ci]["s"]:
                    if st[0] == "=" and len(st[1]) == 1 and st[1][0] in src:
                        # a re-assignment, inside the loop, of something the returned remainder derives from
                        if b.locals[st[1][0]].startswith(("&[u8]", "new::base::name::label::LabelIter")):
                            advanced = True
                    if st[0] == "=" and st[2][0] == "ref" and st[2][1] is True and st[2][2][0] in src \
                            and b.locals[st[2][2][0]].startswith("new::base::name::label::LabelIter"):
                        advanced = True    # &mut iterator handed to next()
            ctx.ob(R, b, "the remainder shrinks with every label the pointer covers", advanced,
                   "lookup_entry_for_revname trims the matched entry once per matching label inside its loop but "
                   "returns a remainder that the loop never advances (it iterates a clone): every label matched after "
                   "the first is written out *and* covered by the pointer, so the name reads back with labels duplicated",
                   b.where(bi))
    # (2) both lookups: only an entry that is shared *whole* may become the parent of what remains
    for fn, nrest in (("lookup_entry_for_name", 1), ("lookup_entry_for_revname", 1)):
        b = F.one_body("^" + re.escape(NC) + fn + "$")
        if not ctx.anchor(R, "NameCompressor::%s" % fn, b):
            continue
        k = 0
        for bi, op, elems in _some_tuples(b):
            k += 1
            off = deep_strip(elems[-1])
            rest = deep_strip(elems[1])
            whole = not any(s[0] == "bin" and s[1] in ("Add", "Sub", "AddWithOverflow", "SubWithOverflow") for s in walk(off))
            def _empty_range(x):
                return any(s[0] == "agg" and len(s[1]) > 1 and str(s[1][1]).endswith("RangeTo") and s[2] and
                           const_value(deep_strip(s[2][0])) == 0 for s in walk(x))
            empty_rest = _empty_range(rest) or _empty_range(elems[1])
            # name the result by what its remainder is, not by its position (positions shift when a branch is merged)
            walked = any(s[0] == "call" and re.search(r"LabelIter(::<.*>)?::remaining$", s[1] or "") for s in walk(rest))
            tag = "result#%d" % k
            if fn == "lookup_entry_for_name":
                tag = "result(no remainder)" if empty_rest else ("result(remainder from the label walk)" if walked else "result#%d" % k)
            ctx.ob(R, b, "%s: %s names the entry as parent only if it is shared whole (or nothing remains)" % (fn, tag),
                   whole or empty_rest,
                   "%s returns entry i together with an offset *inside* entry i and a non-empty remainder: the "
                   "remainder is then registered as a child of i although it continues only a suffix of i; since "
                   "children are found by (hash, parent index) alone, a later name that continues the whole of i (or "
                   "the other way round) is compressed against it and reads back as a different name" % fn, b.where(bi))
    # (3) lookups never match an uninitialised slot
    for fn in ("lookup_entry_for_name", "lookup_entry_for_revname"):
        b = F.one_body("^" + re.escape(NC) + fn + "$")
        if b is None:
            continue
        gets = [bb for bb, t in b.calls() if re.search(r"<\[u8\]>::get$|slice::<impl \[T\]>::get$|::get$", t["fn"] or "")
                and t["targs"] and "Range" in " ".join(t["targs"])]
        for bb in gets[:1]:
            ok = False
            for tt, vv in bool_facts(b, bb, F):
                s = show(tt)
                if tt[0] == "bin" and tt[1] in ("Eq", "Ne") and const_value(tt[3]) == 0 and (".len[" in s or ".last_use[" in s) \
                        and ((tt[1] == "Ne") == bool(vv)):
                    ok = True
            ctx.ob(R, b, "%s: an uninitialised slot is skipped" % fn, ok,
                   "%s matches slots on (hash, parent) only; an empty slot has hash 0, parent 0, len 0 and therefore "
                   "looks like a child of entry 0 for any label hashing to 0 (the emptiness check is a debug_assert): "
                   "release builds emit a pointer for a name that was never written" % fn, b.where(bb))
    # (4) a used entry's stamp never decreases (a parent must outlive its children)
    for fn in ("compress_name", "compress_revname"):
        b = F.one_body("^" + re.escape(NC) + fn + "$")
        if b is None:
            continue
        cyc = cyclic_blocks(b)
        k = 0
        for bi in sorted(cyc):
            for st in b.blocks[bi]["s"]:
                direct = st[0] == "=" and len(st[1]) > 2 and any(isinstance(pr, list) and pr[0] == "." and pr[2] == "last_use" for pr in st[1][1:])
                via_ref = False
                if st[0] == "=" and len(st[1]) == 2 and st[1][1] == "*":
                    tp = deep_strip(b.term_of_place(st[1]))
                    via_ref = tp[0] == "idx" and deep_strip(tp[1])[0] == "field" and deep_strip(tp[1])[2] == "last_use"
                if direct or via_ref:
                    k += 1
                    v = b.term_of_rvalue(st[2])
                    mono = any(s[0] == "call" and re.search(r"::max$", s[1] or "") and
                               any(x[0] == "field" and x[2] == "last_use" for a in s[3] for x in walk(a)) for s in walk(v)) or \
                        any(tt[0] == "bin" and tt[1] in ("Lt", "Le", "Gt", "Ge") and "last_use" in show(tt) for tt, vv in bool_facts(b, bi, F))
                    ctx.ob(R, b, "%s: the stamp of a used entry only grows" % fn, mono,
                           "%s overwrites last_use[parent] with contents.len() + remaining length: a later use with a "
                           "short remainder lowers the parent's stamp below that of a live child, the parent slot is "
                           "evicted first and the child keeps pointing at it by index — a later name compresses against "
                           "the reused slot and reads back as a different name" % fn, b.where(bi))
        ctx.anchor(R, "%s: stamp store of a used entry inside the lookup loop" % fn, k >= 1, b.where())


# ---------------------------------------------------------------------------
# a failed push leaves the compressor as it was
# ---------------------------------------------------------------------------

def rule_rollback(ctx, F):
    """MessageBuilder::push hands `self.compressor` to build_in_message, which
    registers names as it writes them.  When the item does not fit, the bytes
    are abandoned (offset unchanged) but the compressor still remembers the
    names at offsets where something else will be written next."""
    R = "C19.rollback"
    ctx.floor(R, 1)
    bs = [b for p, b in F.bodies.items() if re.match(r"^new::base::build::message::MessageBuilder::<'b, 'c>::push$|^new::base::build::message::MessageBuilder::<.*>::push$", p)]
    if not ctx.anchor(R, "new MessageBuilder::push", len(bs) == 1):
        return
    b = bs[0]
    builds = [bb for bb, t in b.calls() if re.search(r"::build_in_message$", t["fn"] or "") and
              any(any(s[0] == "field" and s[2] == "compressor" for s in walk(b.term_of_operand(a))) for a in t["args"])]
    if not ctx.anchor(R, "build_in_message(.., self.compressor) in push", len(builds) >= 1, b.where()):
        return
    restores = set()
    for bi, t in b.calls():
        if re.search(r"NameCompressor::(reset|restore|truncate|clear|clone_from)$|Clone::clone_from$", t["fn"] or ""):
            restores.add(bi)
    for bi in b.reachable_blocks():
        for st in b.blocks[bi]["s"]:
            if st[0] == "=" and len(st[1]) >= 3:
                tp = deep_strip(b.term_of_place(st[1]))
                if tp[0] == "deref" and deep_strip(tp[1])[0] == "field" and deep_strip(tp[1])[2] == "compressor":
                    restores.add(bi)
    errs = [r[0] for r in return_assignments(b) if r[2] == "Err"]
    bad = []
    for bb in builds:
        reach = b.reach_from(bb, removed_blocks=restores)
        bad += [e for e in errs if e in reach and e != bb]
    # the section count is raised only once the item is in the message
    incs = [bb for bb, t in b.calls() if re.search(r"AddAssign<.*>>::add_assign$|AddAssign(<.*>)?::add_assign$", t["fn"] or "")]
    if ctx.anchor(R, "section count increment in push", len(incs) >= 1, b.where()):
        from rulelib import succeeded_calls
        for ib in incs:
            ok = any(bb in succeeded_calls(b, ib, F) for bb in builds)
            ctx.ob(R, b, "the section count is raised only after the item was built", ok,
                   "MessageBuilder::push counts the item in the header before build_in_message has succeeded: when the item does "
                   "not fit, push fails but the count stays one too high and the finished message announces a record it does not "
                   "contain", b.where(ib))
    ctx.ob(R, b, "failure exit restores the compressor", not bad,
           "MessageBuilder::push returns an error after build_in_message may have registered names in the compressor, "
           "without resetting it (the source carries a TODO): the stale entries match whatever is written at those "
           "offsets next, and a later name is compressed against bytes that are not the name it remembers", b.where(builds[0]))


# ---------------------------------------------------------------------------
# truncating the message also resets what the header says about it
# ---------------------------------------------------------------------------

def rule_trunc(ctx, F):
    R = "C19.trunc"
    ctx.floor(R, 1)
    bs = [b for p, b in F.bodies.items() if re.match(r"^new::base::build::message::MessageBuilder::<.*>::truncate$", p)]
    if not ctx.anchor(R, "new MessageBuilder::truncate", len(bs) == 1):
        return
    b = bs[0]
    off = cnt = False
    for bi in b.reachable_blocks():
        for st in b.blocks[bi]["s"]:
            if st[0] == "=" and len(st[1]) >= 3:
                names = [pr[2] for pr in st[1][1:] if isinstance(pr, list) and pr[0] == "."]
                if names[-1:] == ["offset"] and const_value(b.term_of_rvalue(st[2])) == 0:
                    off = True
                if "counts" in names:
                    cnt = True
        t = b.blocks[bi]["t"]
        if t["k"] == "call" and t.get("dest") and any(isinstance(pr, list) and pr[0] == "." and pr[2] == "counts" for pr in t["dest"][1:]):
            cnt = True
    ctx.anchor(R, "truncate resets the write offset", off, b.where())
    ctx.ob(R, b, "dropping the contents also resets the section counts", cnt,
           "MessageBuilder::truncate sets offset = 0 (all questions and records are gone) but leaves header.counts as they "
           "were: the finished message announces records it does not contain and no parser can read it")


def rule_bound(ctx, F):
    """The remainder `lookup_entry_for_name` hands back (the labels still to be written in front of the pointer) is a prefix
    of `name` cut where the label walk over `name` stands (`name_labels.remaining()`), or empty.  A cut computed from the
    *entry's* length is only a byte position: `x0aaa...a.org.` ends in the octets of `aaa...a.org.` (48 = '0') without
    sharing a label with it."""
    R = "C19.bound"
    ctx.floor(R, 2)
    b = F.one_body("^" + re.escape(NC) + r"lookup_entry_for_name$")
    if not ctx.anchor(R, "NameCompressor::lookup_entry_for_name", b):
        return
    somes = _some_tuples(b)
    if not ctx.anchor(R, "Some((index, rest, hash, pos)) of lookup_entry_for_name", len(somes) >= 2, b.where()):
        return
    for k, (bi, op, elems) in enumerate(somes):
        if len(elems) < 2:
            continue
        rest = b.term_of_operand(elems[1]) if not isinstance(elems[1], tuple) else elems[1]
        rest = deep_strip(rest)
        ok, why = False, "the remainder is not a prefix slice of the name"
        if rest[0] == "call" and (rest[1] or "").endswith("Index::index") and len(rest[3]) == 2:
            rng = deep_strip(rest[3][1])
            if rng[0] == "agg" and "RangeTo" in str(rng[1]) and rng[2]:
                end = deep_strip(rng[2][0])
                if const_value(end) == 0:
                    ok = True
                elif end[0] == "bin" and end[1] in ("Sub", "SubUnchecked"):
                    cut = end[3]
                    if any(s[0] == "call" and re.search(r"LabelIter::<.*>::remaining$|LabelIter::remaining$", s[1] or "") for s in walk(cut)):
                        ok = True
                    else:
                        why = "the cut is `name.len() - %s`" % show(deep_strip(cut))[:90]
        ctx.ob(R, b, "result#%d: the remainder ends at a label boundary of the name" % (k + 1), ok,
               "lookup_entry_for_name returns a remainder that is not cut where the walk over the name's labels stands (%s): "
               "when the entry's octets merely happen to end the name's octets (a length octet that is also a letter), the "
               "remainder is not a sequence of labels -- the builder panics ('a valid last label could not be found') or "
               "writes a name nobody can parse" % why, b.where(bi))


def rule_whole(ctx, F):
    """A `parse_*` function of the new codec must consume its whole input (a `split_*` function returns the rest).  For every
    record-data type of the new codec with a hand-written `parse_message_bytes` / `parse_bytes`, the last read in front of
    each successful return is a `parse_*` call (or the rest is tested for emptiness): surplus octets inside RDLENGTH are an
    error, as in the established codec."""
    R = "C19.whole"
    ctx.floor(R, 8)
    n = 0
    rd = re.compile(r"(^|::)(split|parse)_(without_compression|message_bytes|bytes|bytes_by_ref|bytes_by_mut)$")
    for p, b in sorted(F.bodies.items()):
        if not re.match(r"^<new::rdata::.* as new::base::(parse|wire)::.*(ParseMessageBytes|ParseBytes)(<.*>)?>::(parse_message_bytes|parse_bytes)$", p):
            continue
        reads = []
        for bb, tt in b.calls():
            fn = re.sub(r"::<.*?>$", "", tt["fn"] or "")
            mm = rd.search(fn)
            if mm:
                reads.append((bb, mm.group(2), fn))
        if not reads:
            continue
        empties = [bb for bb, tt in b.calls() if re.search(r"::is_empty$", tt["fn"] or "")]
        oks = [r[0] for r in return_assignments(b) if r[2] == "Ok"]
        if not oks:
            continue
        n += 1
        bad = []
        for ob in oks:
            doms = [(bb, kind, fn) for bb, kind, fn in reads if b.dominates(bb, ob)]
            if not doms:
                continue
            # the last one: the read that every other dominating read dominates
            last = [d for d in doms if all(b.dominates(o[0], d[0]) for o in doms)]
            if last and last[0][1] == "split" and not any(b.dominates(e, ob) for e in empties):
                bad.append(last[0][2].split("::")[-1])
        ctx.ob(R, b, "the last field is read with a function that refuses trailing octets", not bad,
               "%s reads its last field with %s, which hands back the rest instead of refusing it: record data with surplus "
               "octets inside RDLENGTH is accepted by the new codec and rejected by the established one"
               % (re.sub(r" as .*", "", p).lstrip("<"), bad[:1]))
    ctx.ob(R, "new::rdata", "hand-written parse functions examined", n >= 8, "only %d found" % n, nontrivial=False)


def rule_rev(ctx, F):
    """RevName stores its labels in reverse order; what build_in_message writes in front of a compression pointer must be
    turned round label by label (a loop over the remainder's labels), not copied as it is."""
    R = "C19.rev"
    ctx.floor(R, 1)
    bs = [b for p, b in F.bodies.items() if re.match(r"^<new::base::name::reversed::RevName as new::base::build::BuildInMessage>::build_in_message$", p)]
    if not ctx.anchor(R, "RevName::build_in_message", len(bs) == 1):
        return
    b = bs[0]
    from rulelib import cyclic_blocks
    cyc = cyclic_blocks(b)
    comp = [bb for bb, tt in b.calls() if re.search(r"NameCompressor::compress_revname$", tt["fn"] or "")]
    if not ctx.anchor(R, "compress_revname call", len(comp) == 1, b.where()):
        return
    # the compressed branch: copies of the remainder into the buffer
    copies = [(bb, tt) for bb, tt in b.calls() if re.search(r"::copy_from_slice$", tt["fn"] or "") and b.dominates(comp[0], bb)]
    per_label = [bb for bb, tt in copies if bb in cyc and any(s[0] == "call" and re.search(r"Label::as_wire$|Label::as_bytes$", s[1] or "") for a in tt["args"] for s in walk(b.term_of_operand(a)))]
    whole = [bb for bb, tt in copies if bb not in cyc and any(s[0] == "field" and False for s in ())]
    labels_iter = [bb for bb, tt in b.calls() if re.search(r"LabelIter(::<.*>)?::new_unchecked$|LabelIter(::<.*>)?::new$", tt["fn"] or "") and b.dominates(comp[0], bb)]
    ctx.ob(R, b, "the labels in front of the pointer are written one by one, in reverse", bool(per_label) and bool(labels_iter),
           "RevName::build_in_message does not walk the labels of the uncompressed remainder (which the compressor hands back in "
           "RevName order) when it writes them in front of the pointer: with two or more labels there, `_sip._tcp.example.org.` "
           "is read back as `_tcp._sip.example.org.`", b.where(comp[0]))


def _uses_compressor(F, body, argn, depth=0):
    """does `body` let its parameter argn reach NameCompressor::compress_*?  (followed through resolved callees;
    an unresolved trait call that receives it counts as a use)"""
    for _, tt in body.calls():
        hit = None
        for i, a in enumerate(tt["args"]):
            tm = deep_strip(body.term_of_operand(a))
            if tm == ("arg", argn):          # the compressor itself (or a reborrow of it), not a value computed with it
                hit = i
        if hit is None:
            continue
        fn = tt.get("res") or tt["fn"] or ""
        if re.search(r"NameCompressor::compress_", fn):
            return True
        cb = F.bodies.get(fn)
        if cb is None:
            return True
        if depth < 3 and _uses_compressor(F, cb, hit + 1, depth + 1):
            return True
    return False


def rule_dispatch(ctx, F):
    """The new codec's record-data dispatcher reads a record out of a *message*: a type whose builder compresses
    its names has to be read with `parse_message_bytes` there (which follows pointers); reading it with `parse_bytes`
    on the tail of the message refuses what the new builder -- and every other implementation -- writes."""
    R = "C19.dispatch"
    ctx.floor(R, 10)
    d = F.one_body(r"^<new::rdata::RecordData<'a, N> as new::base::record::ParseRecordData<'a>>::parse_record_data$") or \
        F.one_body(r"new::rdata::RecordData<.*>.*::parse_record_data$")
    if not ctx.anchor(R, "new::rdata::RecordData::parse_record_data", d):
        return
    builds = {}
    for p, b in F.bodies.items():
        m = re.match(r"^<(&'a )?(new::rdata::[\w:]+)(<.*>)? as new::base::build::BuildInMessage>::build_in_message$", p)
        if m:
            builds[m.group(2)] = b
    n = 0
    for bb, t in d.calls():
        res = t.get("res") or ""
        m = re.match(r"^<(&'a )?(new::rdata::[\w:]+)(<.*>)? as new::base::(parse|wire)::[\w:]*(ParseBytes|ParseMessageBytes)(<.*>)?>::(parse_bytes|parse_message_bytes)$", res)
        if not m:
            continue
        ty, how = m.group(2), m.group(7)
        if ty not in builds:
            continue
        n += 1
        compresses = _uses_compressor(F, builds[ty], 4)
        ctx.ob(R, d, "%s is read the way it is written" % ty.split("::")[-1], not (compresses and how == "parse_bytes"),
               "parse_record_data reads %s with parse_bytes (no decompression) although %s::build_in_message compresses its names: "
               "the new reader rejects -- or misreads -- a record the new builder and the established codec produce"
               % (ty.split("::")[-1], ty.split("::")[-1]), d.where(bb), detail="%s, builder %s" % (how, "compresses" if compresses else "does not compress"))
    ctx.call_sites += n


def rule_cmpr(ctx, F):
    """Writer and reader of one record type agree on name compression: a type whose `parse_message_bytes` reads its data
    without decompression (`*_without_compression` only) must not hand the compressor on in `build_in_message` -- otherwise
    the new parser cannot read what the new builder wrote (and RFC 3597 / RFC 6672 forbid compressing those names)."""
    R = "C19.cmpr"
    ctx.floor(R, 8)
    builds, parses = {}, {}
    for p, b in F.bodies.items():
        m = re.match(r"^<(&'a )?(new::rdata::[\w:]+)(<.*>)? as new::base::build::BuildInMessage>::build_in_message$", p)
        if m:
            builds[m.group(2)] = b
        m = re.match(r"^<(&'a )?(new::rdata::[\w:]+)(<.*>)? as new::base::parse::ParseMessageBytes<'a>>::parse_message_bytes$", p)
        if m:
            parses[m.group(2)] = b
    n = 0
    for ty in sorted(set(builds) & set(parses)):
        bb_, pb = builds[ty], parses[ty]
        reads = [re.sub(r"::<.*?>$", "", tt["fn"] or "") for _, tt in pb.calls()]
        plain = [r for r in reads if re.search(r"_without_compression$", r)]
        decomp = [r for r in reads if re.search(r"(split|parse)_message_bytes$", r)]
        if not plain and not decomp:
            continue
        n += 1
        passes = _uses_compressor(F, bb_, 4)
        ctx.ob(R, bb_, "%s: compresses names only if its parser decompresses them" % ty.split("::")[-1], not (passes and not decomp),
               "%s::build_in_message hands the name compressor on, but %s::parse_message_bytes reads the record data with %s "
               "only (no decompression): the new parser refuses the record the new builder wrote, and the name must not be "
               "compressed on the wire in the first place" % (ty.split("::")[-1], ty.split("::")[-1], sorted(set(x.split("::")[-1] for x in plain))))
    ctx.ob(R, "new::rdata", "types with both a message builder and a message parser", n >= 8, "only %d found" % n, nontrivial=False)


def rule_prefix(ctx, F):
    """Siblings agree: each of the SizePrefixed parsers reads the size with `S::split_*` and hands the inner parser the
    octets *behind* the size field."""
    R = "C19.prefix"
    ctx.floor(R, 4)
    n = 0
    for p, b in sorted(F.bodies.items()):
        if not re.match(r"^<new::base::wire::size_prefixed::SizePrefixed<S, T> as .*>::(parse|split)_bytes(_by_ref|_by_mut)?$", p):
            continue
        def _is(tt, ty, meth):
            fn = tt["fn"] or ""
            return bool(re.search(r"::%s_bytes(_by_ref|_by_mut)?$" % meth, fn)) and (tt.get("targs") or [""])[0] == ty
        inner = [(bb, tt) for bb, tt in b.calls() if _is(tt, "T", "parse")]
        size = [bb for bb, tt in b.calls() if _is(tt, "S", "split")]
        if not inner or not size:
            continue
        for bb, tt in inner:
            n += 1
            tm = deep_strip(b.term_of_operand(tt["args"][0]))
            behind = any(s[0] == "call" and re.search(r"::split_bytes(_by_ref|_by_mut)?$", s[1] or "") and s[5] in size for s in walk(tm))
            ctx.ob(R, b, "the inner parser gets the octets behind the size field", behind and tm != ("arg", 1),
                   "%s checks the size prefix and then parses %s: the inner parser is given the size octets as well, so a "
                   "correctly prefixed value is refused (its split_bytes sibling passes the data only)"
                   % (p.split("::")[-1], "its whole input" if tm == ("arg", 1) else show(tm)[:60]), b.where(bb))
    ctx.ob(R, "SizePrefixed", "parsers examined", n >= 4, "only %d SizePrefixed parse/split functions found" % n, nontrivial=False)


def rule_lsuffix(ctx, F):
    """The new codec's absolute names are ordered by comparing octets from the end first.  Deciding the order from
    the two *lengths* alone is right only when the shorter name is a suffix of the longer one in units of labels; that
    the shorter name's octets end the longer name's octets does not say so (its length octets may fall on content
    octets of one longer label: `\\0031\\001a.` ends with the octets of `a.`).  So every result of Name::cmp that is a
    comparison of lengths has to lie behind a fact obtained from the label structure (the label iterator), and the
    other results compare labels."""
    R = "C19.lsuffix"
    ctx.floor(R, 2)
    b = F.one_body(r"^<new::base::name::absolute::Name as core::cmp::Ord>::cmp$")
    if not ctx.anchor(R, "<new::base::name::Name as Ord>::cmp", b):
        return
    n = 0
    for rb, si, kind, term in return_assignments(b):
        if kind.startswith("call:") and re.search(r"impl core::cmp::Ord for usize>::cmp$|<usize as core::cmp::Ord>::cmp$", kind):
            n += 1
            structural = False
            for s, o in outcome_facts(b, rb, F):
                sh = show(deep_strip(s))
                if re.search(r"labels\(|LabelIter|remaining\(", sh):
                    structural = True
            ctx.ob(R, b, "order decided by length only for a label-aligned suffix #%d" % n, structural,
                   "Name::cmp answers `self.len().cmp(&that.len())` when no octet differs from the end, without establishing "
                   "that the shorter name starts at a label boundary of the longer one: the single label `0\\\\001a.` (octets 03 30 "
                   "01 61 00) sorts after `a.` although RFC 4034 6.1 (and RevName, and the established codec) put it before",
                   b.where(rb))
        elif kind.startswith("call:") and re.search(r"label::Label as core::cmp::Ord>::cmp$", kind):
            ctx.ob(R, b, "otherwise the first differing label decides", True, where=b.where(rb))
        elif kind in ("const", "agg") or term is not None:
            cv = const_value(deep_strip(term)) if term is not None else None
            ctx.ob(R, b, "constant result", True, where=b.where(rb), nontrivial=False, detail=str(cv))


HEADER_BITS = {  # RFC 1035 4.1.1 / RFC 2535: field -> (lowest bit, width) in the 16-bit flags word
    "qr": (15, 1), "opcode": (11, 4), "aa": (10, 1), "tc": (9, 1), "rd": (8, 1), "ra": (7, 1), "ad": (5, 1), "cd": (4, 1), "rcode": (0, 4),
}


def _const16(t):
    """value of a constant 16-bit expression (literals, shifts, masks, `!`), or None"""
    t = deep_strip(t)
    cv = const_value(t)
    if cv is not None and isinstance(cv, int):
        return cv & 0xFFFF
    if t[0] == "cast":
        return _const16(t[2])
    if t[0] == "un" and t[1] == "Not":
        v = _const16(t[2])
        return None if v is None else (~v) & 0xFFFF
    if t[0] == "bin":
        a, c = _const16(t[2]), _const16(t[3])
        if a is None or c is None:
            return None
        op = t[1].replace("Unchecked", "").replace("WithOverflow", "")
        return {"Shl": (a << c) & 0xFFFF if c < 16 else None, "Shr": a >> c if c < 16 else None, "BitAnd": a & c, "BitOr": a | c,
                "BitXor": a ^ c, "Add": (a + c) & 0xFFFF, "Sub": (a - c) & 0xFFFF}.get(op)
    return None


def rule_flags(ctx, F):
    """The new codec's HeaderFlags keeps the sixteen flag bits in one word.  For every field the setter clears exactly the
    bits the getter reads -- RFC 1035's position and width -- and ORs the value in at that position: a clear mask
    that is wider (`!0xF << 11` = 0x8000 for `!(0xF << 11)`) wipes the neighbouring fields whenever the setter is
    called after them."""
    R = "C19.flags"
    ctx.floor(R, 9)
    H = r"^new::base::message::HeaderFlags::%s$"
    sf, gf = F.one_body(H % "set_flag"), F.one_body(H % "get_flag")
    if ctx.anchor(R, "HeaderFlags::set_flag / get_flag", sf is not None and gf is not None):
        clr = [deep_strip(sf.term_of_operand(t["args"][1])) for _, t in sf.calls() if (t["fn"] or "").endswith("bitand_assign")]
        orr = [deep_strip(sf.term_of_operand(t["args"][1])) for _, t in sf.calls() if (t["fn"] or "").endswith("bitor_assign")]
        def shl_by_pos(t, one):
            return t[0] == "bin" and t[1].startswith("Shl") and deep_strip(t[3]) == ("arg", 2) and \
                (const_value(deep_strip(t[2])) == 1 if one else True)
        ok = len(clr) == 1 and len(orr) == 1 and clr[0][0] == "un" and clr[0][1] == "Not" and shl_by_pos(deep_strip(clr[0][2]), True) \
            and shl_by_pos(orr[0], False)
        ctx.ob(R, sf, "set_flag clears and sets bit `pos` only", ok,
               "set_flag does not clear with !(1 << pos) and set with (value << pos) (found clear %s, set %s)"
               % ([show(x) for x in clr], [show(x) for x in orr]))
    for name, (low, width) in sorted(HEADER_BITS.items()):
        g, s_ = F.one_body(H % name), F.one_body(H % ("set_" + name))
        if not ctx.anchor(R, "HeaderFlags::%s / set_%s" % (name, name), g is not None and s_ is not None):
            continue
        if width == 1:
            gp = [const_value(deep_strip(g.term_of_operand(t["args"][1]))) for _, t in g.calls() if (t["fn"] or "").endswith("::get_flag")]
            sp = [const_value(deep_strip(s_.term_of_operand(t["args"][1]))) for _, t in s_.calls() if (t["fn"] or "").endswith("::set_flag")]
            ctx.ob(R, s_, "%s is bit %d for getter and setter" % (name.upper(), low), gp == [low] and sp == [low],
                   "HeaderFlags::%s reads bit %s and set_%s writes bit %s; RFC 1035 4.1.1 puts %s at bit %d" % (name, gp, name, sp, name.upper(), low))
            continue
        clr = [_const16(s_.term_of_operand(t["args"][1])) for _, t in s_.calls() if (t["fn"] or "").endswith("bitand_assign")]
        shifts = []
        for _, t in s_.calls():
            if (t["fn"] or "").endswith("bitor_assign"):
                tm = deep_strip(s_.term_of_operand(t["args"][1]))
                while tm[0] == "cast":
                    tm = deep_strip(tm[2])
                if tm[0] == "bin" and tm[1].startswith("Shl"):
                    shifts.append(const_value(deep_strip(tm[3])))
                else:
                    shifts.append(0)
        want = (~(((1 << width) - 1) << low)) & 0xFFFF
        ctx.ob(R, s_, "set_%s clears exactly bits %d..%d and sets there" % (name, low, low + width - 1), clr == [want] and shifts == [low],
               "HeaderFlags::set_%s clears with the mask %s and shifts the value by %s; the field occupies bits %d..%d, so the mask "
               "has to be %#06x and the shift %d: as it is, setting the %s wipes or keeps the wrong bits (every flag set before it)"
               % (name, [("%#06x" % c) if c is not None else "?" for c in clr], shifts, low, low + width - 1, want, low, name.upper()))
        rets = [deep_strip(t) for _, _, _, t in return_assignments(g) if t is not None]
        gok = False
        for t in rets:
            if t[0] == "bin" and t[1] == "BitAnd" and const_value(deep_strip(t[3])) == (1 << width) - 1:
                inner = deep_strip(t[2])
                while inner[0] == "cast":
                    inner = deep_strip(inner[2])
                sh = const_value(deep_strip(inner[3])) if inner[0] == "bin" and inner[1].startswith("Shr") else 0
                gok = sh == low
        ctx.ob(R, g, "%s() reads bits %d..%d" % (name, low, low + width - 1), gok,
               "HeaderFlags::%s does not read (word >> %d) & %#x" % (name, low, (1 << width) - 1))


def _lin_ptr(t):
    """(kind, constant) of `<pointer word> + constant` or `<start parameter> + constant`; kind in {'ptr', 'start'}"""
    t = deep_strip(t)
    if t[0] == "cast":
        return _lin_ptr(t[2])
    if t[0] == "arg":
        return ("start", 0)
    if t[0] == "call" and re.search(r"from_be_bytes$", t[1] or ""):
        return ("ptr", 0)
    if t[0] == "call" and re.search(r"::(from|into)$", t[1] or "") and t[3]:
        return _lin_ptr(t[3][0])
    if t[0] == "field" or t[0] == "downcast":
        return _lin_ptr(t[1])
    if t[0] == "call" and re.search(r"Try::branch$|ok_or$|ok_or_else$", t[1] or "") and t[3]:
        return _lin_ptr(t[3][0])
    if t[0] == "call" and re.search(r"::checked_sub$", t[1] or "") and len(t[3]) == 2:
        a, k = _lin_ptr(t[3][0]), const_value(deep_strip(t[3][1]))
        return None if a is None or k is None else (a[0], a[1] - k)
    if t[0] == "bin" and t[1].replace("WithOverflow", "").replace("Unchecked", "") in ("Add", "Sub", "BitAnd"):
        op = t[1].replace("WithOverflow", "").replace("Unchecked", "")
        a, k = _lin_ptr(t[2]), const_value(deep_strip(t[3]))
        if a is None or k is None:
            return None
        if op == "BitAnd":
            return (a[0], a[1] - 0xC000) if k == 0x3FFF and a[0] == "ptr" else None
        return (a[0], a[1] + (k if op == "Add" else -k))
    return None


def rule_hdr12(ctx, F):
    """A compression pointer counts from the start of the *message*; the new codec's parsers work on the contents
    behind the 12-octet header.  Where `UnparsedName::split_message_bytes` tests a pointer against its position in the
    contents, the two sides differ by exactly the tag 0xC000 plus those 12 octets -- as in its siblings NameBuf /
    RevNameBuf (C19.ptr) -- otherwise it refuses valid pointers into the 12 octets before the name and accepts
    pointers into the header."""
    R = "C19.hdr12"
    ctx.floor(R, 1)
    b = F.one_body(r"UnparsedName as new::base::parse::SplitMessageBytes<'a>>::split_message_bytes$")
    if not ctx.anchor(R, "<&UnparsedName as SplitMessageBytes>::split_message_bytes", b):
        return
    n = 0
    for bi in sorted(b.reachable_blocks()):
        t = b.blocks[bi]["t"]
        if t["k"] != "switch" or t["ty"] != "bool":
            continue
        d = deep_strip(b.term_of_operand(t["d"]))
        if d[0] != "bin" or d[1] not in ("Ge", "Gt", "Lt", "Le") or "from_be_bytes" not in show(d):
            continue
        l, r = _lin_ptr(d[2]), _lin_ptr(d[3])
        n += 1
        ok = False
        got = None
        if l and r and {l[0], r[0]} == {"ptr", "start"}:
            p_, s_ = (l, r) if l[0] == "ptr" else (r, l)
            got = s_[1] - p_[1]          # ptr - got  <cmp>  start
            ok = got == 0xC000 + 12
        ctx.ob(R, b, "pointer and position are compared in the same frame (tag and 12-octet header removed)", ok,
               "split_message_bytes compares `pointer word - %s` with its own position in the message *contents*: a pointer is "
               "relative to the whole message, so 0xC000 + 12 = 49164 has to come off -- as it is, a valid pointer to the 12 "
               "octets in front of the name is refused and a pointer into the header accepted, unlike NameBuf / RevNameBuf and the "
               "established codec" % ("?" if got is None else got), b.where(bi))
    ctx.ob(R, b, "pointer test found", n >= 1, "no comparison of a compression pointer with the position found", nontrivial=False)


def _proj(t):
    """field(agg tuple [..], i) -> element i, everywhere in the term."""
    if not isinstance(t, tuple):
        return t
    if t and t[0] == "field" and isinstance(t[1], tuple) and t[1][:1] == ("agg",) and t[1][1] == ("tuple",) and isinstance(t[2], int) and t[2] < len(t[1][2]):
        return _proj(t[1][2][t[2]])
    return tuple(_proj(x) if isinstance(x, tuple) else ([_proj(y) for y in x] if isinstance(x, list) else x) for x in t)


def rule_rdend(ctx, F):
    """A record of the new codec ends where its RDLENGTH says: the end of the window handed to the record-data parser
    (and returned as the position of the next record) is `position behind the size field + size`, looked up in the
    message with a *checked* `get(..end)`.  An end that is clamped, or otherwise computed from the message length, turns
    a record that claims more data than the message holds into a shorter record that parses."""
    R = "C19.rdend"
    ctx.floor(R, 1)
    n = 0
    for p, b in sorted(F.bodies.items()):
        if not re.match(r"^<new::base::record::Record<N, D> as new::base::parse::SplitMessageBytes<'a>>::split_message_bytes$", p):
            continue
        for bb, t in b.calls():
            if not re.search(r"slice::<impl \[T\]>::get$", t["fn"] or "") or len(t["args"]) < 2:
                continue
            tm = _proj(deep_strip(b.term_of_operand(t["args"][1])))
            if not (tm[0] == "agg" and tm[1][0] == "adt" and tm[1][1].endswith("RangeTo")):
                continue
            n += 1
            end = _proj(deep_strip(tm[2][0]))
            ok = False
            why = show(end)[:120]
            if end[0] == "bin" and end[1] == "Add":
                a, c = end[2], end[3]
                if c[0] == "cast":
                    c = c[2]
                size_call = c[0] == "call" and (c[1] or "").endswith("U16::get")
                # the size is the value split off last, and `a` is the position that split returned
                src = [x for x in walk(c) if x[0] == "call" and (x[1] or "").endswith("split_without_compression")]
                asrc = [x for x in walk(a) if x[0] == "call" and (x[1] or "").endswith("split_without_compression")]
                pos = a[0] == "field" and a[2] == 1 and src and asrc and asrc[0][5] == src[0][5]
                ok = bool(size_call and pos)
            ctx.ob(R, b, "rdata ends at (position behind RDLENGTH) + RDLENGTH", ok,
                   "Record::split_message_bytes cuts the record data at %s instead of the position behind the size field plus the "
                   "size: a record whose RDLENGTH runs past the end of the message is accepted with less data than it claims"
                   % why, b.where(bb))
    ctx.call_sites += n


def rule_room(ctx, F):
    """Siblings agree: SizePrefixed::build_in_message and ::build_bytes refuse exactly when the buffer cannot hold the
    size field (`len < data_start`), no earlier: data of length zero behind a size field that just fits is a legal
    encoding (an empty RDATA at the very end of the buffer)."""
    R = "C19.room"
    ctx.floor(R, 2)
    n = 0
    for p, b in sorted(F.bodies.items()):
        m = re.match(r"^<new::base::wire::size_prefixed::SizePrefixed<S, T> as .*>::(build_in_message|build_bytes)$", p)
        if not m:
            continue
        inner = [bb for bb, t in b.calls() if re.search(r"::%s$" % m.group(1), t["fn"] or "") and (t.get("targs") or [""])[0] == "T"]
        if not ctx.anchor(R, "inner %s call in SizePrefixed::%s" % (m.group(1), m.group(1)), len(inner) == 1, b.where()):
            continue
        rel = []
        for tm, v, _e in facts_at(b, inner[0], F):
            tm = deep_strip(tm)
            if tm[0] != "bin" or tm[1] not in ("Lt", "Le", "Gt", "Ge") or not isinstance(v, bool):
                continue
            l, r = tm[2], tm[3]
            is_len = lambda x: x[0] == "call" and (x[1] or "").endswith("::len")
            has_sz = lambda x: any(y[0] == "call" and (y[1] or "").endswith("mem::size_of") for y in walk(x))
            if is_len(l) and has_sz(r):
                op = tm[1]
            elif is_len(r) and has_sz(l):
                op = {"Lt": "Gt", "Le": "Ge", "Gt": "Lt", "Ge": "Le"}[tm[1]]
            else:
                continue
            if not v:
                op = {"Lt": "Ge", "Le": "Gt", "Gt": "Le", "Ge": "Lt"}[op]
            rel.append(op)
        n += 1
        ctx.ob(R, b, "%s builds the data whenever the size field fits" % m.group(1), rel == ["Ge"],
               "SizePrefixed::%s builds its data under `buffer length %s position behind the size field` (expected exactly one test, "
               ">=): with `>` a value with no data (an empty RDATA, an empty OPT) cannot be written into a buffer it fits in exactly, "
               "and its sibling accepts it" % (m.group(1), " and ".join({"Gt": ">", "Lt": "<", "Le": "<=", "Ge": ">="}[x] for x in rel) or "<no test>"),
               b.where(inner[0]))
    ctx.call_sites += n
