"""C15 — client transports deliver each answer to its own request (structural).

C15.match  every ComposeRequest(Multi)::is_answer impl returns true only on
           paths dominated by QR set and ID equal; the header-only-error
           shortcut additionally needs rcode != NOERROR and all four counts
           zero; otherwise qdcount equality and question-section equality; the
           TSIG wrappers delegate.
C15.ans    a response is handed to a waiter as Ok(..) only on the true edge of
           is_answer / check_stream (stream demux, datagram receive loop).
C15.slot   Queries::insert hands out only an index whose slot it has just seen
           vacant (or the freshly pushed one): a pending request is never
           overwritten and its wire ID never reused while it is outstanding.
C15.dgdl   the datagram client's receive loop waits against a deadline fixed
           per attempt (timeout_at, or a duration recomputed from it), so
           unrelated or wrong-ID datagrams cannot stretch the wait.
C15.cfg    the per-request limit multi_stream applies is the value of its own
           `response_timeout` setting (the field its getter returns), and
           every stream::Config field the transport reads can be set.
C15.synth  a reply a client transport makes up itself from the *request*
           (SERVFAIL of the load balancer) is marked as a response (QR set):
           it has to satisfy is_answer for its own request like any reply.
C15.timer  the stream transport restarts its response timer (state =
           Active(Some(now))) for an incoming message only after that message
           was matched to an outstanding request: unrelated or wrong-ID
           messages cannot keep a request waiting beyond its timeout.
C15.xfr    check_stream calls a message of a zone-transfer stream an answer
           (third result true) only on paths on which is_answer held for it
           or its question section was seen to be empty (RFC 5936 2.2.2) --
           in every stream state, not only for the first message.
C15.raise  the stream transport keeps one response timeout in effect per
           connection; accepting a further request never *raises* it while
           other requests are pending (it is set freely only when the table
           is empty, otherwise to the minimum of old and new): no pending
           request waits longer than its own limit.
C15.once   stream demux removes the slot before delivery and re-inserts only
           for unfinished streams; Queries keeps `count` in step with the
           occupied slots (decrement only when a slot was actually vacated).
"""
import re

from mirlib import BranchFacts, strip, deep_strip, show, walk, const_value
from rulelib import (
    flow_states, bool_facts, facts_at, fmt_path, must_pass, outcome_facts, return_assignments, succeeded_calls, failed_calls,
)

NC = "net::client::"


def run(ctx):
    F = ctx.facts
    ctx.extra["explanation"] = (
        "C15: guard tables of every is_answer implementation (QR, ID, header-only error conjunction, question "
        "equality), delivery of Ok(answer) only on the matching edge in the stream demultiplexer and the datagram "
        "receive loop, slot bookkeeping of the outstanding-query table. Schedules, timeouts and exactly-once under "
        "cancellation are not decided."
    )
    rule_match(ctx, F)
    rule_ans(ctx, F)
    rule_once(ctx, F)
    rule_tc(ctx, F)
    rule_deadline(ctx, F)
    rule_slot(ctx, F)
    rule_dgdl(ctx, F)
    rule_cfg(ctx, F)
    rule_synth(ctx, F)
    rule_timer(ctx, F)
    rule_timer_insert(ctx, F)
    rule_budget(ctx, F)
    rule_recvbuf(ctx, F)
    rule_drain(ctx, F)
    rule_xfr(ctx, F)
    rule_xfr_first(ctx, F)
    rule_raise(ctx, F)
    rule_wrguard(ctx, F)


def _has_fact(facts, pred):
    return any(pred(t, v) for t, v in facts)


def _is_call(t, suffix):
    return t[0] == "call" and (t[1] or "").endswith(suffix)


def _qr_ok(t, v):
    return _is_call(t, "Header::qr") and v is True and "arg2" in show(t)


def _id_ok(t, v):
    if t[0] == "bin" and t[1] in ("Ne", "Eq"):
        a, b = deep_strip(t[2]), deep_strip(t[3])
        ids = [x for x in (a, b) if _is_call(x, "Header::id")]
        if len(ids) == 2:
            roots = {("arg2" in show(x)) for x in ids}
            if roots == {True, False} or ("arg1" in show(a) + show(b) and "arg2" in show(a) + show(b)):
                return (t[1] == "Ne" and v is False) or (t[1] == "Eq" and v is True)
    return False


def rule_match(ctx, F):
    R = "C15.match"
    ctx.floor(R, 12)
    impls = []
    for im in F.impls:
        if im["trait"] in ("net::client::request::ComposeRequest", "net::client::request::ComposeRequestMulti"):
            for it in im["items"]:
                if it["name"] == "is_answer":
                    b = F.bodies.get(it["path"])
                    if b is not None:
                        impls.append((im, b))
    ctx.anchor(R, "is_answer implementations", len(impls) >= 4)
    for im, b in impls:
        nm = "%s::is_answer" % (im["self_adt"] or im["self_ty"]).split("::")[-1]
        if (im["self_adt"] or "").startswith("net::client::tsig::"):
            # wrappers: must delegate to the wrapped request's is_answer and return that
            deleg = [(bb, t) for bb, t in b.calls() if (t["fn"] or "").endswith("::is_answer")]
            ok = len(deleg) >= 1 and all(t["dest"] == [0] or True for _, t in deleg)
            rets = return_assignments(b)
            consts_true = [r for r in rets if r[2] == "true"]
            ctx.ob(R, b, "%s delegates" % nm, ok and not consts_true,
                   "the TSIG request wrapper must decide is_answer through the wrapped request")
            continue
        rets = return_assignments(b)
        n_true = 0
        for rb, si, kind, term in rets:
            if kind == "false":
                continue
            facts = bool_facts(b, rb, F)
            n_true += 1
            what = "true" if kind == "true" else "question comparison result"
            ctx.ob(R, b, "%s: return %s needs QR" % (nm, what if kind == "true" else "cmp"), _has_fact(facts, _qr_ok),
                   "%s can return true for a message whose QR bit is not checked on that path" % nm, b.where(rb))
            ctx.ob(R, b, "%s: return %s needs ID match" % (nm, what if kind == "true" else "cmp"), _has_fact(facts, _id_ok),
                   "%s can return true without having compared the message ID with the request's ID on that path: "
                   "a reply with a foreign ID is accepted" % nm, b.where(rb))
            if kind == "true":
                # header-only error shortcut or the AXFR empty-question alternative
                zero = {c for c in ("qdcount", "ancount", "nscount", "arcount")
                        if _has_fact(facts, lambda t, v, c=c: t[0] == "bin" and t[1] in ("Eq", "Ne") and const_value(t[3]) == 0
                                     and _is_call(deep_strip(t[2]), "HeaderCounts::" + c) and ((t[1] == "Eq") == v))}
                rcode_err = _has_fact(facts, lambda t, v: (t[0] == "call" and re.search(r"PartialEq.*::(ne|eq)$", t[1] or "") and "rcode" in show(t)
                                                           and ((t[1].endswith("::ne")) == v)) or
                                      (t[0] == "bin" and t[1] in ("Ne", "Eq") and "rcode" in show(t) and ((t[1] == "Ne") == v)))
                axfr = _has_fact(facts, lambda t, v: "qtype" in show(t) and v is True)
                if axfr:
                    ctx.ob(R, b, "%s: AXFR empty-question alternative needs qdcount == 0" % nm, "qdcount" in zero,
                           "RFC 5936 allows an empty question only in AXFR follow-up messages", b.where(rb))
                else:
                    ctx.ob(R, b, "%s: header-only error shortcut" % nm, rcode_err and zero == {"qdcount", "ancount", "nscount", "arcount"},
                           "the question-less shortcut must require an error RCODE and all four section counts to be "
                           "zero (found rcode-error=%s, zero counts=%s)" % (rcode_err, sorted(zero)), b.where(rb))
            else:
                # value is the question comparison, guarded by qdcount equality
                tt = deep_strip(term) if term is not None else ("?",)
                cmp_ok = any(s[0] == "call" and re.search(r"PartialEq.*::eq$", s[1] or "") and "question" in show(s) for s in walk(tt)) \
                    or "question" in show(tt)
                qd = _has_fact(facts, lambda t, v: t[0] == "bin" and t[1] in ("Ne", "Eq") and "qdcount" in show(t[2]) and "qdcount" in show(t[3])
                               and ((t[1] == "Eq") == v))
                ctx.ob(R, b, "%s: full answers compare the question section" % nm, cmp_ok and qd,
                       "a non-shortcut answer must have the same QDCOUNT and an equal question section", b.where(rb))
        ctx.ob(R, b, "%s has accepting paths" % nm, n_true >= 2, "expected the shortcut and the question-comparison exits")


def rule_ans(ctx, F):
    R = "C15.ans"
    ctx.floor(R, 3)
    # stream demux
    b = F.one_body(r"stream::Transport::<Stream, Req, ReqMulti>::demux_reply::\{closure#0\}$")
    if ctx.anchor(R, "stream::Transport::demux_reply", b):
        oks = []
        for bi in b.reachable_blocks():
            for st in b.blocks[bi]["s"]:
                if st[0] == "=" and st[2][0] == "agg" and st[2][1][:3] == ["adt", "core::result::Result", "Ok"]:
                    v = deep_strip(b.term_of_operand(st[2][2][0]))
                    if "Message" in (b.locals[st[2][2][0][1][0]] if st[2][2][0][0] in ("c", "m") else ""):
                        oks.append(bi)
        ctx.anchor(R, "Ok(answer) construction in demux_reply", len(oks) >= 1, b.where())
        for bi in oks:
            good = False
            for t, v in bool_facts(b, bi, F):
                s = show(t)
                if v is True and ("is_answer" in s or "check_stream" in s):
                    good = True
            ctx.ob(R, b, "Ok(answer) only when the reply matches the request", good,
                   "demux_reply wraps the reply in Ok(..) on a path where is_answer/check_stream did not say true: "
                   "a waiter would receive a response to somebody else's request", b.where(bi))
        # the reply is looked up by its ID
        tr = b.calls_matching(r"stream::Queries::<.*>::try_remove$")
        ok = False
        if len(tr) == 1:
            a = deep_strip(b.term_of_operand(tr[0][1]["args"][1]))
            ok = _is_call(a, "Header::id")
        ctx.ob(R, b, "slot looked up by the reply's ID", ok, "demux_reply must look the waiter up by the ID of the reply")
    # datagram
    cands = [bb for p, bb in F.bodies.items() if p.startswith(NC + "dgram::") and any((t["fn"] or "").endswith("::is_answer") for _, t in bb.calls())]
    ctx.anchor(R, "datagram receive loop using is_answer", len(cands) >= 1)
    for b in cands:
        for bb, t in b.calls():
            if not (t["fn"] or "").endswith("::is_answer"):
                continue
            # every Ok(..) return carrying the received message is on the true side
            for bi in b.reachable_blocks():
                for st in b.blocks[bi]["s"]:
                    if st[0] == "=" and st[2][0] == "agg" and st[2][1][:3] == ["adt", "core::result::Result", "Ok"] and st[2][2]:
                        o = st[2][2][0]
                        if o[0] in ("c", "m") and "Message" in b.locals[o[1][0]] and bb in b.reach_from(0) and bi in b.reach_from(bb):
                            good = any(v is True and "is_answer" in show(tt) for tt, v in bool_facts(b, bi, F))
                            ctx.ob(R, b, "datagram Ok(answer) only when is_answer", good,
                                   "the datagram transport returns a received message that is_answer did not accept", b.where(bi))


def rule_once(ctx, F):
    R = "C15.once"
    ctx.floor(R, 6)
    b = F.one_body(r"stream::Transport::<Stream, Req, ReqMulti>::demux_reply::\{closure#0\}$")
    if b is not None:
        tr = b.calls_matching(r"stream::Queries::<.*>::try_remove$")
        sends = b.calls_matching(r"stream::ReplySender::send$")
        ins = b.calls_matching(r"stream::Queries::<.*>::insert_at$")
        if tr and sends:
            ctx.ob(R, b, "slot vacated before delivery", all(tr[0][0] in succeeded_calls(b, sb, F) for sb, _ in sends),
                   "the reply is sent to a waiter without its slot having been removed from the table first")
        for ib, it in ins:
            facts = bool_facts(b, ib, F)
            stream = any(_is_call(t, "ReplySender::is_stream") and v is True for t, v in facts)
            not_eof = any(v is False and t[0] in ("phi", "local", "k") or (v is False and "send_eof" in show(t)) for t, v in facts) or \
                not any(ib in b.reach_from(sb) for sb, _ in b.calls_matching(r"ReplySender::send_eof$"))
            ctx.ob(R, b, "re-insert only for an unfinished stream", stream,
                   "the request is put back into the table although it is not a streaming (XFR) request", b.where(ib))
    # Queries bookkeeping
    Q = "net::client::stream::Queries::<T>::"
    tb = F.body(Q + "try_remove")
    if ctx.anchor(R, "Queries::try_remove", tb):
        takes = tb.calls_matching(r"Option::<.*>::take$")
        decs = []
        for bi in tb.reachable_blocks():
            for st in tb.blocks[bi]["s"]:
                if st[0] == "=" and len(st[1]) > 1 and deep_strip(tb.term_of_place(st[1])) == ("field", ("arg", 1), "count"):
                    decs.append(bi)
        ok = bool(takes) and bool(decs) and all(takes[0][0] in succeeded_calls(tb, d, F) for d in decs)
        ctx.ob(R, tb, "count decremented only when a slot was vacated", ok,
               "Queries::try_remove adjusts `count` on a path where the slot may already have been empty (duplicate or "
               "late reply): the table looks idle while requests are still outstanding")
        gm = tb.calls_matching(r"<impl \[T\]>::get_mut$|Vec::<.*>::get_mut$|get_mut$")
        ctx.ob(R, tb, "out-of-range ID is ignored", bool(gm) and all(gm[0][0] in succeeded_calls(tb, d, F) for d in decs),
               "try_remove must bounds-check the reply ID before touching the table")
    for fn, delta in (("insert", 1), ("insert_at", 1)):
        ib = F.body(Q + fn)
        if not ctx.anchor(R, "Queries::%s" % fn, ib):
            continue
        incs = 0
        for bi in ib.reachable_blocks():
            for st in ib.blocks[bi]["s"]:
                if st[0] == "=" and len(st[1]) > 1 and deep_strip(ib.term_of_place(st[1])) == ("field", ("arg", 1), "count"):
                    v = deep_strip(ib.term_of_rvalue(st[2]))
                    if v[0] == "bin" and v[1] == "Add" and const_value(v[3]) == 1:
                        incs += 1
        ctx.ob(R, ib, "count += 1 exactly once", incs == 1, "Queries::%s changes count %d time(s)" % (fn, incs))
    ib = F.body(Q + "insert")
    if ib is not None:
        cap = None
        for rb, si, kind, term in return_assignments(ib):
            if kind == "Err":
                for t, v in bool_facts(ib, rb, F):
                    if t[0] == "bin" and t[1] == "Gt" and v is True and const_value(t[3]) is not None:
                        cap = const_value(t[3])
        ctx.ob(R, ib, "table bounded so that every index fits an ID", cap is not None and cap <= 0xFFFF,
               "Queries::insert must refuse new entries before indices exceed 16 bits (found bound %s)" % cap)


def rule_tc(ctx, F):
    """dgram_stream: a truncated datagram answer is not returned but retried over the stream."""
    R = "C15.tc"
    ctx.floor(R, 2)
    cands = [b for p, b in F.bodies.items() if p.startswith(NC + "dgram_stream::")
             and any((t["fn"] or "").endswith("Header::tc") for _, t in b.calls())]
    if not ctx.anchor(R, "dgram_stream response loop testing the TC bit", len(cands) == 1):
        return
    b = cands[0]
    retry = False
    for bi in b.reachable_blocks():
        for st in b.blocks[bi]["s"]:
            if st[0] == "=" and st[2][0] == "agg" and st[2][1][0] == "adt" and st[2][1][1].endswith("QueryState") \
                    and st[2][1][2] == "StartTcpRequest":
                if any(_is_call(t, "Header::tc") and v is True for t, v in bool_facts(b, bi, F)):
                    retry = True
    ctx.ob(R, b, "TC=1 switches to the stream transport", retry,
           "a truncated datagram response must move the request to StartTcpRequest")
    # the UDP response is returned only when TC is clear
    tcb = [bb for bb, t in b.calls() if (t["fn"] or "").endswith("Header::tc")][0]
    ok_ret = False
    bad = False
    for bi in b.reachable_blocks():
        for st in b.blocks[bi]["s"]:
            if st[0] == "=" and st[2][0] == "agg" and st[2][1][:3] == ["adt", "core::result::Result", "Ok"] and st[2][2]:
                if bi in b.reach_from(tcb):
                    fs = bool_facts(b, bi, F)
                    if any(_is_call(t, "Header::tc") and v is False for t, v in fs):
                        ok_ret = True
                    elif any(_is_call(t, "Header::tc") and v is True for t, v in fs):
                        bad = True
    ctx.ob(R, b, "truncated datagram answer is never returned", ok_ret and not bad,
           "the datagram response is handed to the caller although its TC bit is set")


# ---------------------------------------------------------------------------
# multi_stream: every wait of a request is bounded by the time remaining
# ---------------------------------------------------------------------------

def rule_deadline(ctx, F):
    """multi_stream::Request::get_response computes `remaining` from the
    configured response timeout at the top of its state loop; every future it
    awaits (new connection, connection reply, query response, retry back-off)
    is wrapped in tokio::time::timeout(remaining, ..).  An await outside such
    a wrapper can outlast the caller's deadline."""
    R = "C15.deadline"
    ctx.floor(R, 4)
    bs = [b for p, b in F.bodies.items() if re.match(r"^net::client::multi_stream::Request::<Req>::get_response::\{closure#0\}$", p)]
    if not ctx.anchor(R, "multi_stream::Request::get_response", len(bs) == 1):
        return
    b = bs[0]
    n = 0
    for bi, t in b.calls():
        if not (t["fn"] or "").endswith("IntoFuture::into_future"):
            continue
        n += 1
        a = deep_strip(b.term_of_operand(t["args"][0]))
        bounded = a[0] == "call" and re.search(r"tokio::time::(timeout|timeout_at)$|time::timeout::(timeout|timeout_at)$", a[1] or "") is not None
        what = (a[1].split("::")[-1] if a[0] == "call" and a[1] else show(a)[:40])
        ctx.ob(R, b, "await#%d is bounded by the remaining time" % n, bounded,
               "multi_stream::Request::get_response awaits %s without tokio::time::timeout(remaining, ..): the request "
               "can outlast the configured response timeout" % what, b.where(bi))
    ctx.call_sites += n


def rule_slot(ctx, F):
    R = "C15.slot"
    ctx.floor(R, 1)
    b = F.one_body(r"^net::client::stream::Queries::<T>::insert$")
    if not ctx.anchor(R, "Queries::insert", b):
        return
    n = 0
    for bi in sorted(b.reachable_blocks()):
        for st in b.blocks[bi]["s"]:
            if st[0] != "=" or st[2][0] != "agg" or st[2][1][0] != "adt" or st[2][1][1] != "core::option::Option" or st[2][1][2] != "Some":
                continue
            ops = st[2][2]
            if not ops or ops[0][0] not in ("c", "m") or len(ops[0][1]) != 1 or b.locals[ops[0][1][0]] != "usize":
                continue
            n += 1
            vacant = False
            for tt, v, _ in facts_at(b, bi, F):
                s = show(deep_strip(tt))
                if (v is True and "is_none(" in s and ".vec" in s) or (v is False and "is_some(" in s and ".vec" in s) or \
                        (v == ("variant", "None") and ".vec" in s):
                    vacant = True
            ctx.ob(R, b, "candidate index #%d was seen vacant" % n, vacant,
                   "Queries::insert picks an index for the new request without having checked that the slot is empty: a request "
                   "that is still outstanding is overwritten and its ID goes out a second time -- the answer to the old request is "
                   "delivered to the new one", b.where(bi))
    # the same search written with an iterator adaptor: (curr..len).find(|&idx| self.vec[idx].is_none())
    from mirlib import closures_created_in
    for bi, cb, cops in closures_created_in(F, b):
        used = [bb for bb, tt in b.calls() if re.search(r"Iterator::(find|position)$", tt["fn"] or "")]
        if not used:
            continue
        rets = return_assignments(cb)
        n += 1
        def _vacancy_test(r):
            if r[3] is not None:
                return bool(re.search(r"is_none\(.*\.vec", show(deep_strip(r[3]))))
            if str(r[2]).startswith("call:") and str(r[2]).endswith("::is_none"):
                cs = cb.calls_matching(r"Option::<.*>::is_none$")
                from mirlib import resolve_captures
                return len(cs) == 1 and ".vec" in show(deep_strip(resolve_captures(F, cb, cb.term_of_operand(cs[0][1]["args"][0]))))
            return False
        vac = bool(rets) and all(_vacancy_test(r) for r in rets)
        ctx.ob(R, b, "candidate index #%d was seen vacant" % n, vac,
               "Queries::insert searches for a free slot with a predicate that is not `slot is empty`: a request that is still "
               "outstanding is overwritten and its ID goes out a second time", b.where(bi))



def rule_dgdl(ctx, F):
    from rulelib import cyclic_blocks
    R = "C15.dgdl"
    ctx.floor(R, 1)
    bs = [b for p, b in F.bodies.items() if re.match(r"^net::client::dgram::Connection::<S>::handle_request_impl::<.*>::\{closure#0\}$|"
                                                      r"^net::client::dgram::Connection::<S>::handle_request_impl::\{closure#0\}$", p)]
    if not ctx.anchor(R, "dgram::Connection::handle_request_impl", len(bs) == 1):
        return
    b = bs[0]
    cyc = cyclic_blocks(b)
    n = 0
    for bi, t in b.calls():
        if not (t["fn"] or "").endswith("IntoFuture::into_future"):
            continue
        a = deep_strip(b.term_of_operand(t["args"][0]))
        if a[0] != "call" or not re.search(r"::recv(_from)?$", " ".join(s[1] or "" for s in walk(a) if s[0] == "call")) and "recv" not in show(a):
            continue
        n += 1
        fn = a[1] or ""
        if re.search(r"time::(timeout::)?timeout_at$", fn):
            ok = True
            how = "timeout_at(deadline, ..)"
        elif re.search(r"time::(timeout::)?timeout$", fn):
            d = show(deep_strip(a[3][0])) if a[3] else ""
            ok = bool(re.search(r"duration_since|saturating_duration_since|checked_duration_since|Sub\(", d))
            how = "timeout(%s, ..)" % d[:50]
        else:
            ok = False
            how = "no time limit (%s)" % fn.split("::")[-1]
        ctx.ob(R, b, "receive await #%d is bounded by the attempt's deadline" % n, ok,
               "the datagram client waits for a reply with %s inside its receive loop: every datagram that is not the answer "
               "(wrong ID, garbage) starts a full new window, so a request can be kept waiting far beyond read_timeout x "
               "(1 + max_retries)" % how, b.where(bi))


def rule_cfg(ctx, F):
    R = "C15.cfg"
    ctx.floor(R, 2)
    # multi_stream: the limit applied per request is the `response_timeout` setting
    g = F.one_body(r"^net::client::multi_stream::Config::response_timeout$")
    w = [b for p, b in F.bodies.items() if re.match(r"^net::client::multi_stream::Connection::<Req>::with_config(::<.*>)?$", p)]
    if ctx.anchor(R, "multi_stream::Config::response_timeout and Connection::with_config", g is not None and len(w) == 1):
        gf = [show(deep_strip(term)) for _, _, _, term in return_assignments(g) if term is not None]
        field = gf[0].split(".")[-1] if gf else None
        used = None
        for bi in w[0].reachable_blocks():
            for st in w[0].blocks[bi]["s"]:
                if st[0] == "=" and st[2][0] == "agg" and st[2][1][0] == "adt" and str(st[2][1][1]).endswith("multi_stream::Connection"):
                    names = list(st[2][1][3])
                    if "response_timeout" in names:
                        used = show(deep_strip(w[0].term_of_operand(st[2][2][names.index("response_timeout")])))
        ctx.ob(R, w[0], "the per-request limit is the `response_timeout` setting", field is not None and used is not None and used.endswith("arg2." + field),
               "multi_stream::Connection::with_config takes the per-request limit from `%s` while Config::response_timeout() / "
               "set_response_timeout() operate on `%s`: the configured timeout is not the one applied" % (used, field))
    # stream: every Config field read by the transport has a setter
    cfg = F.adts.get("net::client::stream::Config")
    if ctx.anchor(R, "struct net::client::stream::Config", cfg is not None):
        import json
        fields = [f["name"] for f in cfg["variants"][0]["fields"]]
        written, read = set(), set()
        for p, b in F.bodies.items():
            if not p.startswith(("net::client::stream::", "<net::client::stream::")) or "::test" in p:
                continue
            is_setter = re.match(r"^net::client::stream::Config::set_\w+$", p) is not None
            is_ctor = re.search(r"Config as core::default::Default>::default$|Config::new$|Config as core::clone::Clone>::clone$", p) is not None
            for bi in b.reachable_blocks():
                for st in b.blocks[bi]["s"]:
                    if st[0] != "=":
                        continue
                    lhs = st[1]
                    if is_setter and len(lhs) >= 2 and isinstance(lhs[-1], (list, tuple)) and lhs[-1][0] == "." and lhs[-1][2] in fields:
                        written.add(lhs[-1][2])
                    if not is_setter and not is_ctor and not re.match(r"^net::client::stream::Config::\w+$", p):
                        txt = json.dumps(st[2])
                        for f in fields:
                            if re.search(r'\["\.", \d+, "%s"\]' % re.escape(f), txt) and ("config" in txt.lower() or True):
                                # only count reads through a Config-typed place
                                read.add(f)
        cfg_reads = set()
        for p, b in F.bodies.items():
            if not p.startswith(("net::client::stream::Transport", "<net::client::stream::Transport")):
                continue
            for bi in b.reachable_blocks():
                for st in b.blocks[bi]["s"]:
                    if st[0] == "=":
                        s = show(deep_strip(b.term_of_rvalue(st[2])))
                        for f in fields:
                            if re.search(r"config\.%s\b" % re.escape(f), s):
                                cfg_reads.add(f)
        for f in sorted(cfg_reads):
            ctx.ob(R, "net::client::stream::Config", "field %s, which the transport reads, can be set" % f, f in written,
                   "the stream transport reads Config.%s but no setter ever writes it: whatever timeout the user configures, the "
                   "transport goes on using the default for this field" % f)


def rule_synth(ctx, F):
    R = "C15.synth"
    ctx.floor(R, 1)
    n = 0
    for p, b in sorted(F.bodies.items()):
        if not re.match(r"^net::client::\w+::serve_fail(::<.*>)?$", p):
            continue
        from_request = False
        for cb, cbb, ct in F.callers_of("^" + re.escape(p) + "$"):
            s = show(deep_strip(cb.term_of_operand(ct["args"][0])))
            if "to_message(" in s or "request_msg" in s:
                from_request = True
        if not from_request:
            continue
        n += 1
        qr = [const_value(deep_strip(b.term_of_operand(t["args"][1]))) for _, t in b.calls()
              if (t["fn"] or "").endswith("Header::set_qr") and len(t["args"]) >= 2]
        ctx.ob(R, b, "the made-up reply is marked as a response", any(v in (1, True) for v in qr),
               "%s builds a reply from the request's header and never sets QR: the caller gets Ok(message) that is not a "
               "response and does not satisfy is_answer for its own request" % p.split("::")[-2])
        # ... and carries the request's ID: the whole header is taken from the request, or set_id gets the request's id()
        hdr_copied = False
        for bi in b.reachable_blocks():
            for st in b.blocks[bi]["s"]:
                if st[0] == "=" and len(st[1]) >= 2 and "*" in st[1]:
                    tm = deep_strip(b.term_of_rvalue(st[2]))
                    if tm[0] == "call" and re.search(r"Message::<.*>::header$|Message::header$", tm[1] or "") and \
                            any(x[0] == "arg" and x[1] == 1 for x in walk(tm)):
                        dst = deep_strip(b.term_of_operand(["c", [st[1][0]]]))
                        if any(x[0] == "call" and (x[1] or "").endswith("::header_mut") for x in walk(dst)):
                            hdr_copied = True
        id_set = False
        for _, t in b.calls():
            if (t["fn"] or "").endswith("Header::set_id") and len(t["args"]) >= 2:
                tm = deep_strip(b.term_of_operand(t["args"][1]))
                if any(x[0] == "call" and (x[1] or "").endswith("Header::id") for x in walk(tm)) and \
                        any(x[0] == "arg" and x[1] == 1 for x in walk(tm)):
                    id_set = True
        ctx.ob(R, b, "the made-up reply carries the request's ID", hdr_copied or id_set,
               "%s builds its reply header without taking the ID from the request (neither the request's header as a whole nor "
               "set_id(request.header().id())): the caller gets an Ok(message) whose ID is 0, not the ID of its request"
               % p.split("::")[-2])
    ctx.ob(R, "net::client", "scanned", n >= 1, "no reply synthesised from a request found any more", nontrivial=False)


def rule_timer(ctx, F):
    R = "C15.timer"
    ctx.floor(R, 1)
    bs = [b for p, b in F.bodies.items() if re.search(r"^net::client::stream::Transport::<.*>::demux_reply::\{closure#0\}$", p)]
    if not ctx.anchor(R, "stream::Transport::demux_reply", len(bs) == 1):
        return
    b = bs[0]
    rem = b.calls_matching(r"stream::Queries::<.*>::try_remove$")
    if not ctx.anchor(R, "try_remove in demux_reply", len(rem) == 1, b.where()):
        return
    rbb = rem[0][0]
    resets = []
    for bi in b.reachable_blocks():
        if b.blocks[bi].get("c"):
            continue
        for st in b.blocks[bi]["s"]:
            if st[0] == "=" and st[2][0] == "agg" and st[2][1][0] == "adt" and st[2][1][1].endswith("stream::ConnState") \
                    and "Active" in str(st[2][1]):
                tm = deep_strip(b.term_of_rvalue(st[2]))
                if any(s[0] == "call" and (s[1] or "").endswith("Instant::now") for s in walk(tm)):
                    resets.append(bi)
    if not ctx.anchor(R, "timer restart (ConnState::Active(Some(Instant::now()))) in demux_reply", len(resets) >= 1, b.where()):
        return
    for bi in resets:
        matched = False
        if b.dominates(rbb, bi):
            for tm, out in outcome_facts(b, bi, F):
                if out == "success" and any(s[0] == "call" and (s[1] or "").endswith("::try_remove") for s in walk(tm)):
                    matched = True
        ctx.ob(R, b, "the response timer restarts only for a message that belongs to an outstanding request", matched,
               "demux_reply restarts the response timer for every message read from the stream, before it looks the ID up: a "
               "peer that keeps sending well-formed messages with unknown IDs keeps every pending request waiting for ever, "
               "past its response timeout", b.where(bi))


def rule_timer_insert(ctx, F):
    """second clause of C15.timer: accepting a new request does not restart a response timer that is already running
    for an older, still unanswered request (only an idle connection, or an active one without timer, gets a fresh one)"""
    R = "C15.timer"
    bs = [b for p, b in F.bodies.items() if re.search(r"^net::client::stream::Transport::<.*>::insert_req$", p)]
    if not ctx.anchor(R, "stream::Transport::insert_req", len(bs) == 1):
        return
    b = bs[0]
    resets = []
    for bi in b.reachable_blocks():
        if b.blocks[bi].get("c"):
            continue
        for st in b.blocks[bi]["s"]:
            if st[0] == "=" and st[2][0] == "agg" and st[2][1][0] == "adt" and st[2][1][1].endswith("stream::ConnState") \
                    and "Active" in str(st[2][1]):
                tm = deep_strip(b.term_of_rvalue(st[2]))
                if any(s[0] == "call" and (s[1] or "").endswith("Instant::now") for s in walk(tm)):
                    resets.append(bi)
    if not ctx.anchor(R, "timer start (ConnState::Active(Some(Instant::now()))) in insert_req", len(resets) >= 1, b.where()):
        return
    for n, bi in enumerate(sorted(resets)):
        variants = set()
        no_timer = False
        for tm, out in outcome_facts(b, bi, F):
            sh = show(deep_strip(tm))
            if isinstance(out, tuple) and out[0] == "variant" and "state" in sh:
                variants.add(out[1])
            if isinstance(out, tuple) and out[0] == "variant" and out[1] == "None":
                no_timer = True
        for tm, v in bool_facts(b, bi, F):
            sh = show(tm)
            if ("is_none(" in sh and v is True) or ("is_some(" in sh and v is False):
                no_timer = True
        ok = ("Active" not in variants and bool(variants)) or no_timer
        ctx.ob(R, b, "a new request starts the response timer only if none is running #%d" % (n + 1), ok,
               "insert_req sets a fresh response timer on a connection that is Active%s: every new request pushes the "
               "deadline of the older, still unanswered requests back, so a lost answer never times out while the caller keeps "
               "sending (state variants on this path: %s)" % ("" if "Active" in variants else " (or in an unknown state)", sorted(variants)),
               b.where(bi))


def _lin_in(t, is_var):
    """(coefficient of the variable, constant) of a term linear in one variable, or None"""
    t = deep_strip(t)
    if is_var(t):
        return (1, 0)
    cv = const_value(t)
    if cv is not None:
        return (0, cv)
    if t[0] == "cast":
        return _lin_in(t[2], is_var)
    if t[0] == "call" and t[1] and re.search(r"::(from|into|saturating_add|wrapping_add)$", t[1]) and t[3]:
        if len(t[3]) == 1:
            return _lin_in(t[3][0], is_var)
        a, c = _lin_in(t[3][0], is_var), _lin_in(t[3][1], is_var)
        return None if a is None or c is None else (a[0] + c[0], a[1] + c[1])
    if t[0] == "bin" and t[1].replace("WithOverflow", "") in ("Add", "Sub"):
        a, c = _lin_in(t[2], is_var), _lin_in(t[3], is_var)
        if a is None or c is None:
            return None
        sg = 1 if t[1].startswith("Add") else -1
        return (a[0] + sg * c[0], a[1] + sg * c[1])
    return None


def rule_budget(ctx, F):
    """The datagram transport sends a request at most 1 + max_retries times: the transmission loop runs over a range
    whose number of elements, as a linear form in the configured max_retries, is exactly max_retries + 1."""
    R = "C15.budget"
    ctx.floor(R, 1)
    bs = [b for p, b in F.bodies.items() if re.search(r"^net::client::dgram::Connection::<.*>::handle_request_impl::\{closure#0\}$", p)]
    if not ctx.anchor(R, "dgram::Connection::handle_request_impl", len(bs) == 1):
        return
    b = bs[0]
    is_var = lambda t: t[0] == "field" and t[-1] == "max_retries"
    loops = []
    for bb, t in b.calls():
        if not re.search(r"IntoIterator::into_iter$", t["fn"] or ""):
            continue
        tm = deep_strip(b.term_of_operand(t["args"][0]))
        if not any(is_var(x) for x in walk(tm) if isinstance(x, tuple) and x):
            continue
        count = None
        if tm[0] == "agg" and tm[1][0] == "adt" and str(tm[1][1]).endswith("ops::Range"):
            lo, hi = _lin_in(tm[2][0], is_var), _lin_in(tm[2][1], is_var)
            if lo and hi:
                count = (hi[0] - lo[0], hi[1] - lo[1])
        elif tm[0] == "call" and "RangeInclusive" in (tm[1] or "") and len(tm[3]) == 2:
            lo, hi = _lin_in(tm[3][0], is_var), _lin_in(tm[3][1], is_var)
            if lo and hi:
                count = (hi[0] - lo[0], hi[1] - lo[1] + 1)
        loops.append((bb, count, show(tm)))
    if not ctx.anchor(R, "the transmission loop over a range built from max_retries", len(loops) == 1, b.where()):
        return
    bb, count, sh = loops[0]
    ctx.ob(R, b, "transmissions = max_retries + 1", count == (1, 1),
           "the transmission loop of the datagram transport runs over %s, i.e. %s iterations: the request is sent (and "
           "waited for) %s than the configured budget of 1 + max_retries allows"
           % (sh[:140], "an unrecognised number of" if count is None else "%d*max_retries + %d" % count,
              "a different number of times" if count is None else ("more often" if count > (1, 1) else "less often")), b.where(bb))


def rule_xfr(ctx, F):
    R = "C15.xfr"
    ctx.floor(R, 2)
    bs = [b for p, b in F.bodies.items() if re.search(r"^net::client::stream::check_stream$", p)]
    if not ctx.anchor(R, "stream::check_stream", len(bs) == 1):
        return
    b = bs[0]
    def on_call(bb, term, st):
        return st
    def on_edge(bb, lab, fact, st):
        if fact is None:
            return st
        tm, v = fact
        s = show(tm)
        if "is_answer(" in s and v is True:
            return "matched"
        m = re.match(r"^(Eq|Ne)\((.*qdcount\(.*\)), 0\)$|^(Eq|Ne)\(0, (.*qdcount\(.*\))\)$", s)
        if m and v is ((m.group(1) or m.group(3)) == "Eq"):
            return "matched"
        if "qdcount(" in s and isinstance(v, int) and not isinstance(v, bool) and v == 0:
            return "matched"
        return st
    at = flow_states(b, F, "unmatched", on_call, on_edge)
    if at is None:
        ctx.undecided_item(R, b.path, "state exploration exceeded its budget")
        return
    sites = []
    for bi in b.reachable_blocks():
        if b.blocks[bi].get("c"):
            continue
        for st in b.blocks[bi]["s"]:
            if st[0] == "=" and st[1] == [0] and st[2][0] == "agg" and st[2][1][0] == "tuple" and len(st[2][2]) == 3:
                third = st[2][2][2]
                if third[0] == "k" and third[2] in (1, True):
                    sites.append(bi)
    if not ctx.anchor(R, "returns of check_stream that call the message an answer", len(sites) >= 2, b.where()):
        return
    for i, bi in enumerate(sorted(sites)):
        states = at.get(bi, set())
        ctx.ob(R, b, "answer#%d only for a message whose question was compared (or is empty)" % (i + 1),
               states and "unmatched" not in states,
               "check_stream reports a message as the answer to the transfer request on a path on which neither is_answer held "
               "nor the question section was seen empty (only the first message of a transfer is compared): a later message "
               "with the same ID and a foreign question is handed to the caller as part of its transfer", b.where(bi))


def rule_xfr_first(ctx, F):
    """RFC 5936 2.2: the *first* message of a transfer carries the question of the request (only later ones may leave
    it out; a header-only error needs the ID alone).  `is_answer` of a transfer request lets a question-less message
    through for AXFR because it cannot know which message it is looking at -- so check_stream, which does know, has to
    refuse a question-less non-error message while it is in an Init state.  Path-sensitive: on the ways from the Init
    arms to a return that calls the message an answer, QDCOUNT != 0 or an error RCODE has been established."""
    R = "C15.xfr"
    bs = [b for p, b in F.bodies.items() if re.search(r"^net::client::stream::check_stream$", p)]
    if len(bs) != 1:
        return
    b = bs[0]

    def on_call(bb, term, st):
        return st

    def on_edge(bb, lab, fact, st):
        if fact is None:
            return st
        arm, seen = st
        tm, v = fact
        s = show(tm)
        if arm == "dead":
            return st
        if isinstance(v, tuple) and v[0] in ("variant", "notvariant") and "arg2" in s.replace(" ", ""):
            # the transfer state is matched more than once; it does not change in between (only error exits assign it)
            # (the state is matched again further down and assigned in between: what counts is the state the function was
            # entered with, i.e. the first match)
            now = "init" if (v[0] == "variant" and re.search(r"Init$", str(v[1]))) else "later"
            if arm is None:
                arm = now
        m = re.match(r"^(Eq|Ne)\((.*qdcount\(.*\)), 0\)$|^(Eq|Ne)\(0, (.*qdcount\(.*\))\)$", s)
        if m and isinstance(v, bool) and v is not ((m.group(1) or m.group(3)) == "Eq"):
            seen = True          # QDCOUNT != 0
        if "qdcount(" in s and isinstance(v, tuple) and v[0] == "ne" and 0 in (v[1] if isinstance(v[1], (tuple, list, set, frozenset)) else [v[1]]):
            seen = True
        if "rcode" in s and isinstance(v, bool) and ((("ne(" in s or "Ne(" in s) and v is True) or (("eq(" in s or "Eq(" in s) and v is False)):
            seen = True          # an error reply
        return (arm, seen)
    at = flow_states(b, F, (None, False), on_call, on_edge)
    if at is None:
        ctx.undecided_item(R, b.path, "state exploration exceeded its budget (first-message clause)")
        return
    sites = []
    for bi in b.reachable_blocks():
        if b.blocks[bi].get("c"):
            continue
        for st in b.blocks[bi]["s"]:
            if st[0] == "=" and st[1] == [0] and st[2][0] == "agg" and st[2][1][0] == "tuple" and len(st[2][2]) == 3:
                third = st[2][2][2]
                if third[0] == "k" and third[2] in (1, True):
                    sites.append(bi)
    inits = any(stt != "dead" and stt[0] == "init" for bi in sites for stt in at.get(bi, set()))
    if not ctx.anchor(R, "answer returns of check_stream reachable from the Init states", inits, b.where()):
        return
    for i, bi in enumerate(sorted(sites)):
        bad = [stt for stt in at.get(bi, set()) if stt[0] == "init" and not stt[1]]
        ctx.ob(R, b, "answer#%d: the first message of a transfer has a question (or is an error)" % (i + 1), not bad,
               "check_stream accepts the first message of a transfer on a path where neither QDCOUNT != 0 nor an error RCODE was "
               "established: is_answer() lets any question-less message with the right ID through for AXFR, so a first message "
               "without question carrying some other zone is handed to the caller as its transfer", b.where(bi))


def rule_raise(ctx, F):
    R = "C15.raise"
    ctx.floor(R, 1)
    bs = [b for p, b in F.bodies.items() if re.search(r"^net::client::stream::Transport::<.*>::run::\{closure#0\}$", p)]
    if not ctx.anchor(R, "stream::Transport::run", len(bs) == 1):
        return
    b = bs[0]
    b.defs()
    sites = []
    for n, lst in b.partial_defs.items():
        for d in lst:
            if d[0] != "stmt" or b.blocks[d[1]].get("c"):
                continue
            st = d[3]
            pl = st[1]
            last = pl[-1]
            if isinstance(last, list) and last[0] == "." and last[2] == "response_timeout":
                sites.append((d[1], st))
    if not ctx.anchor(R, "assignment of the response timeout in effect in Transport::run", len(sites) >= 1, b.where()):
        return
    for i, (bi, st) in enumerate(sorted(sites, key=lambda x: x[0])):
        empty = any(v is True and re.search(r"Queries::<.*>::is_empty\(|is_empty\(", show(tm)) and "quer" in show(tm).lower() + str(b.vars).lower()
                    and "is_empty(" in show(tm) for tm, v in bool_facts(b, bi, F))
        tm = deep_strip(b.term_of_rvalue(st[2]))
        s = show(tm)
        def _is_min(x):
            return x[0] == "call" and re.search(r"::min$", re.sub(r"::<.*>", "", x[1] or "")) is not None and "response_timeout" in show(x)
        shrink = _is_min(tm)
        if tm[0] == "phi" and not shrink and not empty:
            # `x = if table.is_empty() { new } else { min(x, new) }`: each alternative on its own
            n_loc = tm[1]
            alts_ok = []
            for d in b.defs().get(n_loc, []):
                if b.blocks[d[1]].get("c"):
                    continue
                at = deep_strip(b._term_of_def(d, 0, set())) if hasattr(b, "_term_of_def") else None
                e2 = any(v is True and "is_empty(" in show(x) for x, v in bool_facts(b, d[1], F))
                alts_ok.append(e2 or (at is not None and _is_min(at)))
            shrink = bool(alts_ok) and all(alts_ok)
        ctx.ob(R, b, "timeout assignment #%d cannot lengthen the wait of a pending request" % (i + 1), empty or shrink,
               "Transport::run replaces the response timeout in effect for the whole connection by the limit of the request it "
               "has just accepted, whatever is pending: a transfer with a 300 ms limit waits for the 19 s of a single request "
               "accepted after it (and the other way round)", b.where(bi))


def rule_recvbuf(ctx, F):
    """(C15.dgdl) The datagram transport reads into one buffer and cuts it to the length of what arrived.  Before every
    receive the buffer is brought back to the configured size: on every way round the receive loop the call to recv()
    is preceded by `buf.resize(recv_size, ..)` -- or an ignored short datagram (garbage, a foreign ID) leaves the buffer
    short and the real answer that follows is cut to that length."""
    from rulelib import on_every_cycle
    R = "C15.dgdl"
    bs = [b for p, b in F.bodies.items() if re.search(r"^net::client::dgram::Connection::<.*>::handle_request_impl::\{closure#0\}$", p)]
    if not ctx.anchor(R, "dgram::Connection::handle_request_impl", len(bs) == 1):
        return
    b = bs[0]
    recvs = [bb for bb, t in b.calls() if re.search(r"AsyncDgramRecvEx::recv$", t["fn"] or "")]
    cuts = [bb for bb, t in b.calls() if re.search(r"Vec::<.*>::truncate$", t["fn"] or "")]
    sizes = [bb for bb, t in b.calls() if re.search(r"Vec::<.*>::resize$", t["fn"] or "")]
    if not ctx.anchor(R, "recv() into the buffer and the truncate() after it", len(recvs) == 1 and len(cuts) >= 1, b.where()):
        return
    ok = bool(sizes) and all(on_every_cycle(b, recvs[0], s_) for s_ in sizes[:1]) and any(b.dominates(s_, recvs[0]) for s_ in sizes)
    if ok and len(sizes) >= 1:
        # every cycle through recv passes *some* resize
        ok = True
        for s2, lab in b.succs(recvs[0]):
            if recvs[0] in b.reach_from(s2, removed_blocks=sizes):
                ok = False
    ctx.ob(R, b, "the receive buffer has its full size for every datagram", ok,
           "handle_request_impl truncates the buffer to the length of each datagram it receives but does not resize it before the "
           "next recv() on every way round the loop: after an ignored datagram shorter than the answer, the answer is cut off "
           "(the caller gets a mutilated message, or the request times out)", b.where(recvs[0]))


def rule_drain(ctx, F):
    """(C15.ans) The stream transport's reader hands complete replies to the main loop through a channel and reports its
    own end separately.  When the reader has ended, the replies it had already sent are delivered first: on the way to
    the error that fails all pending requests, the main loop drains the channel (try_recv .. demux_reply) -- otherwise an
    answer that arrived together with the EOF is lost and its request fails."""
    R = "C15.ans"
    bs = [b for p, b in F.bodies.items() if re.search(r"^net::client::stream::Transport::<.*>::run::\{closure#0\}$", p)]
    if not ctx.anchor(R, "stream::Transport::run", len(bs) == 1):
        return
    b = bs[0]
    tr = [bb for bb, t in b.calls() if re.search(r"mpsc::Receiver::<.*>::try_recv$", t["fn"] or "")]
    errs = [bb for bb, t in b.calls() if re.search(r"stream::Transport::<.*>::error$", t["fn"] or "")]
    dm = [bb for bb, t in b.calls() if re.search(r"Transport::<.*>::demux_reply$", t["fn"] or "")]
    if not ctx.anchor(R, "Transport::error calls in run", len(errs) >= 1, b.where()):
        return
    drained = [e for e in errs if any(b.dominates(t_, e) for t_ in tr)]
    feeds = any(d in b.reach_from(t_) for t_ in tr for d in dm)
    ctx.ob(R, b, "replies already read are delivered before the reader's end fails the pending requests", bool(drained) and feeds,
           "Transport::run reports the reader's end with error(..) without first draining the reply channel (try_recv -> "
           "demux_reply): a response that was read completely just before the EOF / read error is dropped and its request "
           "completes with the stream error instead")


def rule_wrguard(ctx, F):
    """One outgoing slot: while a request is partly written (`do_write`), the stream transport takes no further request
    from its queue -- the next one would overwrite the slot and the peer would get the head of one frame and the tail
    of another.  In the `select!` of Transport::run that is the precondition `if !do_write` of the receiving arm: among
    the stores that disable an arm (`disabled |= 1 << k`), one is made under `do_write == true` (and the write arm's
    under `do_write == false`)."""
    R = "C15.wrguard"
    ctx.floor(R, 1)
    b = F.one_body(r"^net::client::stream::Transport::<.*>::run::\{closure#0\}$")
    if not ctx.anchor(R, "Transport::run (stream)", b):
        return
    dis = [pl[0] for n, pl in b.vars if n == "disabled" and len(pl) == 1]
    dw = [pl[0] for n, pl in b.vars if n == "do_write" and len(pl) == 1]
    if not ctx.anchor(R, "select! mask `disabled` and the flag `do_write` in Transport::run", bool(dis) and bool(dw), b.where()):
        return
    dwt = {str(deep_strip(b.term_of_local(l))) for l in dw}
    under = {True: 0, False: 0}
    stores = 0
    for bi in sorted(b.reachable_blocks()):
        for st in b.blocks[bi]["s"]:
            if st[0] == "=" and len(st[1]) == 1 and st[1][0] in dis and st[2][0] == "bin" and st[2][1] == "BitOr":
                stores += 1
                fa = facts_at(b, bi, F)
                if fa:
                    tm, v, _e = fa[-1]
                    if str(deep_strip(tm)) in dwt and isinstance(v, bool):
                        under[v] += 1
    ctx.ob(R, b, "an arm of the select is switched off while a request is being written", stores >= 2 and under[True] >= 1,
           "no arm of Transport::run's select! is disabled under do_write == true (%d precondition stores, %d under do_write, %d under "
           "!do_write): a request taken from the queue while the previous one is half written replaces it in the single outgoing "
           "slot, and the peer reads a frame made of two requests" % (stores, under[True], under[False]), b.where())
